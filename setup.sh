#!/bin/sh
# Build the verification framework from files on disk only (offline).
set -e
export GOFLAGS=-mod=mod GOPROXY=off GOSUMDB=off GOTOOLCHAIN=local
mkdir -p /verif/harness/work
cd /verif/harness && go build -o /verif/harness/work/pgtharness ./cmd/pgtharness
/verif/harness/work/pgtharness extract /repo /verif/lean/PGT/Generated >/dev/null || true
cd /verif/lean && lake build PGT pgtmodel
