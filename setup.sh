#!/bin/sh
# Build the verification framework from files on disk only (offline).
set -e
export GOFLAGS=-mod=mod GOPROXY=off GOSUMDB=off GOTOOLCHAIN=local
V="$(cd "$(dirname "$0")" && pwd)"
export VERIF_ROOT="$V"
mkdir -p "$V/harness/work"
cd "$V/harness" && go build -o "$V/harness/work/pgtharness" ./cmd/pgtharness
"$V/harness/work/pgtharness" extract /repo "$V/lean/PGT/Generated" >/dev/null || true
cd "$V/lean" && lake build PGT pgtmodel
