#!/usr/bin/env python3
"""Rewrites the per-property texts of MANIFEST.json (level_claimed.text, level_note) from the table below."""
import json, os
V = os.path.dirname(os.path.dirname(os.path.abspath(__file__)))
BASE = ("Trusted: Lean 4.33 kernel; axioms propext/Classical.choice/Quot.sound only (C19/C20 float32 rows additionally the declared "
        "bv_decide axiom); translators T1-T5; Go correspondence harness (random batches + the deterministic shape-coverage case corpus/sink.json); "
        "gogo v1.3.2, Go toolchain, terraform-plugin-framework v0.10.0. The hand-written model is tied to the code by the sampled correspondence only. ")
T = {
 'C01': ("Lean theorems on the declaration-level response (file name, package clause, exactly 3 functions per selected type that builds, failure on a rejected configuration, regenerated name templates / feature bit). 'Type-checks and compiles' is outside any model written here: every generated batch (8 per quick run, incl. the kitchen-sink descriptor in two package layouts) is compiled and linked with gogo's output.",
         "go/types and the Go compiler are not modelled: compile half by execution only. Known finding F10 (oneof in a nullable embedded message does not compile) is replayed from corpus/F10.json on every run."),
 'C02': ("Lean theorems: attribute name = documented rule for all fields / configurations (C02_names), documented type table decided on the regenerated table, nesting by kind. 'Writes exactly that attribute / reads back exactly that field': C03_total + toFields_renders (each CopyTo block stores only its own attribute, value determined by the field) and the frame theorem of CopyFrom (fromFields_frame: a block assigns only its own field / holder / embedded parent), both for every IR.",
         "The agreement schema = CopyTo = CopyFrom on names is established on the implementation by the independent Go oracle + correspondence; embedded flattening of the schema by correspondence."),
 'C03': ("Lean theorem C03_total, every template (scalars, pointer scalars, placeholder, oneof branches, children of embedded messages, nested messages, lists and maps of scalars and messages, custom types) at every nesting depth, any number of fields (mutual induction): CopyTo into the typed empty object does not panic, returns no diagnostic, stores for every field a present, fully known attribute of the schema's kind (Spec.rendersFields). C06_to_total: no panic for any sub-family of types.",
         "Hypothesis ToOKs = the value is typed for the IR, every attribute has its type, names distinct. Conformance to the framework (ToTerraformValue / ValueFromTerraform) is run on every result of the implementation (not modelled)."),
 'C04': ("Lean theorem C04_roundtrip_plain: for every IR built from scalars, pointer scalars, placeholders, nested messages (pointer / value / without fields), lists and maps of scalars and of messages, at every nesting depth (two mutual inductions composed: C03_total and fromFields_reads), CopyTo into the empty typed object followed by CopyFrom into a fresh struct returns the original in the normal form of the property, with no diagnostics. Scalar rows from the regenerated table (primRT_of_row / C19).",
         "Oneof branches, children of nullable embedded messages and custom types are not inside C04_roundtrip_plain: they rest on C04_scalar_roundtrip, the C07 theorems and the correspondence (Spec.c04Check on every round trip of the implementation). float32 via the bv_decide lemma."),
 'C05': ("Lean theorems for every field kind and EVERY Terraform value (conforming or not): C05_uniform / C05_prior_independent / C05_excluded_untouched (the call is the application of a list of field assignments determined by the Terraform value alone; diagnostics independent of the prior; undescribed fields untouched), C05_null_resets (null / unknown of any kind resets to nil / zero / empty whatever the payload), fromFields_frame for all IRs.",
         "C05_uniform is stated for messages whose own fields are neither oneof branches nor children of a nullable embedded message (nested messages arbitrary); those two groups are covered by C07_from_all_null / the frame theorem and the correspondence. 'No error diagnostic on conforming objects': correspondence + Spec.c05Check."),
 'C06': ("Lean theorems at full strength: C06_from_total – CopyFrom never panics, for every IR, every Terraform value (missing attributes, wrong Go types, nil interfaces, nil Attrs / Elems), every prior struct; C06_to_total – CopyTo never panics on a typed empty target for every IR and every sub-family of attribute types; C06_missing / C06_wrong_type / C06_to_missing: exactly the diagnostic and nothing written, for every kind at every depth.",
         "C06_to_total assumes the element types that are present are usable (TysOK: a list/map type has an element type, an object element type for lists/maps of messages) – the two unchecked dereferences / assertions of the emitted code. 'All well-formed attributes are still copied' and the diagnostic census at every depth: Spec.c06Fields on the implementation + correspondence."),
 'C07': ("Lean theorems for every message (any other fields), every attribute map (also malformed) and every prior struct: C07_from_all_null (no branch attribute known => holder nil), C07_from_one_known (exactly one known => holder is that branch's wrapper), via the frame theorem and the branch lemma; CopyTo side from renderings: C07_inactive_reads_zero, C07_to_scalar_branch, C07_to_message_branch.",
         "The payload of the chosen branch ('with that value') is the scalar round trip of C19 / C04; branches inside nullable embedded messages do not compile (finding F10)."),
 'C08': ("Lean theorems for the in-place scalar template (existing value re-used, null-ness kept, Unknown cleared, payload overwritten) and the echo of one scalar attribute; whole-object statement Spec.c08Check evaluated on 3-step histories of the implementation (random plans, one-hot plans: exactly one attribute known / unknown) + correspondence.",
         "partial proof (scalar template); collections and objects in place by correspondence."),
 'C09': ("Lean theorems: scalar attribute follows the source and the call is idempotent; element loop writes exactly one element per source element. Collections / objects by correspondence and Spec.c09StepCheck on call sequences of the implementation.",
         "partial proof."),
 'C10': ("Lean theorems for ALL comment strings (no newline, trimmed), Required xor Optional and flag / validator / plan-modifier transfer, UseStateForUnknown rule, both key forms (regenerated lookup order), placeholder and injected attributes; schema literal and run-time schema compared with the model and with the independent Go oracle.",
         "word preservation of the flattening not proved."),
 'C11': ("Lean theorems: options depend on the configuration only through the two keys of the occurrence; entries under other keys are invisible; exclusion yields no IR node and is tested first. Variant runs with keys stratified over position classes (depth x single / repeated / map / oneof parent x embedded): adding an option changes only addressed attributes; exclusion removes only addressed attributes.",
         "path uniqueness not proved (finding F9 repaired); converter-behaviour half by correspondence and the frame theorem."),
 'C12': ("Lean theorems: unselected message => nothing; the IR of a type is independent of the types list; emitted names = 3 per built root. Byte identity of function text across selections / extended requests: per-function sha256 on the real output.",
         "printer not modelled: byte identity by execution only."),
 'C13': ("Lean theorems on PrependPackageNameIfMissing (same package / builtin), representation independence of qualification, root path rule. Compile in the two-package layout and differential execution of both layouts on identical operations (random batches and the kitchen-sink case).",
         "compile half by execution only."),
 'C14': ("Lean theorems: no range over a map anywhere in package main (regenerated, type-checked fact) and C14_view_perm: everything the generator asks the configuration is invariant under permutation of sets and duplicate-free maps. Repeated process runs and shuffled configurations hashed.",
         "process-level nondeterminism is observed, not proved."),
 'C15': ("Lean theorem C15_sort_perm: for pairwise distinct names every permutation sorts to the same list (any sorting algorithm); permuted descriptors (fields, messages and oneof declarations): byte-identical file with sort on, identical schema and function set with sort off.",
         "behaviour with sort off: schema only (converter behaviour by the main correspondence)."),
 'C16': ("Lean theorems on readConfig over the regenerated CLI table: the nine dual options with documented keys, '+' delimiter, YAML-only reading, error cases, CLI precedence for string options. Two-channel runs: same logical configuration on CLI / YAML / random splits with decoys gives byte-identical files; error cases (no types, missing file, unparsable text, well-formed YAML of the wrong shape) fail.",
         "yaml.v3 not modelled; generic equivalence theorem for all rows pending."),
 'C17': ("Lean theorems: suffix rule, custom_types keyed by path only, hook-call shapes regenerated from the source, schema entry carries exactly description and flags, CopyTo stores the hook's value and makes exactly that call, CopyFrom calls the hook also for a missing attribute and reports it. Instrumented hooks' call logs compared (as multisets).",
         "hooks are the harness's; user hooks are parameters."),
 'C18': ("Lean theorems: first error aborts the field list; a built list means every field built; time without time_type is unmappable; exclusion is tested first; an emitted root is one whose build succeeded. Variants with an injected non-string-key map at root and nested level, with and without exclusion.",
         "reachability at any depth by correspondence."),
 'C19': ("Lean theorems over bit vectors: for every non-float32 row of the regenerated type table (with and without cast types, enum) castFrom(castTo x) = x for all 2^32 / 2^64 values and all byte strings; float32: narrow32(widen64 x) = x for every non-NaN bit pattern (bv_decide). Lifted to every position of the plain tree by C04_roundtrip_plain.",
         "the float32 lemma depends on the bv_decide axiom (declared); the bit-level float model is validated against Go's conversions."),
 'C20': ("Lean theorem C20_nullness: every template at every depth (same hypothesis as C03_total): null <=> zero / empty / nil per attribute; zero test faithful for every row of the regenerated table (float32 with the declared axiom).",
         "Hypothesis ToOKs as for C03."),
}
m = json.load(open(f'{V}/MANIFEST.json'))
for c in m['checks']:
    t, n = T[c['property_id']]
    c['level_claimed']['text'] = t
    c['level_note'] = BASE + n
json.dump(m, open(f'{V}/MANIFEST.json', 'w'), indent=1)
print('ok')
