import json,glob,sys
prop=sys.argv[1]
for p in sorted(glob.glob(f'/verif/replays/{prop}-*.json')):
    r=json.load(open(p))
    if 'id' not in r: print(p, json.dumps(r)[:1500]); continue
    b=r['batch']; i=r['id']
    ops=[json.loads(l) for l in open(b+'/ops.jsonl')]
    impl=[json.loads(l) for l in open(b+'/impl.jsonl')]
    model=[json.loads(l) for l in open(b+'/model.jsonl')]
    k=[n for n,o in enumerate(ops) if o['id']==i][0]
    op,im,mo=ops[k],impl[k],model[k]
    print('==',p, r.get('kind'), r['tag'], r['type'], r.get('diff'), r.get('triggers'))
    n=int(sys.argv[2]) if len(sys.argv)>2 else 900
    print(' OP  :', json.dumps(op)[:n])
    print(' IMPL:', json.dumps(im)[:n])
    if im!=mo: print(' MODEL:', json.dumps(mo)[:n])
