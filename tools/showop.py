import json,sys
b,i=sys.argv[1],int(sys.argv[2]); n=int(sys.argv[3]) if len(sys.argv)>3 else 1500
ops=[json.loads(l) for l in open(b+'/ops.jsonl')]; impl=[json.loads(l) for l in open(b+'/impl.jsonl')]; cr=[json.loads(l) for l in open(b+'/checkres.jsonl')]
k=[x for x,o in enumerate(ops) if o['id']==i][0]
print('OP  :',json.dumps(ops[k])[:n]); print('IMPL:',json.dumps(impl[k])[:n]); print('CHK :',cr[k])
