"""Evaluators for the generator-level properties (Level G): real plugin runs on derived cases (variants),
compared with the Lean model's declaration-level output (`emit`, `schema`) and with each other."""
import copy, hashlib, json, os, random, subprocess
import pgtcheck as pc

LICENSE = open('/repo/license.txt').read() if os.path.exists('/repo/license.txt') else ''


def model_ops(case_path, ops):
    p = subprocess.run([pc.MODEL, case_path], input=''.join(json.dumps(o) + '\n' for o in ops), text=True, capture_output=True, timeout=600)
    out = []
    for l in p.stdout.splitlines():
        if l.strip():
            try:
                out.append(json.loads(l))
            except Exception:
                out.append({'modelError': l[:200]})
    return out


def run_variant(info, name, case, repeat=1):
    """plugin-only run of a derived case; cached by content"""
    key = hashlib.sha256(json.dumps(case, sort_keys=True).encode()).hexdigest()[:16]
    d = f"{info['cache']}/v_{name}_{key}"
    if not os.path.exists(f'{d}/done'):
        os.makedirs(d, exist_ok=True)
        json.dump(case, open(f'{d}/case.json', 'w'))
        pc.sh([pc.BIN, 'plugin-only', '-work', d, '-plugin', pc.plugin_path(info['repoHash']), '-repeat', str(repeat)], cwd=pc.HARNESS)
        types = (case.get('yaml') or {}).get('types') or []
        ops = [{'op': 'emit'}]
        res = model_ops(f'{d}/case.json', ops)
        json.dump(res, open(f'{d}/model.json', 'w'))
        open(f'{d}/done', 'w').write('1')
    v = {'dir': d, 'case': case}
    for n in ('plugin', 'static', 'model'):
        p = f'{d}/{n}.json'
        v[n] = json.load(open(p)) if os.path.exists(p) else None
    tf = f'{d}/x_terraform.go.txt'
    v['text'] = open(tf).read() if os.path.exists(tf) else None
    return v


def schema_ops(batch):
    """(type, model schema tree) for every root of a batch, from the model; None if unavailable"""
    types = [f[len('GenSchema'):] for f in (batch['static'] or {}).get('funcs', []) if f.startswith('GenSchema')]
    res = model_ops(f"{batch['dir']}/case.json", [{'op': 'schema', 'type': t} for t in types])
    return dict(zip(types, res))


def strip_attr(a, keys):
    if a is None:
        return None
    out = {}
    for n, v in a.items():
        e = {k: v.get(k) for k in keys}
        e['attrs'] = strip_attr(v.get('attrs'), keys)
        out[n] = e
    return out


def first_diff(a, b):
    import compare
    return compare.first_diff(a, b)


SIGS = {
    'GenSchema': 'func(ctx context.Context) (github_com_hashicorp_terraform_plugin_framework_tfsdk.Schema, github_com_hashicorp_terraform_plugin_framework_diag.Diagnostics)',
    'From': 'func(_ context.Context, tf github_com_hashicorp_terraform_plugin_framework_types.Object, obj *{T}) github_com_hashicorp_terraform_plugin_framework_diag.Diagnostics',
    'To': 'func(ctx context.Context, obj *{T}, tf *github_com_hashicorp_terraform_plugin_framework_types.Object) github_com_hashicorp_terraform_plugin_framework_diag.Diagnostics',
}


def expected_funcs(types_in_order):
    return ['GenSchema' + t for t in types_in_order] + [x for t in types_in_order for x in (f'Copy{t}FromTerraform', f'Copy{t}ToTerraform')]


def c01_case(b, known):
    """C01 on one plugin run (+ build result when the batch went through Stage B). Returns list of failure strings."""
    fails = []
    pl, st = b['plugin'], b['static']
    if pl is None:
        return ['plugin did not run: ' + str(b['status'])]
    if pl['exit'] != 0:
        fails.append(f"plugin exit code {pl['exit']}: {pl['stderr'][-300:]}")
        return fails
    if not pl.get('parsed'):
        fails.append('stdout is not exactly one serialized CodeGeneratorResponse')
        return fails
    if pl.get('features') != 1:
        fails.append(f"supported_features = {pl.get('features')} (FEATURE_PROTO3_OPTIONAL expected)")
    base = b['case']['request']['file']['name'].rsplit('.', 1)[0]
    if pl.get('files') != [base + '_terraform.go']:
        fails.append(f"response files {pl.get('files')}")
        return fails
    if st is None or st.get('parseError'):
        fails.append('generated file does not parse: ' + str((st or {}).get('parseError')))
        return fails
    if not st['headerOK']:
        fails.append('file does not start with the licence header')
    m = (b.get('emit') or b.get('model') or [{}])[0]
    if 'funcs' in m:
        if st['package'] != m['package']:
            fails.append(f"package clause {st['package']} (expected {m['package']})")
        if st['funcs'] != m['funcs']:
            fails.append(f"top-level functions {st['funcs']} differ from the model's {m['funcs']}")
        if pl.get('files') != [m['file']]:
            fails.append(f"file name {pl.get('files')} vs model {m['file']}")
    else:
        fails.append('model has no emit result: ' + json.dumps(m)[:200])
    # independent reading of the property: selected types -> exactly the three functions with the documented signatures
    roots = [f[len('GenSchema'):] for f in st['funcs'] if f.startswith('GenSchema')]
    if sorted(st['funcs']) != sorted(expected_funcs(roots)):
        fails.append('function set is not 3 x selected types')
    sep = st['package'] != b['case']['request']['file']['package']
    for t in roots:
        for kind, name in (('GenSchema', 'GenSchema' + t), ('From', f'Copy{t}FromTerraform'), ('To', f'Copy{t}ToTerraform')):
            sig = st['sigs'].get(name, '')
            want = SIGS[kind].replace('{T}', t)
            if sep:
                # the struct type is qualified in the separate-package layout
                import re
                sig = re.sub(r'\*[A-Za-z0-9_]+\.' + t + r'\)', '*' + t + ')', sig)
            if sig != want:
                fails.append(f'signature of {name}: {sig}')
    if b['status'].get('stage') == 'build':
        fails.append('generated file does not compile with gogo output: ' + b['status'].get('error', '')[:400])
    return fails


def eval_c01(batches, tier, seed, known, info):
    out = {'evaluations': 0, 'violations': [], 'tie_breaks': [], 'distinct': [], 'samples': [], 'coverage': {}, 'known': {}}
    built = 0
    for b in batches:
        out['evaluations'] += 1
        f = c01_case(b, known)
        if b['status'].get('stage') == 'done':
            built += 1
        out['distinct'].append(b['dir'])
        if f:
            out['violations'].append({'kind': 'C01 clause fails on the implementation', 'batch': b['dir'], 'failures': f[:5]})
        elif len(out['samples']) < 2:
            out['samples'].append({'batch': b['dir'], 'funcs': b['static']['funcs'][:6], 'package': b['static']['package'], 'stage': b['status'].get('stage')})
    out['coverage'] = {'cases_compiled_and_linked_with_gogo_output': built, 'traces_validated_against_impl': out['evaluations'] - len(out['violations'])}
    return out


SCHEMA_KEYS = {
    'C02': ['ty', 'nest'],
    'C10': ['req', 'opt', 'comp', 'sens', 'desc', 'val', 'pm', 'ty', 'nest'],
    'C17': ['custom', 'desc', 'req', 'opt', 'comp', 'sens'],
}


def runtime_schemas(b):
    out = {}
    for op, im in zip(b['ops'], b['impl']):
        if op.get('op') == 'schema':
            out[op['type']] = im.get('attrs')
    return out


def eval_schema(prop):
    keys = SCHEMA_KEYS[prop]

    def ev(batches, tier, seed, known, info):
        out = {'evaluations': 0, 'violations': [], 'tie_breaks': [], 'distinct': [], 'samples': [], 'coverage': {}, 'known': {}}
        nattrs = 0
        for b in batches:
            if not b['static'] or b['static'].get('parseError'):
                continue
            ms = schema_ops(b)
            rt = runtime_schemas(b) if b['status'].get('stage') == 'done' else {}
            for t, tree in b['static']['schemas'].items():
                out['evaluations'] += 1
                out['distinct'].append(b['dir'] + ':' + t)
                mod = ms.get(t, {}).get('attrs')
                if mod is None:
                    out['tie_breaks'].append({'batch': b['dir'], 'type': t, 'diff': 'model has no schema: ' + json.dumps(ms.get(t))[:200]})
                    continue
                nattrs += count_attrs(mod)
                skeys = [k for k in keys]
                a, m2 = strip_attr(tree, skeys), strip_attr(mod, skeys)
                if prop != 'C17':
                    # custom attributes get their type from the user's hook: the literal carries none
                    blank_custom(a, tree)
                    blank_custom(m2, tree)
                d = first_diff(a, m2)
                if d:
                    out['tie_breaks'].append({'batch': b['dir'], 'type': t, 'stage': 'A (literal)', 'diff': d})
                if t in rt and rt[t] is not None and prop != 'C17':
                    rkeys = [k for k in keys if k != 'custom']
                    d = first_diff(strip_attr(rt[t], rkeys), strip_attr(mod, rkeys))
                    if d:
                        out['tie_breaks'].append({'batch': b['dir'], 'type': t, 'stage': 'B (run-time walk)', 'diff': d})
                if len(out['samples']) < 2:
                    out['samples'].append({'type': t, 'schema': json.dumps(a)[:800]})
        out['coverage'] = {'attributes_compared': nattrs, 'traces_validated_against_impl': out['evaluations'] - len(out['tie_breaks'])}
        return out
    return ev


def blank_custom(stripped, tree):
    if stripped is None or tree is None:
        return
    for n, v in tree.items():
        if n in stripped and v.get('custom'):
            stripped[n]['ty'] = None
        if n in stripped:
            blank_custom(stripped[n].get('attrs'), v.get('attrs'))


def count_attrs(a):
    if not a:
        return 0
    return sum(1 + count_attrs(v.get('attrs')) for v in a.values())


# ----------------------------------------------------------------------------------------------------------
# C14: determinism and order independence

def shuffled(case, rnd):
    c = copy.deepcopy(case)
    y = c.get('yaml')
    if y:
        for k in ('types', 'excludeFields', 'computedFields', 'requiredFields', 'sensitiveFields', 'suffixes', 'nameOverrides',
                  'validators', 'planModifiers', 'injectedFields', 'importPathOverrides', 'customTypes'):
            if y.get(k):
                rnd.shuffle(y[k])
    return c


def eval_c14(batches, tier, seed, known, info):
    out = {'evaluations': 0, 'violations': [], 'tie_breaks': [], 'distinct': [], 'samples': [], 'coverage': {}, 'known': {}}
    rnd = random.Random(seed)
    runs = 5 if tier == 'quick' else 25
    for b in batches[: (3 if tier == 'quick' else len(batches))]:
        if not b['plugin'] or not b['plugin'].get('parsed'):
            continue
        base = run_variant(info, 'c14base', b['case'], repeat=runs)
        shas = set(base['plugin'].get('runShas', []))
        out['evaluations'] += runs
        out['distinct'].append(b['dir'])
        if len(shas) != 1:
            out['violations'].append({'kind': 'responses differ between process runs on the same request', 'batch': b['dir'], 'shas': sorted(shas)})
        for k in range(2 if tier == 'quick' else 6):
            v = run_variant(info, f'c14shuf{k}', shuffled(b['case'], rnd), repeat=1)
            out['evaluations'] += 1
            if v['plugin'].get('contentSha') != base['plugin'].get('contentSha'):
                out['violations'].append({'kind': 'generated file depends on the order of configuration entries', 'batch': b['dir'], 'variant': v['dir']})
        if len(out['samples']) < 2:
            out['samples'].append({'batch': b['dir'], 'runs': runs, 'sha': sorted(shas)})
    out['coverage'] = {'process_runs_hashed': out['evaluations']}
    return out


# ----------------------------------------------------------------------------------------------------------
# C16: channels

DUAL = [('types', 'types', 'list'), ('excludeFields', 'exclude_fields', 'list'), ('computedFields', 'computed_fields', 'list'),
        ('requiredFields', 'required_fields', 'list'), ('sensitiveFields', 'sensitive', 'list'),
        ('defaultPackageName', 'default_package_name', 'str'), ('targetPackageName', 'target_package_name', 'str'),
        ('durationCustomType', 'custom_duration', 'str'), ('sort', 'sort', 'bool')]


def move_to_cli(case, which, rnd, keep_yaml_decoy=False):
    """deliver the options in `which` through the command line instead of the YAML file"""
    c = copy.deepcopy(case)
    y = c['yaml']
    for jk, ck, kind in DUAL:
        if jk not in which:
            continue
        v = y.get(jk)
        if kind == 'list':
            if not v:
                continue
            c['cli'].append({'k': ck, 'v': '+'.join(v)})
            y[jk] = ['Decoy' + str(rnd.randint(0, 9))] if keep_yaml_decoy else None
        elif kind == 'str':
            if not v:
                continue
            c['cli'].append({'k': ck, 'v': v})
            y[jk] = 'decoy' if keep_yaml_decoy else ''
        else:
            c['cli'].append({'k': ck, 'v': 'true' if v else 'false'})
            y[jk] = (not v) if keep_yaml_decoy else False
    return c


def eval_c16(batches, tier, seed, known, info):
    out = {'evaluations': 0, 'violations': [], 'tie_breaks': [], 'distinct': [], 'samples': [], 'coverage': {}, 'known': {}}
    rnd = random.Random(seed + 16)
    errs = 0
    for b in batches[: (4 if tier == 'quick' else len(batches))]:
        if not b['plugin'] or not b['plugin'].get('parsed') or b['case'].get('yamlState') != 'ok':
            continue
        base = run_variant(info, 'c16base', b['case'])
        want = base['plugin'].get('contentSha')
        allk = [d[0] for d in DUAL]
        variants = [('all-cli', set(allk), False), ('all-cli-yaml-decoy', set(allk), True)]
        for i in range(3 if tier == 'quick' else 10):
            variants.append((f'split{i}', set(k for k in allk if rnd.random() < 0.5), rnd.random() < 0.5))
        for name, which, decoy in variants:
            if decoy:
                which = {k for k in which if not (k == 'sort' and False)}
            c = move_to_cli(b['case'], which, rnd, decoy)
            v = run_variant(info, 'c16' + name, c)
            out['evaluations'] += 1
            out['distinct'].append(v['dir'])
            m = (v['model'] or [{}])[0]
            if v['plugin'].get('contentSha') != want:
                out['violations'].append({'kind': 'same logical configuration, different channel, different file', 'batch': b['dir'], 'variant': v['dir'],
                                          'moved': sorted(which), 'decoy_in_yaml': decoy, 'exit': v['plugin'].get('exit'), 'stderr': v['plugin'].get('stderr', '')[-300:]})
            if 'funcs' not in m:
                out['tie_breaks'].append({'variant': v['dir'], 'diff': 'model rejects the configuration: ' + json.dumps(m)[:200]})
        # error half
        for name, mut in (('notypes', lambda c: (c['yaml'].__setitem__('types', None), c.__setitem__('cli', [kv for kv in c['cli'] if kv['k'] != 'types']))),
                          ('missing', lambda c: c.__setitem__('yamlState', 'missing')),
                          ('garbage', lambda c: c.__setitem__('yamlState', 'garbage')),
                          ('blanktypes', lambda c: (c['yaml'].__setitem__('types', None), c['cli'].append({'k': 'types', 'v': '  '})))):
            c = copy.deepcopy(b['case'])
            mut(c)
            v = run_variant(info, 'c16' + name, c)
            out['evaluations'] += 1
            errs += 1
            m = (v['model'] or [{}])[0]
            if v['plugin'].get('exit') == 0 and v['plugin'].get('nfiles'):
                out['violations'].append({'kind': f'plugin generates with defaults instead of failing ({name})', 'variant': v['dir']})
            if 'fail' not in m:
                out['tie_breaks'].append({'variant': v['dir'], 'diff': f'model does not fail for {name}: ' + json.dumps(m)[:200]})
        if len(out['samples']) < 2:
            out['samples'].append({'batch': b['dir'], 'variants': [n for n, _, _ in variants]})
    out['coverage'] = {'error_cases': errs, 'traces_validated_against_impl': out['evaluations'] - len(out['violations'])}
    return out


EVALUATORS = {
    'C01': eval_c01,
    'C02': eval_schema('C02'),
    'C10': eval_schema('C10'),
    'C17': eval_schema('C17'),
    'C14': eval_c14,
    'C16': eval_c16,
}
