"""Evaluators for the generator-level properties (Level G): real plugin runs on derived cases (variants),
compared with the Lean model's declaration-level output (`emit`, `schema`) and with each other."""
import copy, hashlib, json, os, random, subprocess
import pgtcheck as pc

LICENSE = open(pc.REPO + '/license.txt').read() if os.path.exists(pc.REPO + '/license.txt') else ''


def model_ops(case_path, ops):
    p = subprocess.run([pc.MODEL, case_path], input=''.join(json.dumps(o) + '\n' for o in ops), text=True, capture_output=True, timeout=600)
    out = []
    for l in p.stdout.splitlines():
        if l.strip():
            try:
                out.append(json.loads(l))
            except Exception:
                out.append({'modelError': l[:200]})
    return out


def run_variant(info, name, case, repeat=1):
    """plugin-only run of a derived case; cached by content"""
    key = hashlib.sha256(json.dumps(case, sort_keys=True).encode()).hexdigest()[:16]
    d = f"{info['cache']}/v_{name}_{key}"
    if not os.path.exists(f'{d}/done'):
        os.makedirs(d, exist_ok=True)
        json.dump(case, open(f'{d}/case.json', 'w'))
        pc.sh([pc.BIN, 'plugin-only', '-work', d, '-plugin', pc.plugin_path(info['repoHash']), '-repeat', str(repeat)], cwd=pc.HARNESS)
        types = (case.get('yaml') or {}).get('types') or []
        ops = [{'op': 'emit'}]
        res = model_ops(f'{d}/case.json', ops)
        json.dump(res, open(f'{d}/model.json', 'w'))
        open(f'{d}/done', 'w').write('1')
    v = {'dir': d, 'case': case}
    for n in ('plugin', 'static', 'model', 'oracle'):
        p = f'{d}/{n}.json'
        v[n] = json.load(open(p)) if os.path.exists(p) else None
    tf = f'{d}/x_terraform.go.txt'
    v['text'] = open(tf).read() if os.path.exists(tf) else None
    return v


def schema_ops(batch):
    """(type, model schema tree) for every root of a batch, from the model; None if unavailable"""
    types = [f[len('GenSchema'):] for f in (batch['static'] or {}).get('funcs', []) if f.startswith('GenSchema')]
    res = model_ops(f"{batch['dir']}/case.json", [{'op': 'schema', 'type': t} for t in types])
    return dict(zip(types, res))


def strip_attr(a, keys):
    if a is None:
        return None
    out = {}
    for n, v in a.items():
        e = {k: v.get(k) for k in keys}
        if 'ty' in e and v.get('nest') not in (None, 'none'):
            e['ty'] = None   # nested attributes carry no Type of their own in the literal; their type is the tree below
        e['attrs'] = strip_attr(v.get('attrs'), keys)
        out[n] = e
    return out


def first_diff(a, b):
    import compare
    return compare.first_diff(a, b)


SIGS = {
    'GenSchema': 'func(ctx context.Context) (github_com_hashicorp_terraform_plugin_framework_tfsdk.Schema, github_com_hashicorp_terraform_plugin_framework_diag.Diagnostics)',
    'From': 'func(_ context.Context, tf github_com_hashicorp_terraform_plugin_framework_types.Object, obj *{T}) github_com_hashicorp_terraform_plugin_framework_diag.Diagnostics',
    'To': 'func(ctx context.Context, obj *{T}, tf *github_com_hashicorp_terraform_plugin_framework_types.Object) github_com_hashicorp_terraform_plugin_framework_diag.Diagnostics',
}


def expected_funcs(types_in_order):
    return ['GenSchema' + t for t in types_in_order] + [x for t in types_in_order for x in (f'Copy{t}FromTerraform', f'Copy{t}ToTerraform')]


def c01_case(b, known):
    """C01 on one plugin run (+ build result when the batch went through Stage B). Returns list of failure strings."""
    fails = []
    pl, st = b['plugin'], b['static']
    if pl is None:
        return ['plugin did not run: ' + str(b['status'])]
    if pl['exit'] != 0:
        fails.append(f"plugin exit code {pl['exit']}: {pl['stderr'][-300:]}")
        return fails
    if not pl.get('parsed'):
        fails.append('stdout is not exactly one serialized CodeGeneratorResponse')
        return fails
    if pl.get('features') != 1:
        fails.append(f"supported_features = {pl.get('features')} (FEATURE_PROTO3_OPTIONAL expected)")
    base = b['case']['request']['file']['name'].rsplit('.', 1)[0]
    if pl.get('files') != [base + '_terraform.go']:
        fails.append(f"response files {pl.get('files')}")
        return fails
    if st is None or st.get('parseError'):
        fails.append('generated file does not parse: ' + str((st or {}).get('parseError')))
        return fails
    if not st['headerOK']:
        fails.append('file does not start with the licence header')
    m = (b.get('emit') or b.get('model') or [{}])[0]
    if 'funcs' in m:
        if st['package'] != m['package']:
            fails.append(f"package clause {st['package']} (expected {m['package']})")
        if st['funcs'] != m['funcs']:
            fails.append(f"top-level functions {st['funcs']} differ from the model's {m['funcs']}")
        if pl.get('files') != [m['file']]:
            fails.append(f"file name {pl.get('files')} vs model {m['file']}")
    else:
        fails.append('model has no emit result: ' + json.dumps(m)[:200])
    # independent reading of the property: selected types -> exactly the three functions with the documented signatures
    roots = [f[len('GenSchema'):] for f in st['funcs'] if f.startswith('GenSchema')]
    if sorted(st['funcs']) != sorted(expected_funcs(roots)):
        fails.append('function set is not 3 x selected types')
    sep = st['package'] != b['case']['request']['file']['package']
    for t in roots:
        for kind, name in (('GenSchema', 'GenSchema' + t), ('From', f'Copy{t}FromTerraform'), ('To', f'Copy{t}ToTerraform')):
            sig = st['sigs'].get(name, '')
            want = SIGS[kind].replace('{T}', t)
            if sep:
                # the struct type is qualified in the separate-package layout
                import re
                sig = re.sub(r'\*[A-Za-z0-9_]+\.' + t + r'\b', '*' + t, sig)
            if sig != want:
                fails.append(f'signature of {name}: {sig}')
    if b['status'].get('stage') == 'build':
        fails.append('generated file does not compile with gogo output: ' + b['status'].get('error', '')[:400])
    return fails


def eval_c01(batches, tier, seed, known, info):
    out = {'evaluations': 0, 'violations': [], 'tie_breaks': [], 'distinct': [], 'samples': [], 'coverage': {}, 'known': {}}
    built = 0
    for b in batches:
        out['evaluations'] += 1
        f = c01_case(b, known)
        if b['status'].get('stage') == 'done':
            built += 1
        out['distinct'].append(b['dir'])
        if f:
            out['violations'].append({'kind': 'C01 clause fails on the implementation', 'batch': b['dir'], 'failures': f[:5]})
        elif len(out['samples']) < 2:
            out['samples'].append({'batch': b['dir'], 'funcs': b['static']['funcs'][:6], 'package': b['static']['package'], 'stage': b['status'].get('stage')})
    out['coverage'] = {'cases_compiled_and_linked_with_gogo_output': built, 'traces_validated_against_impl': out['evaluations'] - len(out['violations'])}
    # known finding F10 (quarantined shape: the random generator never draws it): replay its witness on every run
    if 'F10' in known:
        import re
        w = f"{pc.VERIF}/{known['F10']['witness']}"
        d = f"{info['cache']}/w_F10"
        if not os.path.exists(f'{d}/status.json'):
            pc.sh([pc.BIN, 'batch', '-seed', '1', '-index', '0', '-work', d, '-plugin', pc.plugin_path(info['repoHash']), '-scale', '1', '-case', w],
                  cwd=pc.HARNESS, timeout=900)
        st = json.load(open(f'{d}/status.json')) if os.path.exists(f'{d}/status.json') else {'stage': 'crash'}
        out['evaluations'] += 1
        if st.get('stage') == 'build':
            lines = [l for l in st.get('error', '').splitlines() if l.strip() and not l.startswith('#')]
            sig = re.compile(r'obj\.(\w+) undefined \(type \*\w+_\w+ has no field or method \1\)')
            other = [l for l in lines if not sig.search(l) and 'too many errors' not in l]
            if other:
                out['violations'].append({'kind': 'the witness of F10 fails to compile in a way the finding does not describe', 'batch': d, 'failures': other[:5]})
            else:
                out['known']['F10'] = 1
        elif st.get('stage') == 'done':
            out['coverage']['F10_witness'] = 'compiles now: the finding no longer reproduces'
        else:
            out['violations'].append({'kind': 'the witness of F10 could not be run', 'batch': d, 'failures': [json.dumps(st)[:400]]})
    return out


SCHEMA_KEYS = {
    'C02': ['ty', 'nest'],
    'C10': ['req', 'opt', 'comp', 'sens', 'desc', 'val', 'pm', 'ty', 'nest'],
    'C17': ['custom', 'desc', 'req', 'opt', 'comp', 'sens'],
}


def runtime_schemas(b):
    out = {}
    for op, im in zip(b['ops'], b['impl']):
        if op.get('op') == 'schema':
            out[op['type']] = im.get('attrs')
    return out


def eval_schema(prop):
    keys = SCHEMA_KEYS[prop]

    def ev(batches, tier, seed, known, info):
        out = {'evaluations': 0, 'violations': [], 'tie_breaks': [], 'distinct': [], 'samples': [], 'coverage': {}, 'known': {}}
        nattrs = 0
        for b in batches:
            if not b['static'] or b['static'].get('parseError'):
                continue
            ms = schema_ops(b)
            rt = runtime_schemas(b) if b['status'].get('stage') == 'done' else {}
            for t, tree in b['static']['schemas'].items():
                out['evaluations'] += 1
                out['distinct'].append(b['dir'] + ':' + t)
                mod = ms.get(t, {}).get('attrs')
                if mod is None:
                    out['tie_breaks'].append({'batch': b['dir'], 'type': t, 'diff': 'model has no schema: ' + json.dumps(ms.get(t))[:200]})
                    continue
                nattrs += count_attrs(mod)
                skeys = [k for k in keys]
                a, m2 = strip_attr(tree, skeys), strip_attr(mod, skeys)
                if prop != 'C17':
                    # custom attributes get their type from the user's hook: the literal carries none
                    blank_custom(a, tree)
                    blank_custom(m2, tree)
                d = first_diff(a, m2)
                if d:
                    out['tie_breaks'].append({'batch': b['dir'], 'type': t, 'stage': 'A (literal)', 'diff': d})
                if t in rt and rt[t] is not None and prop != 'C17':
                    rkeys = [k for k in keys if k != 'custom']
                    d = first_diff(strip_attr(rt[t], rkeys), strip_attr(mod, rkeys))
                    if d:
                        out['tie_breaks'].append({'batch': b['dir'], 'type': t, 'stage': 'B (run-time walk)', 'diff': d})
                # independent oracle (harness/oracle: documented rules on the abstract descriptor, no shared code)
                orc = (b.get('oracle') or {}).get(t)
                if orc is not None and prop in ('C02', 'C10'):
                    okeys = [k for k in keys if k not in ('custom',)]
                    d = oracle_diff(tree, orc, okeys)
                    if d:
                        out['violations'].append({'kind': f'schema deviates from the documented rules ({prop})', 'batch': b['dir'], 'type': t, 'diff': d})
                if len(out['samples']) < 2:
                    out['samples'].append({'type': t, 'schema': json.dumps(a)[:800]})
        out['coverage'] = {'attributes_compared': nattrs, 'traces_validated_against_impl': out['evaluations'] - len(out['tie_breaks'])}
        return out
    return ev


def oracle_diff(tree, orc, keys, path=''):
    """compare the generated schema literal with the oracle's expectation; returns the first difference"""
    if set(tree) != set(orc):
        return f'{path}: attribute names {sorted(set(tree) - set(orc))} unexpected, {sorted(set(orc) - set(tree))} missing'
    for n in sorted(tree):
        a, o = tree[n], orc[n]
        for k in keys:
            if k == 'desc' and o.get('kind') == 'injected':
                continue
            if k == 'nest' and o.get('kind') == 'custom':
                continue
            if k == 'ty' and (o.get('kind') in ('custom', 'injected', 'placeholder') or o.get('ty') is None):
                continue        # custom types: the user's hook decides; injected / placeholder: own rules; nested objects: no Type
            if a.get(k) != o.get(k):
                return f'{path}/{n}.{k}: generated {json.dumps(a.get(k))} expected {json.dumps(o.get(k))}'
        if o.get('attrs') is not None or a.get('attrs') is not None:
            if (o.get('attrs') is None) != (a.get('attrs') is None):
                return f'{path}/{n}: nested attributes generated={a.get("attrs") is not None} expected={o.get("attrs") is not None}'
            d = oracle_diff(a['attrs'], o['attrs'], keys, path + '/' + n)
            if d:
                return d
    return None


def blank_custom(stripped, tree):
    if stripped is None or tree is None:
        return
    for n, v in tree.items():
        if n in stripped and v.get('custom'):
            stripped[n]['ty'] = None
        if n in stripped:
            blank_custom(stripped[n].get('attrs'), v.get('attrs'))


def count_attrs(a):
    if not a:
        return 0
    return sum(1 + count_attrs(v.get('attrs')) for v in a.values())


# ----------------------------------------------------------------------------------------------------------
# C14: determinism and order independence

def shuffled(case, rnd):
    c = copy.deepcopy(case)
    y = c.get('yaml')
    if y:
        for k in ('types', 'excludeFields', 'computedFields', 'requiredFields', 'sensitiveFields', 'suffixes', 'nameOverrides',
                  'validators', 'planModifiers', 'injectedFields', 'importPathOverrides', 'customTypes'):
            if y.get(k):
                rnd.shuffle(y[k])
    return c


def eval_c14(batches, tier, seed, known, info):
    out = {'evaluations': 0, 'violations': [], 'tie_breaks': [], 'distinct': [], 'samples': [], 'coverage': {}, 'known': {}}
    rnd = random.Random(seed)
    for bi, b in enumerate(batches[: (3 if tier == 'quick' else len(batches))]):
        if not b['plugin'] or not b['plugin'].get('parsed'):
            continue
        # the first batch is the shape-coverage case (several promoted oneofs, injected fields, every option map): more process
        # runs there - an order taken from Go's map iteration shows up in a fraction of the runs only
        runs = (24 if bi == 0 else 5) if tier == 'quick' else (60 if bi == 0 else 25)
        base = run_variant(info, 'c14base', b['case'], repeat=runs)
        shas = set(base['plugin'].get('runShas', []))
        out['evaluations'] += runs
        out['distinct'].append(b['dir'])
        if len(shas) != 1:
            out['violations'].append({'kind': 'responses differ between process runs on the same request', 'batch': b['dir'], 'shas': sorted(shas)})
        for k in range(2 if tier == 'quick' else 6):
            v = run_variant(info, f'c14shuf{k}', shuffled(b['case'], rnd), repeat=1)
            out['evaluations'] += 1
            if v['plugin'].get('contentSha') != base['plugin'].get('contentSha'):
                out['violations'].append({'kind': 'generated file depends on the order of configuration entries', 'batch': b['dir'], 'variant': v['dir']})
        if len(out['samples']) < 2:
            out['samples'].append({'batch': b['dir'], 'runs': runs, 'sha': sorted(shas)})
    out['coverage'] = {'process_runs_hashed': out['evaluations']}
    return out


# ----------------------------------------------------------------------------------------------------------
# C16: channels

DUAL = [('types', 'types', 'list'), ('excludeFields', 'exclude_fields', 'list'), ('computedFields', 'computed_fields', 'list'),
        ('requiredFields', 'required_fields', 'list'), ('sensitiveFields', 'sensitive', 'list'),
        ('defaultPackageName', 'default_package_name', 'str'), ('targetPackageName', 'target_package_name', 'str'),
        ('durationCustomType', 'custom_duration', 'str'), ('sort', 'sort', 'bool')]


def move_to_cli(case, which, rnd, keep_yaml_decoy=False):
    """deliver the options in `which` through the command line instead of the YAML file"""
    c = copy.deepcopy(case)
    y = c['yaml']
    for jk, ck, kind in DUAL:
        if jk not in which:
            continue
        v = y.get(jk)
        if kind == 'list':
            if not v:
                continue
            c['cli'].append({'k': ck, 'v': '+'.join(v)})
            y[jk] = ['Decoy' + str(rnd.randint(0, 9))] if keep_yaml_decoy else None
        elif kind == 'str':
            if not v:
                continue
            c['cli'].append({'k': ck, 'v': v})
            y[jk] = 'decoy' if keep_yaml_decoy else ''
        else:
            c['cli'].append({'k': ck, 'v': 'true' if v else 'false'})
            y[jk] = (not v) if keep_yaml_decoy else False
    return c


def eval_c16(batches, tier, seed, known, info):
    out = {'evaluations': 0, 'violations': [], 'tie_breaks': [], 'distinct': [], 'samples': [], 'coverage': {}, 'known': {}}
    rnd = random.Random(seed + 16)
    errs = 0
    for b in batches[: (4 if tier == 'quick' else len(batches))]:
        if not b['plugin'] or not b['plugin'].get('parsed') or b['case'].get('yamlState') != 'ok':
            continue
        base = run_variant(info, 'c16base', b['case'])
        want = base['plugin'].get('contentSha')
        allk = [d[0] for d in DUAL]
        variants = [('all-cli', set(allk), False), ('all-cli-yaml-decoy', set(allk), True)]
        for i in range(3 if tier == 'quick' else 10):
            variants.append((f'split{i}', set(k for k in allk if rnd.random() < 0.5), rnd.random() < 0.5))
        for name, which, decoy in variants:
            if decoy:
                which = {k for k in which if not (k == 'sort' and False)}
            c = move_to_cli(b['case'], which, rnd, decoy)
            v = run_variant(info, 'c16' + name, c)
            out['evaluations'] += 1
            out['distinct'].append(v['dir'])
            m = (v['model'] or [{}])[0]
            if v['plugin'].get('contentSha') != want:
                out['violations'].append({'kind': 'same logical configuration, different channel, different file', 'batch': b['dir'], 'variant': v['dir'],
                                          'moved': sorted(which), 'decoy_in_yaml': decoy, 'exit': v['plugin'].get('exit'), 'stderr': v['plugin'].get('stderr', '')[-300:]})
            if 'funcs' not in m:
                out['tie_breaks'].append({'variant': v['dir'], 'diff': 'model rejects the configuration: ' + json.dumps(m)[:200]})
        # a blank command-line value is not a value (theorem C16_yaml_stays): the YAML value of that option stays in force
        for i in range(1 if tier == 'quick' else 3):
            c = copy.deepcopy(b['case'])
            blanked = []
            for jk, ck, kind in DUAL:
                if c['yaml'].get(jk) and not any(kv['k'] == ck for kv in c['cli']) and (i == 0 or rnd.random() < 0.5):
                    c['cli'].append({'k': ck, 'v': rnd.choice(['', ' ', '  '])})
                    blanked.append(ck)
            if not blanked:
                continue
            v = run_variant(info, f'c16blankcli{i}', c)
            out['evaluations'] += 1
            out['distinct'].append(v['dir'])
            m, mb = (v['model'] or [{}])[0], (base['model'] or [{}])[0]
            if m != mb:
                out['tie_breaks'].append({'variant': v['dir'], 'diff': 'model: blank command-line values change the result: ' + json.dumps(m)[:200]})
            elif v['plugin'].get('contentSha') != want:
                out['violations'].append({'kind': 'a blank command-line value replaced the YAML value of the option', 'batch': b['dir'], 'variant': v['dir'],
                                          'blank_parameters': blanked, 'exit': v['plugin'].get('exit'), 'stderr': v['plugin'].get('stderr', '')[-300:]})
        # the `config` parameter itself: the same file under a path containing '=' / spaces, or relative to the working directory
        for st in (('ok:eqpath', 'ok:spacepath', 'ok:relpath') if (tier != 'quick' or len(out['samples']) < 2) else ()):
            c = copy.deepcopy(b['case'])
            c['yamlState'] = st
            v = run_variant(info, 'c16' + st.replace(':', ''), c)
            out['evaluations'] += 1
            out['distinct'].append(v['dir'])
            if (v['plugin'].get('contentSha'), v['plugin'].get('exit')) != (want, base['plugin'].get('exit')):
                out['violations'].append({'kind': 'the same configuration file under another path gives another result', 'batch': b['dir'], 'variant': v['dir'],
                                          'config_path': st, 'exit': v['plugin'].get('exit'), 'stderr': v['plugin'].get('stderr', '')[-300:]})
        # a configuration that uses the dual options only, delivered (a) by the YAML file, (b) entirely by the command line next to a
        # `config` file that holds no YAML document at all (empty / comments only / blank lines): same result
        dual_only = copy.deepcopy(b['case'])
        dual_only['yaml'] = {k: v for k, v in dual_only['yaml'].items() if k in allk}
        for f in dual_only['request'].get('deps') or []:
            f.pop('goPackage', None)      # import_path_overrides is not a dual option: no separate Go packages in this comparison
        dbase = run_variant(info, 'c16dualbase', dual_only)
        for st in ('blank:empty', 'blank:comments', 'blank:lines'):
            c = move_to_cli(dual_only, set(allk), rnd, False)
            c['yamlState'] = st
            v = run_variant(info, 'c16' + st.replace(':', ''), c)
            out['evaluations'] += 1
            if (v['plugin'].get('contentSha'), v['plugin'].get('exit')) != (dbase['plugin'].get('contentSha'), dbase['plugin'].get('exit')):
                out['violations'].append({'kind': 'same logical configuration, different channel, different file', 'batch': b['dir'], 'variant': v['dir'],
                                          'yaml_file': st, 'exit': v['plugin'].get('exit'), 'base_exit': dbase['plugin'].get('exit'),
                                          'stderr': v['plugin'].get('stderr', '')[-300:]})
            mb, mv = (dbase['model'] or [{}])[0], (v['model'] or [{}])[0]
            if ('funcs' in mb) != ('funcs' in mv) or mb.get('funcs') != mv.get('funcs'):
                out['tie_breaks'].append({'variant': v['dir'], 'diff': 'model: blank configuration file differs from the YAML delivery: ' + json.dumps(mv)[:200]})
        # error half
        for name, mut in (('notypes', lambda c: (c['yaml'].__setitem__('types', None), c.__setitem__('cli', [kv for kv in c['cli'] if kv['k'] != 'types']))),
                          ('missing', lambda c: c.__setitem__('yamlState', 'missing')),
                          ('garbage', lambda c: c.__setitem__('yamlState', 'garbage')),
                          # well-formed YAML that is not a configuration (a value of the wrong shape)
                          ('listmap', lambda c: c.__setitem__('yamlState', 'garbage:listmap')),
                          ('elemmap', lambda c: c.__setitem__('yamlState', 'garbage:elemmap')),
                          ('nested', lambda c: c.__setitem__('yamlState', 'garbage:nested')),
                          ('sortword', lambda c: c.__setitem__('yamlState', 'garbage:sort')),
                          ('kvlist', lambda c: c.__setitem__('yamlState', 'garbage:kvlist')),
                          ('scalardoc', lambda c: c.__setitem__('yamlState', 'garbage:scalar')),
                          ('blanktypes', lambda c: (c['yaml'].__setitem__('types', None), c['cli'].append({'k': 'types', 'v': '  '})))):
            c = copy.deepcopy(b['case'])
            mut(c)
            v = run_variant(info, 'c16' + name, c)
            out['evaluations'] += 1
            errs += 1
            m = (v['model'] or [{}])[0]
            if v['plugin'].get('exit') == 0 and v['plugin'].get('nfiles'):
                out['violations'].append({'kind': f'plugin generates with defaults instead of failing ({name})', 'variant': v['dir']})
            if 'fail' not in m:
                out['tie_breaks'].append({'variant': v['dir'], 'diff': f'model does not fail for {name}: ' + json.dumps(m)[:200]})
        if len(out['samples']) < 2:
            out['samples'].append({'batch': b['dir'], 'variants': [n for n, _, _ in variants]})
    out['coverage'] = {'error_cases': errs, 'traces_validated_against_impl': out['evaluations'] - len(out['violations'])}
    return out


EVALUATORS = {
    'C01': eval_c01,
    'C02': eval_schema('C02'),
    'C10': eval_schema('C10'),
    'C17': eval_schema('C17'),
    'C14': eval_c14,
    'C16': eval_c16,
}


# ----------------------------------------------------------------------------------------------------------
# helpers on abstract cases

def find_msg(case, name):
    for m in case['request']['file']['messages']:
        if m['name'] == name:
            return m
    for d in case['request'].get('deps') or []:
        for m in d['messages']:
            if m['name'] == name:
                return m
    return None


OCC_CLASS = {}            # path -> position class of the occurrence (see occurrences)
EMBED_BELOW_ROOT = set()   # paths of fields of an embedded message whose embedding message occurs below a root


def occurrences(case, roots, max_depth=6):
    """(path, typeName, field, message) for every field occurrence below the roots (README path rule);
    nothing below an excluded field"""
    out = []
    excluded = set(((case.get('yaml') or {}).get('excludeFields')) or [])

    def walk(m, path, depth, via_embed=False, parent='root'):
        if depth > max_depth:
            return
        for f in m['fields']:
            if f.get('embed'):
                sub = find_msg(case, f['typeName'])
                if sub and (m['name'] + '.' + f['name']) not in excluded and path not in excluded:
                    walk(sub, path, depth + 1, True, parent)
                continue
            out.append((path + '.' + f['name'], m['name'] + '.' + f['name'], f, m))
            # position class of the occurrence: nesting depth (capped) x what it hangs under x embedded or not
            OCC_CLASS[path + '.' + f['name']] = f"{min(path.count('.'), 2)}-{parent}{'-embed' if via_embed else ''}"
            if via_embed and '.' in path:
                EMBED_BELOW_ROOT.add(path + '.' + f['name'])
            if (path + '.' + f['name']) in excluded or (m['name'] + '.' + f['name']) in excluded:
                continue
            if f['type'] == 'message':
                sub = find_msg(case, f['typeName'])
                if sub:
                    walk(sub, path + '.' + f['name'], depth + 1, False, f['card'] + ('-oneof' if f.get('oneof', -1) >= 0 else ''))
    for r in roots:
        m = find_msg(case, r)
        if m:
            walk(m, r, 0)
    return out


def roots_of(case):
    y = case.get('yaml') or {}
    types = list(y.get('types') or [])
    for kv in case.get('cli') or []:
        if kv['k'] == 'types' and kv['v'].strip():
            types = kv['v'].strip().split('+')
    names = [m['name'] for m in case['request']['file']['messages']]
    return [t for t in types if t in names]


def funcs_of_type(t):
    return ['GenSchema' + t, f'Copy{t}FromTerraform', f'Copy{t}ToTerraform']


def model_emit(v):
    return (v.get('model') or [{}])[0]


# ----------------------------------------------------------------------------------------------------------
# C12

def eval_c12(batches, tier, seed, known, info):
    out = {'evaluations': 0, 'violations': [], 'tie_breaks': [], 'distinct': [], 'samples': [], 'coverage': {}, 'known': {}}
    rnd = random.Random(seed + 12)
    for b in batches[: (4 if tier == 'quick' else len(batches))]:
        if not b['static'] or b['static'].get('parseError') or b['case'].get('yamlState') != 'ok':
            continue
        base = run_variant(info, 'c12base', b['case'])
        if not base['static']:
            continue
        # the selection is what the configuration says (not what the full run happened to emit); types the model reports as
        # failing to build are legitimately skipped (C18)
        mfailed = set(model_emit(base).get('failed') or [])
        roots = [t for t in roots_of(b['case']) if t not in mfailed]
        out['evaluations'] += 1
        want0, got0 = set(f for t in roots for f in funcs_of_type(t)), set(base['static']['funcs'])
        if want0 != got0:
            out['violations'].append({'kind': 'emitted functions are not exactly those of the selected types', 'variant': base['dir'],
                                      'missing': sorted(want0 - got0), 'extra': sorted(got0 - want0)})
        variants = []
        if len(roots) >= 2:
            # directed: the same selection with the messages declared in the opposite order (a selected type that is also a field
            # type of another selected type is declared before / after its user)
            c = copy.deepcopy(b['case'])
            c['request']['file']['messages'].reverse()
            variants.append(('reversed-decl', c, roots))
        for t in roots[:3]:
            c = copy.deepcopy(b['case'])
            c['yaml']['types'] = [t]
            variants.append((f'only-{t}', c, [t]))
        if len(roots) >= 2:
            sub = rnd.sample(roots, max(1, len(roots) // 2))
            c = copy.deepcopy(b['case'])
            c['yaml']['types'] = sub
            variants.append(('subset', c, sub))
        # unrelated extra message and unrelated dependency file
        c = copy.deepcopy(b['case'])
        c['request']['file']['messages'].insert(0, {'name': 'UnrelatedExtraMessage', 'comment': None, 'oneofs': [], 'fields': [
            {'name': 'Zzfield', 'number': 1, 'type': 'string', 'typeName': '', 'card': 'single', 'mapKey': '', 'nullable': '', 'embed': False,
             'jsonTag': None, 'castType': '', 'customType': '', 'stdTime': False, 'stdDuration': False, 'oneof': -1, 'comment': None}]})
        c['request']['deps'] = (c['request'].get('deps') or []) + [{'name': 'other/dep.proto', 'package': 'otherdep', 'enums': [], 'messages': [
            {'name': 'DepOnlyMessage', 'comment': None, 'oneofs': [], 'fields': [
                {'name': 'Depfield', 'number': 1, 'type': 'int64', 'typeName': '', 'card': 'single', 'mapKey': '', 'nullable': '', 'embed': False,
                 'jsonTag': None, 'castType': '', 'customType': '', 'stdTime': False, 'stdDuration': False, 'oneof': -1, 'comment': None}]}]}]
        variants.append(('extended-request', c, roots))
        for name, c, sel in variants:
            v = run_variant(info, 'c12' + name, c)
            out['evaluations'] += 1
            out['distinct'].append(v['dir'])
            st = v['static']
            if not st or st.get('parseError'):
                out['violations'].append({'kind': 'no parsable output for a sub-selection', 'variant': v['dir'], 'stderr': (v['plugin'] or {}).get('stderr', '')[-300:]})
                continue
            want = set(f for t in sel for f in funcs_of_type(t))
            got = set(st['funcs'])
            if got != want:
                out['violations'].append({'kind': 'emitted functions are not exactly those of the selected types', 'variant': v['dir'],
                                          'missing': sorted(want - got), 'extra': sorted(got - want)})
            for fn in sorted(want & got):
                if name == 'reversed-decl' and not (b['case']['yaml'].get('sort') and not any(kv['k'] == 'sort' for kv in b['case']['cli'])):
                    break       # the text may follow the declaration order unless sort is on (C15)
                if st['funcSha'].get(fn) != base['static']['funcSha'].get(fn):
                    out['violations'].append({'kind': 'function text depends on the rest of the selection / request', 'variant': v['dir'], 'func': fn})
                    break
            m = model_emit(v)
            if sorted(m.get('funcs') or []) != sorted(st['funcs']):
                out['tie_breaks'].append({'variant': v['dir'], 'diff': f"model funcs {m.get('funcs')} vs {st['funcs']}"})
        if len(out['samples']) < 2:
            out['samples'].append({'batch': b['dir'], 'roots': roots, 'variants': [n for n, _, _ in variants]})
    out['coverage'] = {'traces_validated_against_impl': out['evaluations'] - len(out['violations'])}
    return out


# ----------------------------------------------------------------------------------------------------------
# C18

def bad_field(name):
    return {'name': name, 'number': 900, 'type': 'string', 'typeName': '', 'card': 'map', 'mapKey': 'int32', 'nullable': '', 'embed': False,
            'jsonTag': None, 'castType': '', 'customType': '', 'stdTime': False, 'stdDuration': False, 'oneof': -1, 'comment': None}


def reach(case, root, excluded):
    """message names reachable from root through non-excluded message-typed fields (by Message.Field key)"""
    seen, todo = set(), [root]
    while todo:
        n = todo.pop()
        if n in seen:
            continue
        seen.add(n)
        m = find_msg(case, n)
        for f in (m or {}).get('fields', []):
            if f['type'] == 'message' and (n + '.' + f['name']) not in excluded:
                todo.append(f['typeName'])
    return seen


def eval_c18(batches, tier, seed, known, info):
    out = {'evaluations': 0, 'violations': [], 'tie_breaks': [], 'distinct': [], 'samples': [], 'coverage': {}, 'known': {}}
    rnd = random.Random(seed + 18)
    for b in batches[: (4 if tier == 'quick' else len(batches))]:
        if not b['static'] or b['static'].get('parseError') or b['case'].get('yamlState') != 'ok':
            continue
        base = run_variant(info, 'c18base', b['case'])
        if not base['static']:
            continue
        roots = [f[len('GenSchema'):] for f in base['static']['funcs'] if f.startswith('GenSchema')]
        y = b['case']['yaml']
        excl_paths = set(y.get('excludeFields') or [])
        msgs = [m['name'] for m in b['case']['request']['file']['messages']]
        targets = []
        if roots:
            targets.append(rnd.choice(roots))
        # a message nested somewhere below a root
        deep = [m for m in msgs if m not in roots and any(m in reach(b['case'], r, excl_paths) for r in roots)]
        if deep:
            targets.append(rnd.choice(deep))
        # a message without fields is outside the quantifier: excluding its only field would leave it empty again,
        # which the property's fragment rules out (DESIGN §3: exclusions never leave a message without a field)
        targets = [t for t in targets if (find_msg(b['case'], t) or {}).get('fields')]
        for tgt in targets:
            c = copy.deepcopy(b['case'])
            find_msg(c, tgt)['fields'].append(bad_field('Zzbadmapfield'))
            affected = [r for r in roots if tgt in reach(b['case'], r, set(k for k in excl_paths if k.count('.') == 1))]
            v = run_variant(info, 'c18bad-' + tgt, c)
            out['evaluations'] += 1
            out['distinct'].append(v['dir'])
            st = v['static'] or {'funcs': [], 'funcSha': {}}
            m = model_emit(v)
            if (v['plugin'] or {}).get('exit') != 0:
                out['violations'].append({'kind': 'plugin fails as a whole instead of skipping the type', 'variant': v['dir'], 'stderr': v['plugin'].get('stderr', '')[-300:]})
                continue
            model_failed = m.get('failed')
            if model_failed is None:
                out['tie_breaks'].append({'variant': v['dir'], 'diff': 'model emit: ' + json.dumps(m)[:200]})
                continue
            # path-keyed exclusions may cut reachability below what the coarse oracle sees: trust the oracle only when it agrees with the model
            for r in roots:
                present = [f for f in funcs_of_type(r) if f in st['funcs']]
                if r in model_failed:
                    if present:
                        out['violations'].append({'kind': 'a type with an unmappable field is generated partially or silently', 'variant': v['dir'], 'type': r, 'present': present})
                    if r not in (v['plugin'].get('stderr') or ''):
                        out['violations'].append({'kind': 'no diagnostic names the skipped type', 'variant': v['dir'], 'type': r})
                else:
                    if len(present) != 3:
                        out['violations'].append({'kind': 'an unaffected type lost functions', 'variant': v['dir'], 'type': r, 'present': present})
                    elif any(st['funcSha'].get(f) != base['static']['funcSha'].get(f) for f in present):
                        out['violations'].append({'kind': 'an unaffected type changed', 'variant': v['dir'], 'type': r})
            if sorted(model_failed) != sorted(affected) and not any('.' in k and k.count('.') > 1 for k in excl_paths):
                out['tie_breaks'].append({'variant': v['dir'], 'diff': f'model says failed={model_failed}, reachability oracle says {affected}'})
            if not set(model_failed) & set(affected) and affected:
                out['tie_breaks'].append({'variant': v['dir'], 'diff': f'model fails {model_failed}, oracle expects {affected}'})
            # excluding the offending field restores full generation
            c2 = copy.deepcopy(c)
            c2['yaml']['excludeFields'] = (c2['yaml'].get('excludeFields') or []) + [tgt + '.Zzbadmapfield']
            v2 = run_variant(info, 'c18excl-' + tgt, c2)
            out['evaluations'] += 1
            if (v2['static'] or {}).get('funcSha') != base['static']['funcSha']:
                out['violations'].append({'kind': 'excluding the unmappable field does not restore the original output', 'variant': v2['dir']})
        # a nested message shared by two selected types holds the unmappable field; it is excluded BY FULL PATH below one of them
        # only: that type is generated whole (identical to the base), the other one is skipped - in both role assignments
        shared_done = 0
        for mname in deep:
            if shared_done >= (1 if tier == 'quick' else 3):
                break
            if not (find_msg(b['case'], mname) or {}).get('fields'):
                continue
            per_root = {}
            for r in roots:
                occ_r = occurrences(b['case'], [r])
                if any(f.get('embed') for (p_, tn_, f, m_) in occ_r if f.get('typeName') == mname and f.get('type') == 'message'):
                    per_root = {}
                    break
                ps = sorted({p_ for (p_, tn_, f, m_) in occ_r if f.get('typeName') == mname and f.get('type') == 'message'})
                if ps:
                    per_root[r] = ps
            if len(per_root) < 2:
                continue
            shared_done += 1
            ra, rb = sorted(per_root)[:2]
            for fail_root, keep_root in ((ra, rb), (rb, ra)):
                c = copy.deepcopy(b['case'])
                find_msg(c, mname)['fields'].append(bad_field('Zzbadmapfield'))
                c['yaml']['excludeFields'] = (c['yaml'].get('excludeFields') or []) + [p_ + '.Zzbadmapfield' for p_ in per_root[keep_root]]
                v = run_variant(info, f'c18shared-{mname}-{keep_root}', c)
                out['evaluations'] += 1
                st = v['static'] or {'funcs': [], 'funcSha': {}}
                m = model_emit(v)
                if (v['plugin'] or {}).get('exit') != 0:
                    out['violations'].append({'kind': 'plugin fails as a whole instead of skipping the type', 'variant': v['dir']})
                    continue
                present = [f for f in funcs_of_type(keep_root) if f in st['funcs']]
                mf = m.get('failed')
                if mf is not None and keep_root in mf:
                    continue      # the model itself says the kept root fails (it reaches the field on another way): not this scenario
                if len(present) != 3:
                    out['violations'].append({'kind': 'excluding the unmappable field by full path below one type does not restore that type while another selected type fails on it',
                                              'variant': v['dir'], 'type': keep_root, 'failing_type': fail_root, 'shared_message': mname, 'present': present,
                                              'stderr': (v['plugin'].get('stderr') or '')[-300:]})
                elif any(st['funcSha'].get(f) != base['static']['funcSha'].get(f) for f in present):
                    out['violations'].append({'kind': 'a type restored by exclusion differs from the original', 'variant': v['dir'], 'type': keep_root})
                if mf is not None and fail_root in mf and any(f in st['funcs'] for f in funcs_of_type(fail_root)):
                    out['violations'].append({'kind': 'a type with an unmappable field is generated partially or silently', 'variant': v['dir'], 'type': fail_root})
        # directed: a fine selected type whose name EXTENDS the name of the failing type (RoleV2 next to Role), declared before it
        pref = [r for r in roots if (find_msg(b['case'], r) or {}).get('fields') and not find_msg(b['case'], r + 'V2')]
        if pref:
            tgt = pref[0]
            c = copy.deepcopy(b['case'])
            msgs = c['request']['file']['messages']
            i = [m_['name'] for m_ in msgs].index(tgt)
            clone = copy.deepcopy(msgs[i])
            clone['name'] = tgt + 'V2'
            msgs.insert(i, clone)
            find_msg(c, tgt)['fields'].append(bad_field('Zzbadmapfield'))
            if any(kv['k'] == 'types' and kv['v'].strip() for kv in c['cli']):
                for kv in c['cli']:
                    if kv['k'] == 'types':
                        kv['v'] = kv['v'].strip() + '+' + tgt + 'V2'
            else:
                c['yaml']['types'] = list(c['yaml'].get('types') or []) + [tgt + 'V2']
            v = run_variant(info, 'c18prefix-' + tgt, c)
            out['evaluations'] += 1
            st = v['static'] or {'funcs': [], 'funcSha': {}}
            m = model_emit(v)
            if (v['plugin'] or {}).get('exit') != 0:
                out['violations'].append({'kind': 'plugin fails as a whole instead of skipping the type', 'variant': v['dir']})
            elif m.get('failed') is not None and (tgt + 'V2') not in m['failed']:
                present = [f for f in funcs_of_type(tgt + 'V2') if f in st['funcs']]
                if len(present) != 3:
                    out['violations'].append({'kind': 'a selected type whose name extends the name of a failing type lost functions', 'variant': v['dir'],
                                              'type': tgt + 'V2', 'failing_type': tgt, 'present': present, 'stderr': (v['plugin'].get('stderr') or '')[-300:]})
                if sorted(m.get('funcs') or []) != sorted(st['funcs']):
                    out['tie_breaks'].append({'variant': v['dir'], 'diff': f"model funcs {m.get('funcs')} vs {st['funcs']}"})
        if len(out['samples']) < 2:
            out['samples'].append({'batch': b['dir'], 'targets': targets, 'roots': roots})
    out['coverage'] = {'traces_validated_against_impl': out['evaluations'] - len(out['violations'])}
    return out


# ----------------------------------------------------------------------------------------------------------
# C15

def permuted(case, rnd, reverse=False):
    c = copy.deepcopy(case)
    f = c['request']['file']
    if reverse:
        # directed: every declaration list in the opposite order (what was declared before an embedded field is now after it,
        # a message used by another one is now declared after / before its user)
        f['messages'].reverse()
    else:
        rnd.shuffle(f['messages'])
    for m in f['messages']:
        if reverse:
            m['fields'].reverse()
        else:
            rnd.shuffle(m['fields'])
        # the order of the oneof declarations follows the order of the oneof blocks in the proto source
        n = len(m.get('oneofs') or [])
        if n > 1:
            perm = list(range(n))
            rnd.shuffle(perm)            # new position i holds old oneof perm[i]
            m['oneofs'] = [m['oneofs'][j] for j in perm]
            inv = {old: new for new, old in enumerate(perm)}
            for fl in m['fields']:
                if fl.get('oneof', -1) >= 0:
                    fl['oneof'] = inv[fl['oneof']]
    return c


def canon_nf(x):
    """Go values in the normal form of C04: nil and empty slices / maps / byte strings are identified (dropped like zero values)"""
    if isinstance(x, dict):
        if set(x) == {'L'} and not x['L']:
            return None
        if set(x) == {'M'} and not x['M']:
            return None
        if set(x) == {'y'} and not x['y']:
            return None
        out = {}
        for k, v in x.items():
            c = canon_nf(v)
            if c is None and k not in ('P', 'panic', 'v'):
                continue
            out[k] = c
        return out
    if isinstance(x, list):
        return [canon_nf(v) for v in x]
    return x


def canon_order(r):
    """diagnostics and hook calls come in block order: for descriptors that differ in declaration order compare them as multisets;
    Go values are compared in the normal form of C04"""
    if isinstance(r, dict):
        r = canon_nf(r)
        for k in ('hooks', 'diags'):
            if isinstance(r.get(k), list):
                r[k] = sorted(r[k], key=lambda h: json.dumps(h, sort_keys=True))
        if isinstance(r.get('steps'), list):
            r['steps'] = [canon_order(x) for x in r['steps']]
    return r


def eval_c15(batches, tier, seed, known, info):
    out = {'evaluations': 0, 'violations': [], 'tie_breaks': [], 'distinct': [], 'samples': [], 'coverage': {}, 'known': {}}
    rnd = random.Random(seed + 15)
    for b in batches[: (4 if tier == 'quick' else len(batches))]:
        if not b['static'] or b['static'].get('parseError') or b['case'].get('yamlState') != 'ok':
            continue
        for sort in (True, False):
            c0 = copy.deepcopy(b['case'])
            c0['yaml']['sort'] = sort
            c0['cli'] = [kv for kv in c0['cli'] if kv['k'] != 'sort']
            base = run_variant(info, f'c15base{int(sort)}', c0)
            if not base['static']:
                continue
            for k in range(2 if tier == 'quick' else 5):
                v = run_variant(info, f'c15perm{int(sort)}_{k}', permuted(c0, rnd, reverse=(k == 0)))
                out['evaluations'] += 1
                out['distinct'].append(v['dir'])
                if not v['static']:
                    out['violations'].append({'kind': 'no output for a permuted descriptor', 'variant': v['dir']})
                    continue
                if sort:
                    if v['plugin'].get('contentSha') != base['plugin'].get('contentSha'):
                        out['violations'].append({'kind': 'with sort enabled the file depends on the declaration order', 'variant': v['dir'], 'base': base['dir']})
                else:
                    d = first_diff(base['static']['schemas'], v['static']['schemas'])
                    if d:
                        out['violations'].append({'kind': 'with sort disabled the schema depends on the declaration order', 'variant': v['dir'], 'diff': d})
                    if sorted(base['static']['funcs']) != sorted(v['static']['funcs']):
                        out['violations'].append({'kind': 'function set depends on the declaration order', 'variant': v['dir']})
                m = model_emit(v)
                if sorted(m.get('funcs') or []) != sorted(v['static']['funcs']):
                    out['tie_breaks'].append({'variant': v['dir'], 'diff': 'model funcs differ'})
                elif sort and m.get('funcs') != v['static']['funcs']:
                    out['tie_breaks'].append({'variant': v['dir'], 'diff': 'model function order differs'})
        if len(out['samples']) < 2:
            out['samples'].append({'batch': b['dir']})
    # behaviour: the converters generated for a permuted descriptor (sort off) answer the SAME operations in the same way
    # (full pipeline twin of the first executed batches: plugin + gogo + compiler + driver on the base batch's ops.jsonl)
    compared = 0
    for b in [x for x in batches if x['status'].get('stage') == 'done' and x['case'].get('yamlState') == 'ok'][: (1 if tier == 'quick' else 4)]:
        c = copy.deepcopy(b['case'])
        c['yaml']['sort'] = False
        c['cli'] = [kv for kv in c['cli'] if kv['k'] != 'sort']
        if b['case']['yaml'].get('sort') or any(kv['k'] == 'sort' for kv in b['case']['cli']):
            continue        # the base batch must itself be a sort-off batch (its ops and answers are the reference)
        c = permuted(c, rnd)
        twin_dir = b['dir'] + '_c15twin'
        if not os.path.exists(f'{twin_dir}/done'):
            json.dump({'case': c, 'meta': b['meta']}, open(f"{b['dir']}/c15twin_case.json", 'w'))
            pc.sh([pc.BIN, 'batch', '-seed', str(b['status'].get('seed', seed)), '-index', str(b['status'].get('index', 0)), '-work', twin_dir,
                   '-plugin', pc.plugin_path(info['repoHash']), '-scale', '1', '-case', f"{b['dir']}/c15twin_case.json",
                   '-ops', f"{b['dir']}/ops.jsonl"], cwd=pc.HARNESS, timeout=1800)
            import shutil
            for sub in ('spkg', 'tgt'):
                shutil.rmtree(f'{twin_dir}/{sub}', ignore_errors=True)
            open(f'{twin_dir}/done', 'w').write('1')
        out['evaluations'] += 1
        try:
            timpl = [json.loads(l) for l in open(f'{twin_dir}/impl.jsonl') if l.strip()]
        except OSError:
            st = open(f'{twin_dir}/status.json').read()[:400] if os.path.exists(f'{twin_dir}/status.json') else 'no status'
            out['violations'].append({'kind': 'the permuted descriptor (sort off) does not generate / compile / run', 'batch': b['dir'], 'twin': twin_dir, 'status': st})
            continue
        for op, a, t in zip(b['ops'], b['impl'], timpl):
            if op.get('op') == 'schema':
                continue            # attribute order of the schema walk is not behaviour
            compared += 1
            if json.dumps(canon_order(a), sort_keys=True) != json.dumps(canon_order(t), sort_keys=True):
                out['violations'].append({'kind': 'with sort disabled the behaviour of the converters depends on the declaration order', 'batch': b['dir'],
                                          'twin': twin_dir, 'id': op.get('id'), 'tag': op.get('tag'), 'diff': first_diff(a, t)})
                break
    out['coverage'] = {'traces_validated_against_impl': out['evaluations'] - len(out['violations']), 'operations_compared_with_permuted_twin': compared}
    return out


# ----------------------------------------------------------------------------------------------------------
# C11

def flat_attrs(tree, prefix=''):
    out = {}
    for n, a in (tree or {}).items():
        p = prefix + '/' + n
        out[p] = {k: v for k, v in a.items() if k != 'attrs'}
        out.update(flat_attrs(a.get('attrs'), p))
    return out


def eval_c11(batches, tier, seed, known, info):
    out = {'evaluations': 0, 'violations': [], 'tie_breaks': [], 'distinct': [], 'samples': [], 'coverage': {}, 'known': {}}
    rnd = random.Random(seed + 11)
    nkey = {'path': 0, 'typeName': 0}
    for bi, b in enumerate(batches[: (4 if tier == 'quick' else len(batches))]):
        if not b['static'] or b['static'].get('parseError') or b['case'].get('yamlState') != 'ok':
            continue
        base = run_variant(info, 'c11base', b['case'])
        if not base['static']:
            continue
        roots = roots_of(b['case'])
        occ = [o for o in occurrences(b['case'], roots)]
        if not occ:
            continue
        y = b['case']['yaml']
        excluded = set(y.get('excludeFields') or [])
        for k in range(8 if tier == 'quick' else 16):
            o = rnd.choice(occ)
            form = rnd.choice(['path', 'typeName'])
            deep = [x for x in occ if x[0] in EMBED_BELOW_ROOT]
            depnames = {m['name'] for f in b['case']['request'].get('deps') or [] for m in f['messages']}
            dep_occ = [x for x in occ if x[3]['name'] in depnames]
            if dep_occ and k % 4 == 3:
                # directed: a field of a message declared in a dependency file (another Go package), addressed as Message.Field
                o, form = rnd.choice(dep_occ), 'typeName'
                nkey['dep_message_typeName'] = nkey.get('dep_message_typeName', 0) + 1
            elif deep and k % 4 == 1:
                # directed: a field of an embedded message in a nested occurrence, addressed by its full path
                o, form = rnd.choice(deep), 'path'
                nkey['embedded_below_root'] = nkey.get('embedded_below_root', 0) + 1
            elif k % 2 == 0:
                # directed: walk through the position classes (depth x single / repeated / map / oneof parent x embedded),
                # one full-path key per class in turn
                classes = sorted({OCC_CLASS.get(x[0], '?') for x in occ})
                cls = classes[(k // 2 + bi) % len(classes)]
                o, form = rnd.choice([x for x in occ if OCC_CLASS.get(x[0], '?') == cls]), 'path'
                nkey['class:' + cls] = nkey.get('class:' + cls, 0) + 1
            key = o[0] if form == 'path' else o[1]
            if o[0] in excluded or o[1] in excluded:
                continue
            opt = rnd.choice(['sensitiveFields', 'computedFields', 'requiredFields'])
            flag = {'sensitiveFields': 'sens', 'computedFields': 'comp', 'requiredFields': 'req'}[opt]
            if key in (y.get(opt) or []):
                continue
            c = copy.deepcopy(b['case'])
            c['yaml'][opt] = (c['yaml'].get(opt) or []) + [key]
            v = run_variant(info, f'c11{opt}', c)
            out['evaluations'] += 1
            out['distinct'].append(v['dir'])
            nkey[form] += 1
            if not v['static']:
                out['violations'].append({'kind': 'no output with an added option', 'variant': v['dir']})
                continue
            fa, fb = {}, {}
            for t, tree in base['static']['schemas'].items():
                fa.update(flat_attrs(tree, t))
            for t, tree in v['static']['schemas'].items():
                fb.update(flat_attrs(tree, t))
            if set(fa) != set(fb):
                out['violations'].append({'kind': 'a flag option changed the set of attributes', 'variant': v['dir']})
                continue
            changed = [p for p in fa if fa[p] != fb[p]]
            # every change is the addressed flag being switched on (plus what the documentation couples to it)
            for p in changed:
                da = {kk for kk in fa[p] if fa[p][kk] != fb[p][kk]}
                allowed = {flag} | ({'opt'} if flag == 'req' else set()) | ({'pm'} if flag == 'comp' else set())
                if not da <= allowed or fb[p].get(flag) is not True:
                    out['violations'].append({'kind': 'an option changed something else than the addressed flag', 'variant': v['dir'], 'attr': p, 'changed': sorted(da)})
            # number of occurrences the key addresses (reachable, not below an excluded field)
            n_addr = sum(1 for (p, tn, f, m) in occ if (p == key or tn == key))
            already = sum(1 for (p, tn, f, m) in occ if (p == key or tn == key) and (p in (y.get(opt) or []) or tn in (y.get(opt) or [])))
            if len(changed) > n_addr:
                out['violations'].append({'kind': 'an option keyed for one field changed other attributes', 'variant': v['dir'], 'key': key,
                                          'changed': changed[:6], 'addressed_occurrences': n_addr})
            if len(changed) == 0 and n_addr - already > 0 and not hidden_by_exclusion(o, excluded):
                if True:
                    out['violations'].append({'kind': 'an option keyed ' + form + ' had no effect', 'variant': v['dir'], 'key': key})
        # exclusion: schema of the variant = schema of the base minus the addressed attributes
        for k in range(2 if tier == 'quick' else 6):
            o = rnd.choice(occ)
            if o[2].get('oneof', -1) >= 0 or len(o[3]['fields']) < 2 or o[1] in excluded or o[0] in excluded:
                continue
            still = [f for f in o[3]['fields'] if (o[3]['name'] + '.' + f['name']) not in excluded and f['name'] != o[2]['name']]
            if not still:
                continue
            key = o[1]
            c = copy.deepcopy(b['case'])
            c['yaml']['excludeFields'] = (c['yaml'].get('excludeFields') or []) + [key]
            v = run_variant(info, 'c11excl', c)
            out['evaluations'] += 1
            if not v['static'] or v['static'].get('parseError'):
                out['violations'].append({'kind': 'no output with an exclusion', 'variant': v['dir'], 'stderr': (v['plugin'] or {}).get('stderr', '')[-200:]})
                continue
            fa, fb = {}, {}
            for t, tree in base['static']['schemas'].items():
                fa.update(flat_attrs(tree, t))
            for t, tree in v['static']['schemas'].items():
                fb.update(flat_attrs(tree, t))
            extra = set(fb) - set(fa)
            if extra:
                out['violations'].append({'kind': 'exclusion added attributes', 'variant': v['dir'], 'extra': sorted(extra)[:5]})
            kept_changed = [p for p in fb if p in fa and fa[p] != fb[p]]
            if kept_changed:
                out['violations'].append({'kind': 'exclusion changed the schema entry of a remaining field', 'variant': v['dir'], 'attrs': kept_changed[:5]})
            if set(fa) == set(fb):
                out['violations'].append({'kind': 'exclusion removed nothing', 'variant': v['dir'], 'key': key})
            m = model_emit(v)
            if sorted(m.get('funcs') or []) != sorted(v['static']['funcs']):
                out['tie_breaks'].append({'variant': v['dir'], 'diff': 'model funcs differ'})
        # directed: an EMBEDDED field excluded as `Message.Field` where the embedding message occurs below a root (the key is the
        # one of the immediate message, whatever the path of the occurrence): its children vanish at every occurrence
        nested_types = {o[2]['typeName'] for o in occ if o[2]['type'] == 'message'}
        emb = [(m_, f) for m_ in b['case']['request']['file']['messages'] if m_['name'] in nested_types
               for f in m_['fields'] if f.get('embed') and (m_['name'] + '.' + f['name']) not in excluded
               and any((m_['name'] + '.' + g['name']) not in excluded and not g.get('embed') for g in m_['fields'])]
        for m_, f in emb[:1]:
            key = m_['name'] + '.' + f['name']
            c = copy.deepcopy(b['case'])
            c['yaml']['excludeFields'] = (c['yaml'].get('excludeFields') or []) + [key]
            v = run_variant(info, 'c11exclembed', c)
            out['evaluations'] += 1
            nkey['embedded_field_typeName'] = nkey.get('embedded_field_typeName', 0) + 1
            if not v['static'] or v['static'].get('parseError'):
                out['violations'].append({'kind': 'no output with an excluded embedded field', 'variant': v['dir'], 'stderr': (v['plugin'] or {}).get('stderr', '')[-200:]})
                continue
            fa, fb = {}, {}
            for t, tree in base['static']['schemas'].items():
                fa.update(flat_attrs(tree, t))
            for t, tree in v['static']['schemas'].items():
                fb.update(flat_attrs(tree, t))
            sub = find_msg(b['case'], f['typeName'])
            if sub and sub.get('fields') and set(fa) == set(fb):
                out['violations'].append({'kind': 'exclusion of an embedded field (Message.Field key, nested message) removed nothing', 'variant': v['dir'], 'key': key})
            if set(fb) - set(fa):
                out['violations'].append({'kind': 'exclusion added attributes', 'variant': v['dir'], 'extra': sorted(set(fb) - set(fa))[:5]})
            kept_changed = [p_ for p_ in fb if p_ in fa and fa[p_] != fb[p_]]
            if kept_changed:
                out['violations'].append({'kind': 'exclusion changed the schema entry of a remaining field', 'variant': v['dir'], 'attrs': kept_changed[:5]})
        if len(out['samples']) < 2:
            out['samples'].append({'batch': b['dir'], 'occurrences': len(occ)})
    out['coverage'] = {'keys_by_form': nkey, 'traces_validated_against_impl': out['evaluations'] - len(out['violations'])}
    return out


def hidden_by_exclusion(o, excluded):
    """the occurrence lies below an excluded field"""
    parts = o[0].split('.')
    for i in range(2, len(parts)):
        if '.'.join(parts[:i]) in excluded:
            return True
    return False


def under_embed(case, o):
    return False


# ----------------------------------------------------------------------------------------------------------
# C13

def canon_hooks(r):
    """hook calls made inside the loop over a Go map come in that map's iteration order: compare them as a multiset"""
    if isinstance(r, dict):
        r = dict(r)
        if isinstance(r.get('hooks'), list):
            r['hooks'] = sorted(r['hooks'], key=lambda h: json.dumps(h, sort_keys=True))
        if isinstance(r.get('steps'), list):
            r['steps'] = [canon_hooks(x) for x in r['steps']]
    return r


def eval_c13(batches, tier, seed, known, info):
    out = {'evaluations': 0, 'violations': [], 'tie_breaks': [], 'distinct': [], 'samples': [], 'coverage': {}, 'known': {}}
    pairs = 0
    for b in batches:
        y = (b['case'] or {}).get('yaml') or {}
        if not y.get('defaultPackageName'):
            continue
        out['evaluations'] += 1
        out['distinct'].append(b['dir'])
        st = b['status'].get('stage')
        if st == 'build':
            out['violations'].append({'kind': 'the separate-package layout does not compile', 'batch': b['dir'], 'error': b['status'].get('error', '')[:600]})
            continue
        if st != 'done':
            # the separate-package layout did not get as far as running: does the same-package layout of the same case?
            c = copy.deepcopy(b['case'])
            c['yaml']['defaultPackageName'] = ''
            c['yaml']['targetPackageName'] = ''
            c['cli'] = [kv for kv in c['cli'] if kv['k'] not in ('default_package_name', 'target_package_name')]
            v = run_variant(info, 'c13same', c)
            if v['plugin'] and v['plugin'].get('exit') == 0 and v['static'] and not v['static'].get('parseError') and st in ('plugin', 'generators', 'static'):
                out['violations'].append({'kind': 'the separate-package layout is not generated where the same-package layout of the same case is',
                                          'batch': b['dir'], 'variant': v['dir'], 'status': json.dumps(b['status'])[:400]})
            else:
                out['tie_breaks'].append({'batch': b['dir'], 'diff': 'batch did not complete: ' + json.dumps(b['status'])[:300]})
            continue
        # the struct package is imported under a qualifier
        imports = (b['static'] or {}).get('imports') or {}
        # (import_path_overrides: the package named by default_package_name is imported from the overriding path)
        want = {kv['k']: kv['v'] for kv in (y.get('importPathOverrides') or [])}.get(y['defaultPackageName'], y['defaultPackageName'])
        if want != y['defaultPackageName']:
            out['coverage_overrides'] = out.get('coverage_overrides', 0) + 1
        if not any(p == want and a.split('|')[0] not in ('', '_', '.') for a, p in imports.items()):
            out['violations'].append({'kind': 'struct package is not imported under a qualifier', 'batch': b['dir'], 'imports': list(imports)[:10]})
        if (b['static'] or {}).get('package') != y.get('targetPackageName'):
            out['violations'].append({'kind': 'package clause is not the target package', 'batch': b['dir']})
        # twin: the same case generated into the struct package
        twin_dir = b['dir'] + '_twin'
        if not os.path.exists(f'{twin_dir}/done'):
            c = copy.deepcopy(b['case'])
            c['yaml']['defaultPackageName'] = ''
            c['yaml']['targetPackageName'] = ''
            c['cli'] = [kv for kv in c['cli'] if kv['k'] not in ('default_package_name', 'target_package_name')]
            json.dump({'case': c, 'meta': b['meta']}, open(f"{b['dir']}/twin_case.json", 'w'))
            pc.sh([pc.BIN, 'batch', '-seed', str(b['status'].get('seed', seed)), '-index', str(b['status'].get('index', 0)), '-work', twin_dir,
                   '-plugin', pc.plugin_path(info['repoHash']), '-scale', '1' if tier == 'quick' else '2', '-case', f"{b['dir']}/twin_case.json"], cwd=pc.HARNESS, timeout=1800)
            for sub in ('spkg', 'tgt'):
                import shutil
                shutil.rmtree(f'{twin_dir}/{sub}', ignore_errors=True)
            open(f'{twin_dir}/done', 'w').write('1')
        try:
            tops = [l for l in open(f'{twin_dir}/ops.jsonl') if l.strip()]
            timpl = [json.loads(l) for l in open(f'{twin_dir}/impl.jsonl') if l.strip()]
        except OSError:
            out['tie_breaks'].append({'batch': b['dir'], 'diff': 'same-package twin did not run: ' + open(f'{twin_dir}/status.json').read()[:300]})
            continue
        sops = [json.dumps(o, sort_keys=True) for o in b['ops']]
        if [json.dumps(json.loads(l), sort_keys=True) for l in tops] != sops:
            # the operations are generated from the run-time schema: different operations mean different schemas
            sa = {o['type']: r.get('attrs') for o, r in zip(b['ops'], b['impl']) if o.get('op') == 'schema'}
            sb = {json.loads(o)['type']: r.get('attrs') for o, r in zip(tops, timpl) if json.loads(o).get('op') == 'schema'}
            d = first_diff(sa, sb)
            if d:
                out['violations'].append({'kind': 'the separate-package variant has a different schema than the same-package variant', 'batch': b['dir'], 'twin': twin_dir, 'diff': d})
            else:
                out['tie_breaks'].append({'batch': b['dir'], 'diff': 'twin generated different operations'})
            continue
        pairs += len(sops)
        for op, a, t in zip(b['ops'], b['impl'], timpl):
            # conversion diagnostics print the qualified value type of elements: identical in both layouts by construction
            if json.dumps(canon_hooks(a), sort_keys=True) != json.dumps(canon_hooks(t), sort_keys=True):
                out['violations'].append({'kind': 'separate-package variant behaves differently', 'batch': b['dir'], 'id': op.get('id'), 'tag': op.get('tag'),
                                          'diff': first_diff(a, t)})
                break
        if len(out['samples']) < 2:
            out['samples'].append({'batch': b['dir'], 'ops_compared': len(sops), 'default_package_name': y['defaultPackageName']})
    out['coverage'] = {'operations_compared_between_layouts': pairs, 'traces_validated_against_impl': pairs,
                       'batches_with_import_path_overrides': out.pop('coverage_overrides', 0)}
    return out


def eval_c17(batches, tier, seed, known, info):
    out = eval_schema('C17')(batches, tier, seed, known, info)
    import re
    for b in batches:
        if b['status'].get('stage') == 'build':
            m = re.findall(r'undefined: ((?:GenSchema|CopyFrom|CopyTo)\w+)', b['status'].get('error', ''))
            if m:
                out['violations'].append({'kind': 'the generated code calls hook functions that do not follow the suffix rule', 'batch': b['dir'],
                                          'undefined': sorted(set(m)), 'hooks_provided': [h['Suffix'] for h in (b['meta'] or {}).get('Hooks', [])]})
    # delegation, static: a field made custom by `custom_types` whose ordinary Go type is a POINTER (a nullable message) is handed to
    # the hooks and nothing else touches it - the generated CopyFrom contains the hook call with `&obj.<Field>` and no assignment
    # to `obj.<Field>` of its own (plugin-only variant: the harness has no executable hooks for message-typed custom fields)
    rnd17 = random.Random(seed + 17)
    for b in batches[: (4 if tier == 'quick' else len(batches))]:
        if not b['static'] or b['static'].get('parseError') or b['case'].get('yamlState') != 'ok':
            continue
        y = b['case']['yaml']
        excl = set(y.get('excludeFields') or [])
        cands = []
        for r in roots_of(b['case']):
            m_ = find_msg(b['case'], r)
            for f in (m_ or {}).get('fields', []):
                if (f['type'] == 'message' and f['card'] == 'single' and f.get('nullable') != 'false' and not f.get('embed') and f.get('oneof', -1) < 0
                        and (r + '.' + f['name']) not in excl and not any(kv['k'] == r + '.' + f['name'] for kv in (y.get('customTypes') or []))):
                    cands.append((r, f))
        if not cands:
            continue
        r, f = rnd17.choice(cands)
        c = copy.deepcopy(b['case'])
        c['yaml']['customTypes'] = (c['yaml'].get('customTypes') or []) + [{'k': r + '.' + f['name'], 'v': 'CfgNullableMsgHook'}]
        c['yaml']['suffixes'] = (c['yaml'].get('suffixes') or []) + [{'k': 'CfgNullableMsgHook', 'v': 'SfxCfgNullableMsg'}]
        v = run_variant(info, 'c17ptrcustom', c)
        out['evaluations'] += 1
        st = v['static']
        if not st or st.get('parseError'):
            out['violations'].append({'kind': 'no parsable output with a custom type on a nullable message field', 'variant': v['dir'],
                                      'stderr': (v['plugin'] or {}).get('stderr', '')[-300:]})
            continue
        fn = f'Copy{r}FromTerraform'
        calls = [c_ for c_ in (st.get('hookCalls') or {}).get(fn, []) if c_.startswith('CopyFromSfxCfgNullableMsg(')]
        if len(calls) != 1:
            out['violations'].append({'kind': 'a custom field (nullable message) is not handed to its CopyFrom hook exactly once', 'variant': v['dir'],
                                      'field': r + '.' + f['name'], 'calls': calls})
            continue
        mm = re.search(r'&obj\.(\w+)\)', calls[0])
        if not mm:
            out['violations'].append({'kind': 'the CopyFrom hook of a custom field does not receive the address of the field', 'variant': v['dir'], 'call': calls[0]})
            continue
        writes = [w for w in (st.get('objWrites') or {}).get(fn, []) if w == 'obj.' + mm.group(1)]
        if writes:
            out['violations'].append({'kind': 'the generated CopyFrom assigns a custom-type field itself (the field belongs to the hook alone)', 'variant': v['dir'],
                                      'field': r + '.' + f['name'], 'go_field': mm.group(1), 'assignments': len(writes)})
        tcalls = [c_ for c_ in (st.get('hookCalls') or {}).get(f'Copy{r}ToTerraform', []) if c_.startswith('CopyToSfxCfgNullableMsg(')]
        if len(tcalls) != 1:
            out['violations'].append({'kind': 'a custom field (nullable message) is not handed to its CopyTo hook exactly once', 'variant': v['dir'], 'calls': tcalls})
    # delegation, observed on the implementation's own call log: a CopyFrom / CopyTo call of a type hands EVERY custom attribute of
    # its top level (fields of embedded messages included) to the hook named by the suffix rule - whatever the attribute holds
    # (null, unknown, missing) and whatever the target holds - and to no other function
    calls_checked = 0
    for b in batches:
        if b['status'].get('stage') != 'done' or not b['static']:
            continue
        for op, im in zip(b['ops'], b['impl']):
            tag = op.get('tag')
            if tag not in ('from', 'from-payload', 'from-malformed', 'to-empty') or im.get('panic'):
                continue
            tree = (b['static'].get('schemas') or {}).get(op.get('type')) or {}
            want = {}
            for a, v in tree.items():
                if v.get('custom'):
                    fn = ('CopyTo' if tag == 'to-empty' else 'CopyFrom') + v['custom']
                    want[fn] = want.get(fn, 0) + 1
            if not want:
                continue
            got = {}
            for h in im.get('hooks') or []:
                got[h.get('fn')] = got.get(h.get('fn'), 0) + 1
            calls_checked += sum(want.values())
            short = {fn: (n, got.get(fn, 0)) for fn, n in want.items() if got.get(fn, 0) < n}
            if short and tag != 'to-empty':
                out['violations'].append({'kind': 'a custom field of the top level was not handed to its CopyFrom hook', 'batch': b['dir'], 'id': op.get('id'),
                                          'tag': tag, 'type': op.get('type'), 'expected_at_least_vs_called': short})
                break
            if short and tag == 'to-empty' and not any(d for d in im.get('diags') or []):
                # CopyTo skips custom children of a nil embedded message (there is no source value); otherwise every custom field is delegated
                obj = op.get('obj') if isinstance(op.get('obj'), dict) else {}
                nil_embed = any(isinstance(v, dict) and v.get('P', 0) is None for v in (obj.get('S') or {}).values())
                if not nil_embed:
                    out['violations'].append({'kind': 'a custom field of the top level was not handed to its CopyTo hook', 'batch': b['dir'], 'id': op.get('id'),
                                              'tag': tag, 'type': op.get('type'), 'expected_at_least_vs_called': short})
                    break
    out['coverage']['top_level_hook_calls_checked'] = calls_checked
    return out


def eval_c19(batches, tier, seed, known, info):
    """validation of the Lean bit-level conversions against Go's own conversions (boundary set + random patterns)"""
    out = {'evaluations': 0, 'violations': [], 'tie_breaks': [], 'distinct': [], 'samples': [], 'coverage': {}, 'known': {}}
    n = 4000 if tier == 'quick' else 200000
    rc, cases, err = pc.sh([pc.BIN, 'casts', str(seed), str(n)])
    lines = [l for l in cases.splitlines() if l.strip()]
    if not batches:
        return out
    p = subprocess.run([pc.MODEL, batches[0]['dir'] + '/case.json'], input=cases, text=True, capture_output=True, timeout=1800)
    res = [l for l in p.stdout.splitlines() if l.strip()]
    bad = 0
    for l, r in zip(lines, res):
        c = json.loads(l)
        out['evaluations'] += 1
        got = json.loads(r).get('bits')
        if got != c['want']:
            bad += 1
            if len(out['tie_breaks']) < 3:
                out['tie_breaks'].append({'diff': f"conversion {c['from']}->{c['to']} of {c['bits']}: Go gives {c['want']}, Lean model gives {got}"})
    if len(res) != len(lines):
        out['tie_breaks'].append({'diff': f'model answered {len(res)} of {len(lines)} conversion cases'})
    out['distinct'] = [f'cast{i}' for i in range(len(lines))]
    out['samples'] = [json.loads(l) for l in lines[:2]]
    out['coverage'] = {'conversion_cases_against_go': len(lines), 'conversion_disagreements': bad}
    return out


EVALUATORS.update({'C19': eval_c19, 'C17': eval_c17, 'C11': eval_c11, 'C12': eval_c12, 'C13': eval_c13, 'C15': eval_c15, 'C18': eval_c18})
