#!/usr/bin/env python3
"""Emit re-statements of theorems proved in PGT/Proofs/*.lean for a PGT/Props file: the statement is copied verbatim (so it
is readable next to the property), the proof is an application of the proved theorem.
usage: mkwrap.py <Proofs file> <src name>=<new name> ...   (prints Lean text)"""
import re, sys
src = open(sys.argv[1]).read()
for pair in sys.argv[2:]:
    old, new = pair.split('=')
    m = re.search(r'^theorem ' + re.escape(old.split('.')[-1]) + r'(?=[\s:(\[{])', src, flags=re.M)
    if not m:
        sys.exit(f'not found: {old}')
    rest = src[m.end():]
    ends = [i for i in (rest.find(':= by'), rest.find(':=\n'), rest.find('\n  | '), rest.find(' :=\n')) if i >= 0]
    sig = rest[:min(ends)].rstrip()
    # preceding doc comment
    before = src[:m.start()].rstrip()
    doc = ''
    if before.endswith('-/'):
        j = before.rfind('/--')
        if j >= 0 and '-/' not in before[j:-2]:
            doc = before[j:] + '\n'
    print(f'{doc}theorem {new}{sig} := by\n  intros; apply {old} <;> assumption\n')
