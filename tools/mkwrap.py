#!/usr/bin/env python3
"""Emit re-statements of theorems proved in PGT/Proofs/*.lean for a PGT/Props file: the statement is copied verbatim (so it
is readable next to the property), the proof is an application of the proved theorem.
usage: mkwrap.py <Proofs file> <src name>=<new name> ...   (prints Lean text)"""
import re, sys
src = open(sys.argv[1]).read()
for pair in sys.argv[2:]:
    old, new = pair.split('=')
    m = re.search(r'^theorem ' + re.escape(old.split('.')[-1]) + r'(?=[\s:(\[{])', src, flags=re.M)
    if not m:
        sys.exit(f'not found: {old}')
    rest = src[m.end():]
    # the signature ends at the first `:=` (or first pattern-matching alternative) outside all brackets
    depth, end = 0, None
    for i, ch in enumerate(rest):
        if ch in '([{⟨':
            depth += 1
        elif ch in ')]}⟩':
            depth -= 1
        elif depth == 0 and (rest.startswith(':=', i) or rest.startswith('\n  | ', i)):
            end = i
            break
    sig = rest[:end].rstrip()
    # preceding doc comment
    before = src[:m.start()].rstrip()
    doc = ''
    if before.endswith('-/'):
        j = before.rfind('/--')
        if j >= 0 and '-/' not in before[j:-2]:
            doc = before[j:] + '\n'
    print(f'{doc}theorem {new}{sig} := by\n  intros; apply {old} <;> assumption\n')
