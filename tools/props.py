"""Per-property evaluation of batches: which observations a property speaks about, how model and
implementation results are projected for it, and which PGT.Spec predicate is its oracle."""
import json, hashlib


def walk_nullness(tf, path='', out=None):
    """null-ness of every attribute outside list / map elements"""
    if out is None:
        out = {}
    if not isinstance(tf, dict):
        return out
    if tf.get('k') == 'Object' and tf.get('a') is not None:
        for k, v in tf['a'].items():
            p = path + '.' + k
            if isinstance(v, dict):
                out[p] = v.get('n')
                if v.get('k') == 'Object' and not v.get('n'):
                    walk_nullness(v, p, out)
    return out


def shape(tf):
    """kinds, unknown flags, presence and declared types; no payloads, no null flags"""
    if not isinstance(tf, dict):
        return tf
    k = tf.get('k')
    if k == 'Object':
        return {'k': k, 'u': tf.get('u'), 'aty': tf.get('aty'), 'a': None if tf.get('a') is None else {n: shape(v) for n, v in tf['a'].items()}}
    if k == 'List':
        return {'k': k, 'u': tf.get('u'), 'ety': tf.get('ety'), 'e': None if tf.get('e') is None else [shape(v) for v in tf['e']]}
    if k == 'Map':
        return {'k': k, 'u': tf.get('u'), 'ety': tf.get('ety'), 'e': None if tf.get('e') is None else {n: shape(v) for n, v in tf['e'].items()}}
    return {'k': k, 'u': tf.get('u')}


def proj(kind, r):
    if 'steps' in r:
        return [proj(kind, s) for s in r['steps']]
    base = {k: r.get(k) for k in ('panic', 'stuck', 'modelError', 'harnessError', 'error') if k in r}
    if kind == 'full':
        for k in ('diags', 'tf', 'obj'):
            if k in r:
                base[k] = r[k]
    elif kind == 'nullness':
        base['nullness'] = walk_nullness(r.get('tf'))
    elif kind == 'shape':
        base['diags'] = r.get('diags')
        base['shape'] = shape(r.get('tf'))
    elif kind == 'panicdiags':
        base['diags'] = r.get('diags')
    elif kind == 'hooks':
        # hook calls made inside the loop over a Go map come in that map's iteration order: compare as a multiset
        hs = r.get('hooks')
        base['hooks'] = sorted(hs, key=lambda h: json.dumps(h, sort_keys=True)) if isinstance(hs, list) else hs
    return base


# property -> list of (op tag, projection kind)
LEVEL_S = {
    'C03': [('to-empty', 'shape')],
    'C20': [('to-empty', 'nullness')],
    'C04': [('rt', 'full')],
    'C19': [('rt', 'full')],
    'C05': [('from', 'full'), ('from-payload', 'full')],
    'C06': [('from-malformed', 'full'), ('to-malformed', 'full'), ('to-plan', 'full')],
    'C07': [('from', 'full'), ('from-payload', 'full'), ('to-empty', 'nullness')],
    'C08': [('echo', 'full'), ('to-plan', 'full')],
    'C09': [('refresh', 'full')],
    'C17': [('to-empty', 'hooks'), ('rt', 'hooks'), ('from', 'hooks'), ('from-malformed', 'hooks')],
    'C02': [('to-empty', 'shape'), ('rt', 'full')],
}


def nontrivial(op, impl):
    s = json.dumps(impl)
    if 'tf' in s or 'steps' in impl:
        return '"n": false' in s
    return len(s) > 80


def op_hash(op):
    o = dict(op)
    o.pop('id', None)
    return hashlib.sha256(json.dumps(o, sort_keys=True).encode()).hexdigest()[:16]


def eval_level_s(prop, batches, known):
    """returns dict(evaluations, distinct, agree, disagreements[], spec_failures[], known_hits{}, samples[], dist{})"""
    res = {'evaluations': 0, 'distinct': set(), 'disagree': [], 'specfail': [], 'known': {}, 'samples': [], 'dist': {}, 'stuck': 0, 'specEvaluated': 0}
    for b in batches:
        if b['status'].get('stage') != 'done':
            continue
        n = min(len(b['ops']), len(b['impl']), len(b['model']))
        for i in range(n):
            op, im, mo = b['ops'][i], b['impl'][i], b['model'][i]
            for tag, kind in LEVEL_S[prop]:
                if op.get('tag') != tag:
                    continue
                res['evaluations'] += 1
                res['dist'][tag] = res['dist'].get(tag, 0) + 1
                if nontrivial(op, im):
                    res['distinct'].add(op_hash(op))
                if 'stuck' in json.dumps(mo)[:4000] and ('"stuck"' in json.dumps(mo)):
                    res['stuck'] += 1
                d = None
                pi, pm = proj(kind, im), proj(kind, mo)
                if pi != pm:
                    import compare
                    d = compare.first_diff(pi, pm)
                    res['disagree'].append({'batch': b['dir'], 'id': op.get('id'), 'tag': tag, 'type': op.get('type'), 'diff': d})
                cr = b['checkres'][i] if i < len(b['checkres']) else {}
                checks = cr.get('checks') or {}
                if prop in checks:
                    res['specEvaluated'] += 1
                    if checks[prop] is False:
                        panicked = '"panic": "' in json.dumps(im)
                        # a finding whose failure class is a panic explains only a panic; the others only a wrong value
                        trig = [t for t in (cr.get('triggers') or []) if t in known and
                                (known[t].get('failure', '').startswith('panic') == panicked)]
                        if trig:
                            for t in trig:
                                res['known'][t] = res['known'].get(t, 0) + 1
                        else:
                            res['specfail'].append({'batch': b['dir'], 'id': op.get('id'), 'tag': tag, 'type': op.get('type'),
                                                    'triggers': cr.get('triggers') or []})
                # C03: the acceptance test of the real framework on the result (driver: `conformance`): the object renders as a
                # tftypes value of exactly the schema's type, fully known, and the schema's own type takes it back
                if prop == 'C03' and isinstance(im.get('obs'), dict):
                    res['conformanceEvaluated'] = res.get('conformanceEvaluated', 0) + 1
                    ob = im['obs']
                    if str(ob.get('conformPanic', '')).startswith('NewFloat(NaN)'):
                        # a Terraform number cannot hold NaN: the FRAMEWORK's Float64.ToTerraformValue panics in big.NewFloat, whatever
                        # the generated code wrote - struct values with a NaN float are outside what the acceptance test can judge
                        res['conformanceNaNSkipped'] = res.get('conformanceNaNSkipped', 0) + 1
                        ob = {}
                    bad = [k for k in ('conformPanic', 'toTerraformValue', 'valueFromTerraform') if k in ob]
                    bad += [k for k in ('typeEqual', 'fullyKnown') if ob.get(k) is False]
                    if bad and not (cr.get('triggers') and any(t in known for t in cr['triggers'])):
                        res['specfail'].append({'batch': b['dir'], 'id': op.get('id'), 'tag': tag, 'type': op.get('type'), 'triggers': [],
                                                'conformance': {k: ob.get(k) for k in bad}})
                if len(res['samples']) < 3 and nontrivial(op, im):
                    res['samples'].append({'op': trunc(op), 'impl': trunc(im)})
    return res


def trunc(x, n=1500):
    s = json.dumps(x)
    return s if len(s) <= n else s[:n] + '…'
