"""Shrinking of failing cases.

A violation found by `check` carries the whole generated case (descriptor, configuration, harness meta). `shrink` looks for a
smaller case on which the *same* property evaluation still reports a violation of the same kind: fewer selected types, no
unreachable messages, fewer fields, fewer options. Every candidate is run as its own batch through the real plugin, gogo, the
Go compiler, the compiled converters and the Lean driver, and judged by the same evaluators as the check (`evaluate_case`).
Operations are re-drawn for every candidate (they are derived from the run-time schema), so "same failure" means: a violation of
the same kind (and, for the executable statements, the same operation tag) – not the same operation id.

Greedy delta debugging with a time budget; candidates of one round run in parallel."""
import copy, json, os, shutil, time, concurrent.futures
import pgtcheck as pc
import props as pp
import levelg

KNOWN = json.load(open(f'{pc.VERIF}/known_findings.json'))


def known_for(prop):
    return {f['id']: f for f in KNOWN['findings'] if prop in f['properties'] and f['status'] == 'known'}


def evaluate_case(prop, casewrap, tier, seed, name):
    """run one case as its own batch, evaluate `prop` on it; returns (violations, batch dir)"""
    rh = pc.repo_hash()
    err = pc.build_plugin(rh)
    if err:
        return [{'kind': 'plugin build', 'detail': err}], None
    root = f'{pc.WORK}/shrink'
    os.makedirs(root, exist_ok=True)
    cf = f'{root}/{name}.json'
    json.dump(casewrap, open(cf, 'w'))
    shutil.rmtree(f'{root}/b{name}', ignore_errors=True)
    d = pc.run_batch(root, name, seed, pc.plugin_path(rh), 1 if tier == 'quick' else 2, {}, cf)
    b = pc.load_batch(d)
    known = known_for(prop)
    info = {'repoHash': rh, 'machineryHash': pc.machinery_hash(), 'cache': root}
    out = []
    if prop in pp.LEVEL_S:
        r = pp.eval_level_s(prop, [b], known)
        out += [{'kind': 'property predicate fails on the implementation', **f} for f in r['specfail']]
    if prop in levelg.EVALUATORS:
        g = levelg.EVALUATORS[prop]([b], tier, seed, known, info)
        out += g.get('violations', [])
    return out, d


def signature(v):
    return (v.get('kind'), v.get('tag'))


def messages_of(case):
    req = case['request']
    return [m for f in req['deps'] + [req['file']] for m in f['messages']]


def roots_of(case):
    y = case.get('yaml') or {}
    r = list(y.get('types') or [])
    for kv in case.get('cli') or []:
        if kv['k'] == 'types':
            r = [x for x in kv['v'].split('+') if x]
    return r


def prune_unreachable(cw):
    case = cw['case']
    by = {m['name']: m for m in messages_of(case)}
    seen, todo = set(), [r for r in roots_of(case) if r in by]
    while todo:
        n = todo.pop()
        if n in seen:
            continue
        seen.add(n)
        for f in by[n]['fields']:
            if f['type'] == 'message' and f.get('typeName') in by:
                todo.append(f['typeName'])
    req = case['request']
    for fl in req['deps'] + [req['file']]:
        fl['messages'] = [m for m in fl['messages'] if m['name'] in seen]
    return cw


def size(cw):
    ms = messages_of(cw['case'])
    y = cw['case'].get('yaml') or {}
    opts = sum(len(y.get(k) or []) for k in ('excludeFields', 'computedFields', 'requiredFields', 'sensitiveFields', 'suffixes', 'nameOverrides',
                                              'validators', 'planModifiers', 'injectedFields', 'customTypes'))
    return {'roots': len(roots_of(cw['case'])), 'messages': len(ms), 'fields': sum(len(m['fields']) for m in ms), 'options': opts}


def candidates(cw):
    """smaller variants of the case, most aggressive first"""
    case = cw['case']
    roots = roots_of(case)
    y = case.get('yaml')
    # 1. a single selected type
    if y and len(y.get('types') or []) > 1 and not any(kv['k'] == 'types' for kv in case.get('cli') or []):
        for r in roots:
            c = copy.deepcopy(cw)
            c['case']['yaml']['types'] = [r]
            if c.get('meta') and c['meta'].get('Roots'):
                c['meta']['Roots'] = [r]
            yield ('root ' + r, prune_unreachable(c))
    # 2. halves / single fields of every message
    ms = messages_of(case)
    for mi, m in enumerate(ms):
        n = len(m['fields'])
        if n <= 1:
            continue
        chunks = [(0, n // 2), (n // 2, n)] if n > 3 else []
        chunks += [(i, i + 1) for i in range(n)]
        for lo, hi in chunks:
            c = copy.deepcopy(cw)
            mm = messages_of(c['case'])[mi]
            dropped = mm['fields'][lo:hi]
            mm['fields'] = mm['fields'][:lo] + mm['fields'][hi:]
            # a oneof declaration without fields is not a legal descriptor: drop it and re-index
            used = sorted({f['oneof'] for f in mm['fields'] if f.get('oneof', -1) >= 0})
            remap = {old: new for new, old in enumerate(used)}
            mm['oneofs'] = [mm['oneofs'][i] for i in used]
            for f in mm['fields']:
                if f.get('oneof', -1) >= 0:
                    f['oneof'] = remap[f['oneof']]
            yield (f'{m["name"]} -{[f["name"] for f in dropped]}', prune_unreachable(c))
    # 3. option lists
    if y:
        for k in ('excludeFields', 'computedFields', 'requiredFields', 'sensitiveFields', 'nameOverrides', 'validators', 'planModifiers',
                  'injectedFields', 'suffixes'):
            if y.get(k):
                c = copy.deepcopy(cw)
                c['case']['yaml'][k] = []
                if k == 'injectedFields' and c.get('meta'):
                    c['meta']['Injected'] = []
                yield ('no ' + k, c)


def shrink(prop, payload, tier, seed, budget_s=240):
    t0 = time.time()
    cw = copy.deepcopy(payload['case'])
    if cw.get('meta') is None:
        cw['meta'] = {'Roots': [], 'Injected': [], 'Hooks': [], 'CustomTys': []}
    cw['meta']['OneofGroups'] = None       # recomputed by the harness from the case
    want = signature(payload)
    before = size(cw)
    runs, accepted = 0, 0
    # the recorded case must fail on its own (operations are re-drawn): otherwise there is nothing to shrink towards
    v0, _ = evaluate_case(prop, cw, tier, seed, 'base')
    runs += 1
    if not any(signature(v) == want for v in v0):
        shutil.rmtree(f'{pc.WORK}/shrink', ignore_errors=True)
        return {'case': cw, 'stats': {'before': before, 'after': before, 'runs': runs, 'note': 'the case alone (fresh operations) does not reproduce this violation kind; not shrunk'}}
    progress = True
    while progress and time.time() - t0 < budget_s:
        progress = False
        cands = list(candidates(cw))
        for start in range(0, len(cands), 8):
            if time.time() - t0 >= budget_s:
                break
            group = cands[start:start + 8]
            with concurrent.futures.ThreadPoolExecutor(max_workers=8) as ex:
                futs = [ex.submit(evaluate_case, prop, c, tier, seed, f'c{start + i}') for i, (_, c) in enumerate(group)]
                res = [f.result() for f in futs]
            runs += len(group)
            hit = [(lbl, c) for (lbl, c), (vs, _) in zip(group, res) if any(signature(v) == want for v in vs)]
            if hit:
                # take the smallest of the failing candidates and start over from it
                hit.sort(key=lambda lc: (size(lc[1])['fields'], size(lc[1])['messages'], size(lc[1])['options']))
                cw = hit[0][1]
                accepted += 1
                progress = True
                break
    shutil.rmtree(f'{pc.WORK}/shrink', ignore_errors=True)
    return {'case': cw, 'stats': {'before': before, 'after': size(cw), 'runs': runs, 'accepted': accepted, 'wall_s': round(time.time() - t0, 1)}}
