import json,glob,sys,collections
cache=sorted(glob.glob('/verif/harness/work/cache/*'))[-1] if len(sys.argv)<2 else sys.argv[1]
c=collections.Counter(); ex={}
for b in sorted(glob.glob(cache+'/b*')):
    try:
        ops=[json.loads(l) for l in open(b+'/ops.jsonl')]; impl=[json.loads(l) for l in open(b+'/impl.jsonl')]; cr=[json.loads(l) for l in open(b+'/checkres.jsonl')]; mo=[json.loads(l) for l in open(b+'/model.jsonl')]
    except FileNotFoundError:
        print(b, json.load(open(b+'/status.json'))); continue
    for o,i,r,m in zip(ops,impl,cr,mo):
        for k,v in (r.get('checks') or {}).items():
            if v is False:
                pan=i.get('panic') or [s.get('panic') for s in i.get('steps',[]) if s.get('panic')]
                key=(k,o['tag'],str(pan), tuple(r.get('triggers') or []))
                c[key]+=1; ex.setdefault(key,(b,o['id']))
        if 'checks' not in r: c[('NOCHECK',o['tag'],json.dumps(r)[:100])]+=1
        if i!=m and json.dumps(i,sort_keys=True)!=json.dumps(m,sort_keys=True):
            pass
for k,v in sorted(c.items()): print(v,k,ex.get(k))
