#!/bin/bash
# Soak on the UNCHANGED tree: every quick check for several VERIF_SEED values on a repository snapshot (vp run --with-repo).
# Any VIOLATION line here is a false alarm (or a new genuine defect) and must be looked at.
set -u
V="$(cd "$(dirname "$0")/.." && pwd)"
: "${VERIF_REPO:=${VP_RUN_REPO:-}}"
[ -n "$VERIF_REPO" ] && [ "$VERIF_REPO" != "/repo" ] || { echo "VERIF_REPO must name a snapshot"; exit 2; }
export VERIF_REPO
[ -x "$V/harness/work/pgtharness" ] || "$V/setup.sh" > "$V/setup.log" 2>&1
cd "$V"
for s in ${@:-3 4 5 6 7}; do
  for i in 01 02 03 04 05 06 07 08 09 10 11 12 13 14 15 16 17 18 19 20; do
    VERIF_SEED=$s ./check C$i quick > /tmp/soak_$i.log 2>&1; rc=$?
    echo "seed=$s C$i rc=$rc $(grep -c '^VIOLATION' /tmp/soak_$i.log) violations; $(tail -1 /tmp/soak_$i.log)"
    grep '^VIOLATION' /tmp/soak_$i.log | head -3
    for r in $(grep '^VIOLATION' /tmp/soak_$i.log | sed 's/.*replay=\([^ ]*\).*/\1/' | head -2); do echo "   $(head -c 600 $r | tr '\n' ' ')"; done
  done
done
