#!/usr/bin/env python3
"""usage: wavetable.py <wave letter>   prints the DESIGN §10a table rows of one wave of seeded defects
(from seeded/<id>/meta.json and the check logs of the last seedcheck / seedtest run)"""
import glob, json, os, re, sys
V = os.path.dirname(os.path.dirname(os.path.abspath(__file__)))
w = sys.argv[1]
print('| seed | change | needs | final: VIOLATION lines |\n|---|---|---|---|')
for d in sorted(glob.glob(f'{V}/seeded/C??-{w}')):
    m = json.load(open(f'{d}/meta.json'))
    def cut(s):
        s = re.sub(r'\s+', ' ', str(s)).replace('|', '/')
        return s[:250]
    res = []
    for log in sorted(glob.glob(f'{d}/check_*.log')):
        lines = [l for l in open(log) if l.startswith('VIOLATION')]
        c = os.path.basename(log)[6:-4]
        res.append(f"{c}: {len(lines)} ({sum('no-failing-input-found' not in l for l in lines)} with input)")
    summ = m.get('summary') or m.get('change') or m.get('description') or ''
    print(f"| {os.path.basename(d)} | {cut(summ)} | {cut(m.get('needs') or m.get('manifests') or m.get('trigger') or '')} | {'; '.join(res)} |")
