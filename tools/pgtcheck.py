#!/usr/bin/env python3
"""Orchestration of the per-property checks (DESIGN.md §2 decision rule):
   1. regenerate tables from /repo, build the property's theorems, audit axioms      -> obligations discharged?
   2. run the correspondence (real plugin + generated code vs. Lean model)             -> model = implementation?
   3. evaluate the property's executable statement (PGT.Spec) on the implementation's outputs
"""
import concurrent.futures, glob, hashlib, json, os, re, shutil, subprocess, sys, time

VERIF = os.path.dirname(os.path.dirname(os.path.abspath(__file__)))
REPO = os.environ.get('VERIF_REPO', '/repo')   # VERIF_REPO: sweeps over snapshots only; registered commands use /repo
HARNESS = f'{VERIF}/harness'
LEAN = f'{VERIF}/lean'
WORK = f'{HARNESS}/work'
BIN = f'{WORK}/pgtharness'
MODEL = f'{LEAN}/.lake/build/bin/pgtmodel'
GOENV = dict(os.environ, GOFLAGS='-mod=mod', GOPROXY='off', GOSUMDB='off', GOTOOLCHAIN='local', VERIF_ROOT=VERIF)
ALLOWED_AXIOMS = {'propext', 'Classical.choice', 'Quot.sound'}

sys.path.insert(0, f'{VERIF}/tools')
import compare as cmp


def sh(cmd, cwd=None, env=None, timeout=3600, inp=None):
    p = subprocess.run(cmd, cwd=cwd, env=env or GOENV, timeout=timeout, input=inp, capture_output=True, text=True)
    return p.returncode, p.stdout, p.stderr


def file_hash(paths):
    h = hashlib.sha256()
    for p in sorted(paths):
        h.update(p.encode())
        try:
            with open(p, 'rb') as f:
                h.update(f.read())
        except OSError:
            h.update(b'<missing>')
    return h.hexdigest()[:20]


def repo_hash():
    paths = []
    for pat in ('*.go', '*.tpl', '*.txt', 'go.mod', 'go.sum'):
        paths += glob.glob(f'{REPO}/{pat}')
    return file_hash(paths)


def machinery_hash():
    paths = glob.glob(f'{HARNESS}/**/*.go', recursive=True)
    paths = [p for p in paths if '/work/' not in p]
    paths += glob.glob(f'{LEAN}/PGT/Model/*.lean') + glob.glob(f'{LEAN}/Driver/*.lean') + [f'{LEAN}/Main.lean']
    return file_hash(paths)


def ensure_tools():
    """build the harness binary and the model driver when their sources are newer (setup builds them first)"""
    os.makedirs(WORK, exist_ok=True)
    srcs = [p for p in glob.glob(f'{HARNESS}/**/*.go', recursive=True) if '/work/' not in p]
    if not os.path.exists(BIN) or max(os.path.getmtime(p) for p in srcs) > os.path.getmtime(BIN):
        rc, out, err = sh(['go', 'build', '-o', BIN, './cmd/pgtharness'], cwd=HARNESS)
        if rc != 0:
            raise RuntimeError('harness build failed:\n' + out + err)


def extract_tables():
    """T1–T5: regenerate PGT/Generated/*.lean from /repo's working tree; returns {extractor: error}"""
    rc, out, err = sh([BIN, 'extract', REPO, f'{LEAN}/PGT/Generated'])
    try:
        failed = json.loads(out.strip().splitlines()[-1])
    except Exception:
        failed = {'extract': (out + err)[-2000:]}
    return failed


def lake_build(targets):
    rc, out, err = sh(['lake', 'build'] + targets, cwd=LEAN, env=os.environ, timeout=3600)
    return rc, out + err


def build_model_driver():
    return lake_build(['pgtmodel'])


def prop_files(prop):
    """PGT/Props/<prop>.lean and its continuation files PGT/Props/<prop>_*.lean (theorems that need proof modules which
    themselves import the base file)"""
    base = f'{LEAN}/PGT/Props/{prop}.lean'
    return ([base] if os.path.exists(base) else []) + sorted(glob.glob(f'{LEAN}/PGT/Props/{prop}_*.lean'))


def audit(prop):
    """#print axioms for every theorem of PGT.Props.<prop>; returns (theorems: {name: [axioms]}, error)"""
    paths = prop_files(prop)
    if not paths:
        return {}, 'no theorem file'
    names, banned, imports = [], [], []
    for path in paths:
        src = open(path).read()
        # strip comments
        code = re.sub(r'/-.*?-/', '', src, flags=re.S)
        code = re.sub(r'--.*', '', code)
        ns = re.search(r'^namespace\s+([A-Za-z0-9_.]+)', code, flags=re.M)
        prefix = (ns.group(1) + '.') if ns else ''
        names += [prefix + n for n in re.findall(r'^\s*theorem\s+([A-Za-z0-9_.\']+)', code, flags=re.M)]
        imports.append('PGT.Props.' + os.path.basename(path)[:-5])
    # banned constructs anywhere in the project (model, tables, lemmas, property files), comments stripped
    for path in sorted(glob.glob(f'{LEAN}/PGT/**/*.lean', recursive=True)) + [f'{LEAN}/Main.lean'] + sorted(glob.glob(f'{LEAN}/Driver/*.lean')):
        code = re.sub(r'/-.*?-/', '', open(path).read(), flags=re.S)
        code = re.sub(r'--.*', '', code)
        hits = [w for w in ('sorry', 'admit', 'native_decide', 'bv_decide', 'implemented_by', 'unsafe ', 'maxHeartbeats 0', 'decide +native') if re.search(r'(?<![A-Za-z_])' + re.escape(w), code)]
        if re.search(r'^\s*axiom\s', code, flags=re.M):
            hits.append('axiom')
        if hits:
            banned.append(f'{os.path.relpath(path, LEAN)}: {hits}')
    aud = ''.join(f'import {m}\n' for m in imports) + ''.join(f'#print axioms {n}\n' for n in names)
    tmp = f'{WORK}/audit_{prop}.lean'
    open(tmp, 'w').write(aud)
    rc, out, err = sh(['lake', 'env', 'lean', tmp], cwd=LEAN, env=os.environ)
    thms = {}
    for m in re.finditer(r"'([^']+)' (does not depend on any axioms|depends on axioms: \[([^\]]*)\])", out.replace('\n', ' ')):
        ax = [a.strip() for a in (m.group(3) or '').split(',') if a.strip()]
        thms[m.group(1)] = ax
    errtxt = None
    if rc != 0 or len(thms) != len(names):
        errtxt = (out + err)[-3000:]
    if banned:
        errtxt = (errtxt or '') + f' banned constructs: {banned}'
    return thms, errtxt


# ----------------------------------------------------------------------------------------------------------
# batches

PROFILES = [
    {},
    {'Sort': 1},
    {'SeparatePackage': 'auto'},
    {'Sort': 2},
    {'Sort': 1, 'SeparatePackage': 'auto'},
    {'NoOptions': True},
    {'Sort': 2, 'SeparatePackage': 'override'},
    # the target package has the same NAME as the last path element of the struct package (another directory, another package)
    {'SeparatePackage': 'auto', 'TargetPackage': 'spkg'},
]


def plugin_path(rh):
    return f'{WORK}/plugin_{rh}'


def build_plugin(rh):
    p = plugin_path(rh)
    if os.path.exists(p):
        return None
    for old in glob.glob(f'{WORK}/plugin_*'):
        try:
            os.remove(old)
        except OSError:
            pass
    rc, out, err = sh([BIN, 'build-plugin', REPO, p])
    if rc != 0:
        return (out + err)[-4000:]
    return None


def run_batch(cache, idx, seed, plugin, scale, profile, case=None):
    d = f'{cache}/b{idx}'
    if os.path.exists(f'{d}/status.json') and os.path.exists(f'{d}/done'):
        return d
    rc, out, err = sh([BIN, 'batch', '-seed', str(seed), '-index', str(idx if case is None else 0), '-work', d, '-plugin', plugin,
                       '-scale', str(scale), '-profile', json.dumps(profile)] + (['-case', case] if case else []),
                      cwd=HARNESS, timeout=1800)
    if not os.path.exists(f'{d}/status.json'):
        os.makedirs(d, exist_ok=True)
        json.dump({'stage': 'crash', 'error': (out + err)[-3000:]}, open(f'{d}/status.json', 'w'))
    st = json.load(open(f'{d}/status.json'))
    if st.get('stage') == 'done':
        # model side
        with open(f'{d}/ops.jsonl') as fin, open(f'{d}/model.jsonl', 'w') as fout:
            subprocess.run([MODEL, f'{d}/case.json'], stdin=fin, stdout=fout, timeout=1800)
        ops = [l for l in open(f'{d}/ops.jsonl') if l.strip()]
        impl = [l for l in open(f'{d}/impl.jsonl') if l.strip()]
        with open(f'{d}/checks.jsonl', 'w') as f:
            for o, i in zip(ops, impl):
                f.write('{"op":"check","orig":' + o.strip() + ',"impl":' + i.strip() + '}\n')
        with open(f'{d}/checks.jsonl') as fin, open(f'{d}/checkres.jsonl', 'w') as fout:
            subprocess.run([MODEL, f'{d}/case.json'], stdin=fin, stdout=fout, timeout=1800)
    # static / emit side for every batch that produced a file
    with open(f'{d}/emit.jsonl', 'w') as fout:
        subprocess.run([MODEL, f'{d}/case.json'], input='{"op":"emit"}\n', text=True, stdout=fout, timeout=600)
    # scratch sources are not needed any more
    for sub in ('spkg', 'tgt', 'dpkg'):
        shutil.rmtree(f'{d}/{sub}', ignore_errors=True)
    open(f'{d}/done', 'w').write('1')
    return d


def get_batches(tier, seed):
    rh = repo_hash()
    mh = machinery_hash()
    err = build_plugin(rh)
    if err:
        return None, {'pluginBuildError': err}
    n, scale = (6, 1) if tier == 'quick' else (36, 2)
    cache = f'{WORK}/cache/{rh}_{mh}_{tier}_{seed}'
    os.makedirs(cache, exist_ok=True)
    # drop caches of other trees / other machinery versions
    for old in glob.glob(f'{WORK}/cache/*'):
        if not os.path.basename(old).startswith(f'{rh}_{mh}_'):
            shutil.rmtree(old, ignore_errors=True)
    with concurrent.futures.ThreadPoolExecutor(max_workers=8) as ex:
        futs = [ex.submit(run_batch, cache, i, seed, plugin_path(rh), scale, PROFILES[i % len(PROFILES)]) for i in range(n)]
        # the deterministic shape-coverage case (corpus/sink.json: every template in every position), under two profiles
        # (all profiles in the thorough tier); its operations are still drawn from VERIF_SEED
        sink = f'{VERIF}/corpus/sink.json'
        # ('override': default_package_name is the bare package name, the import path comes from import_path_overrides)
        sink_profiles = ([{}, {'Sort': 1, 'SeparatePackage': 'override', 'TargetPackage': 'spkg'}] if tier == 'quick'
                         else PROFILES[:5] + [{'SeparatePackage': 'override'}, {'SeparatePackage': 'auto', 'TargetPackage': 'spkg'}])
        for k, prof in enumerate(sink_profiles):
            futs.append(ex.submit(run_batch, cache, f'sink{k}', seed, plugin_path(rh), scale, prof, sink))
        dirs = [f.result() for f in futs]
        # the deterministic case first: evaluators that look at a prefix of the batches always see it
        dirs = dirs[n:] + dirs[:n]
    return dirs, {'repoHash': rh, 'machineryHash': mh, 'cache': cache}


def load_batch(d):
    b = {'dir': d, 'status': json.load(open(f'{d}/status.json'))}
    for name in ('case', 'meta', 'plugin', 'static', 'oracle'):
        p = f'{d}/{name}.json'
        b[name] = json.load(open(p)) if os.path.exists(p) else None
    for name in ('ops', 'impl', 'model', 'checkres', 'emit'):
        p = f'{d}/{name}.jsonl'
        b[name] = [json.loads(l) for l in open(p) if l.strip()] if os.path.exists(p) else []
    return b
