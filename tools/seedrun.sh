#!/bin/bash
# usage: seedrun.sh <seed-id> <worktree> <demo command (run inside the worktree)> -- <check ids...>
# confirms the demonstration (fails with the patch, passes without), then runs seedtest.sh
set -u
ID=$1; WT=$2; DEMO=$3; shift 3; [ "$1" = "--" ] && shift
export GOFLAGS=-mod=mod GOPROXY=off GOSUMDB=off GOTOOLCHAIN=local
cd $WT || exit 2
( eval "$DEMO" ) > $(dirname $WT)/${ID}_with.log 2>&1; RW=$?
git apply -R _seed/patch.diff || { echo "cannot reverse patch"; exit 2; }
( eval "$DEMO" ) > $(dirname $WT)/${ID}_without.log 2>&1; RWO=$?
git apply _seed/patch.diff
mkdir -p /verif/seeded/$ID
echo "demo '$DEMO': with patch rc=$RW, without patch rc=$RWO" | tee /verif/seeded/$ID/demo_confirm.txt
if [ $RW -eq 0 ] || [ $RWO -ne 0 ]; then echo "DEMO NOT CONFIRMED"; exit 3; fi
/verif/tools/seedtest.sh $ID $WT "$@"
cat /verif/seeded/$ID/demo_confirm.txt >> /verif/seeded/$ID/confirm.txt
