"""Re-execute one recorded case: `check <prop> --replay <file>`."""
import json, os, subprocess, sys
import pgtcheck as pc


def run(prop, path):
    r = json.load(open(path))
    print(json.dumps({k: r[k] for k in r if k not in ('log_tail', 'case', 'original_case')}, indent=1)[:4000])
    b = r.get('batch') or r.get('variant')
    if not r.get('case') and (not b or not os.path.exists(f'{b}/case.json')):
        print('the recorded batch directory is gone; re-run the check with VERIF_SEED=%s to regenerate it' % r.get('seed'))
        return 1
    pc.ensure_tools()
    rh = pc.repo_hash()
    err = pc.build_plugin(rh)
    if err:
        print(err)
        return 1
    d = f'{pc.WORK}/replay'
    if r.get('case'):
        case = r['case']        # self-contained replay (possibly shrunk)
        if not case.get('meta'):
            case['meta'] = {'Roots': [], 'Injected': [], 'Hooks': [], 'CustomTys': []}
    else:
        case = {'case': json.load(open(f'{b}/case.json')), 'meta': json.load(open(f'{b}/meta.json')) if os.path.exists(f'{b}/meta.json') else {'Roots': [], 'Injected': [], 'Hooks': [], 'CustomTys': []}}
    json.dump(case, open(f'{pc.WORK}/replay_case.json', 'w'))
    rc, out, e = pc.sh([pc.BIN, 'batch', '-work', d, '-plugin', pc.plugin_path(rh), '-case', f'{pc.WORK}/replay_case.json', '-seed', str(r.get('seed', 1))], cwd=pc.HARNESS)
    st = json.load(open(f'{d}/status.json'))
    print('replayed batch:', st)
    if r.get('id') and os.path.exists(f'{d}/ops.jsonl'):
        ops = [json.loads(l) for l in open(f'{d}/ops.jsonl')]
        impl = [json.loads(l) for l in open(f'{d}/impl.jsonl')]
        for o, i in zip(ops, impl):
            if o.get('id') == r['id']:
                print('op:', json.dumps(o)[:3000])
                print('implementation:', json.dumps(i)[:3000])
                p = subprocess.run([pc.MODEL, f'{d}/case.json'], input=json.dumps(o) + '\n' + json.dumps({'op': 'check', 'orig': o, 'impl': i}) + '\n', text=True, capture_output=True)
                print('model / property predicate:', p.stdout[:3000])
    # the property evaluation of the check, on this case alone (fresh operations drawn from the recorded seed)
    try:
        import shrink
        vs, _ = shrink.evaluate_case(prop, case, r.get('tier', 'quick'), r.get('seed', 1), 'replay')
        import shutil
        shutil.rmtree(f'{pc.WORK}/shrink', ignore_errors=True)
        print(f'property evaluation on the replayed case: {len(vs)} violation(s)')
        for v in vs[:5]:
            print('  ', json.dumps({k: v[k] for k in v if k not in ('case',)})[:600])
        return 1 if vs else 0
    except Exception as e:
        print('evaluation on the replayed case failed:', repr(e)[:300])
    return 0
