"""Re-execute one recorded case: `check <prop> --replay <file>`."""
import json, os, subprocess, sys
import pgtcheck as pc


def run(prop, path):
    r = json.load(open(path))
    print(json.dumps({k: r[k] for k in r if k not in ('log_tail',)}, indent=1)[:4000])
    b = r.get('batch') or r.get('variant')
    if not b or not os.path.exists(f'{b}/case.json'):
        print('the recorded batch directory is gone; re-run the check with VERIF_SEED=%s to regenerate it' % r.get('seed'))
        return 1
    pc.ensure_tools()
    rh = pc.repo_hash()
    err = pc.build_plugin(rh)
    if err:
        print(err)
        return 1
    d = f'{pc.WORK}/replay'
    case = {'case': json.load(open(f'{b}/case.json')), 'meta': json.load(open(f'{b}/meta.json')) if os.path.exists(f'{b}/meta.json') else {'Roots': [], 'Injected': [], 'Hooks': [], 'CustomTys': []}}
    json.dump(case, open(f'{pc.WORK}/replay_case.json', 'w'))
    rc, out, e = pc.sh([pc.BIN, 'batch', '-work', d, '-plugin', pc.plugin_path(rh), '-case', f'{pc.WORK}/replay_case.json', '-seed', str(r.get('seed', 1))], cwd=pc.HARNESS)
    st = json.load(open(f'{d}/status.json'))
    print('replayed batch:', st)
    if r.get('id') and os.path.exists(f'{d}/ops.jsonl'):
        ops = [json.loads(l) for l in open(f'{d}/ops.jsonl')]
        impl = [json.loads(l) for l in open(f'{d}/impl.jsonl')]
        for o, i in zip(ops, impl):
            if o.get('id') == r['id']:
                print('op:', json.dumps(o)[:3000])
                print('implementation:', json.dumps(i)[:3000])
                p = subprocess.run([pc.MODEL, f'{d}/case.json'], input=json.dumps(o) + '\n' + json.dumps({'op': 'check', 'orig': o, 'impl': i}) + '\n', text=True, capture_output=True)
                print('model / property predicate:', p.stdout[:3000])
    return 0
