#!/bin/bash
# Sweep over all stored seeded defects on a *snapshot* of the repository (vp run --with-repo): for every /verif/seeded/<id>
# apply patch.diff to $VERIF_REPO, run the quick check of the property the seed breaks, undo. Never touches /repo.
# usage: VERIF_REPO=<snapshot> tools/seedsweep.sh [seed ...]
set -u
V="$(cd "$(dirname "$0")/.." && pwd)"
: "${VERIF_REPO:=${VP_RUN_REPO:-}}"
[ -n "$VERIF_REPO" ] && [ "$VERIF_REPO" != "/repo" ] || { echo "VERIF_REPO must name a snapshot, not /repo"; exit 2; }
export VERIF_REPO
[ -x "$V/harness/work/pgtharness" ] || "$V/setup.sh" > "$V/setup.log" 2>&1
SEED=${VERIF_SEED:-1}
cd "$V"
for D in ${@:-$(ls -d seeded/*/ | xargs -n1 basename)}; do
  P=$(python3 -c "import json;print(json.load(open('seeded/$D/meta.json'))['property'])" 2>/dev/null) || continue
  git -C "$VERIF_REPO" apply "$V/seeded/$D/patch.diff" 2>/dev/null || { echo "$D: patch does not apply"; continue; }
  ./check $P quick > /tmp/sweep_$D.log 2>&1; RC=$?
  N=$(grep -c '^VIOLATION' /tmp/sweep_$D.log); NI=$(grep '^VIOLATION' /tmp/sweep_$D.log | grep -vc no-failing-input-found)
  echo "$D property=$P seed=$SEED rc=$RC violations=$N with_input=$NI"
  git -C "$VERIF_REPO" checkout -- . ; rm -f /tmp/sweep_$D.log
done
./check C01 quick > /dev/null 2>&1; echo "unchanged tree C01 rc=$?"
