#!/usr/bin/env python3
"""Refresh tools/properties_meta.json (theorem list per property) from lean/PGT/Props/*.lean."""
import re, json, os, glob
V = os.path.dirname(os.path.dirname(os.path.abspath(__file__)))
meta = json.load(open(f'{V}/tools/properties_meta.json'))
for i in range(1, 21):
    k = f'C{i:02d}'
    src = ''.join(open(p).read() + '\n' for p in [f'{V}/lean/PGT/Props/{k}.lean'] + sorted(glob.glob(f'{V}/lean/PGT/Props/{k}_*.lean')))
    code = re.sub(r'/-.*?-/', '', src, flags=re.S)
    code = re.sub(r'--.*', '', code)
    meta.setdefault(k, {})['theorems'] = re.findall(r'^\s*theorem\s+([A-Za-z0-9_.\']+)', code, flags=re.M)
    meta[k].setdefault('tables', [])
    print(k, len(meta[k]['theorems']))
json.dump(meta, open(f'{V}/tools/properties_meta.json', 'w'), indent=1)
