#!/usr/bin/env python3
"""Compare model and implementation result lines (canonical JSON) op by op."""
import json, sys

def norm(x):
    """canonical form of a result for comparison"""
    if isinstance(x, dict):
        return {k: norm(v) for k, v in x.items()}
    if isinstance(x, list):
        return [norm(v) for v in x]
    return x

def strip_schema(a):
    if a is None: return None
    out = {}
    for k, v in a.items():
        v = dict(v)
        v.pop('custom', None)
        v['attrs'] = strip_schema(v.get('attrs'))
        out[k] = v
    return out

def project(op, r, side):
    """the part of a result both sides must agree on"""
    if 'steps' in r:
        return {'steps': [project(op, s, side) for s in r['steps']]}
    if 'attrs' in r and 'panic' not in r:
        return {'attrs': strip_schema(r['attrs'])}
    out = {}
    for k in ('panic', 'diags', 'tf', 'obj', 'hooks', 'stuck', 'modelError', 'harnessError', 'error', 'file', 'package', 'funcs', 'failed', 'fail'):
        if k in r:
            out[k] = r[k]
    return out

def first_diff(a, b, path=''):
    if type(a) != type(b):
        return f'{path}: {json.dumps(a)[:200]} vs {json.dumps(b)[:200]}'
    if isinstance(a, dict):
        for k in sorted(set(a) | set(b)):
            if k not in a: return f'{path}.{k}: missing in impl; model has {json.dumps(b[k])[:200]}'
            if k not in b: return f'{path}.{k}: missing in model; impl has {json.dumps(a[k])[:200]}'
            d = first_diff(a[k], b[k], path + '.' + k)
            if d: return d
        return None
    if isinstance(a, list):
        if len(a) != len(b): return f'{path}: length {len(a)} vs {len(b)}: {json.dumps(a)[:300]} vs {json.dumps(b)[:300]}'
        for i, (x, y) in enumerate(zip(a, b)):
            d = first_diff(x, y, f'{path}[{i}]')
            if d: return d
        return None
    if a != b:
        return f'{path}: {json.dumps(a)[:200]} vs {json.dumps(b)[:200]}'
    return None

def compare(ops_path, impl_path, model_path):
    ops = [json.loads(l) for l in open(ops_path) if l.strip()]
    impl = [json.loads(l) for l in open(impl_path) if l.strip()]
    model = [json.loads(l) for l in open(model_path) if l.strip()]
    res = []
    if not (len(ops) == len(impl) == len(model)):
        res.append({'id': 0, 'tag': 'lines', 'diff': f'line counts differ: ops={len(ops)} impl={len(impl)} model={len(model)}'})
        return res, ops, impl, model
    for op, i, m in zip(ops, impl, model):
        d = first_diff(project(op, i, 'impl'), project(op, m, 'model'))
        if d:
            res.append({'id': op.get('id'), 'tag': op.get('tag'), 'type': op.get('type'), 'diff': d})
    return res, ops, impl, model

if __name__ == '__main__':
    res, ops, impl, model = compare(*sys.argv[1:4])
    import collections
    c = collections.Counter(r['tag'] for r in res)
    print(f'{len(ops)} ops, {len(res)} disagreements', dict(c))
    for r in res[:int(sys.argv[4]) if len(sys.argv) > 4 else 10]:
        print(r)
