#!/bin/bash
# usage: seedtest.sh <seed-id> <worktree> <check ids...>
# 1. confirms build + existing tests pass with the patch in the worktree; 2. stores the seed under /verif/seeded/<id>;
# 3. applies the patch to /repo, runs the given checks (quick), undoes the patch.
set -u
ID=$1; WT=$2; shift 2
export GOFLAGS=-mod=mod GOPROXY=off GOSUMDB=off GOTOOLCHAIN=local
D=/verif/seeded/$ID
mkdir -p $D
cp -r $WT/_seed/. $D/ 2>/dev/null
( cd $WT && go build ./... && go test -vet=off -count=1 ./... ) > $D/build_and_tests.log 2>&1
echo "build+tests with patch: rc=$?" | tee $D/confirm.txt
cd /repo && git status --short | grep -v '^??' && { echo "/repo not clean"; exit 2; }
git -C /repo apply $D/patch.diff || { echo "patch does not apply to /repo"; exit 2; }
cd /verif
for c in "$@"; do
  ./check $c quick > $D/check_$c.log 2>&1
  echo "check $c: rc=$? $(grep -c '^VIOLATION' $D/check_$c.log) violation line(s)" | tee -a $D/confirm.txt
  grep '^VIOLATION' $D/check_$c.log | head -3
  for r in $(grep '^VIOLATION' $D/check_$c.log | sed 's/.*replay=\([^ ]*\).*/\1/' | head -2); do cp $r $D/ 2>/dev/null; done
done
git -C /repo checkout -- .
# the evidence written while the patch was applied describes the patched tree: restore the committed files
git -C /verif checkout -- evidence/ lean/PGT/Generated 2>/dev/null
git -C /repo status --short | grep -v '^??'
echo "undone"
