#!/usr/bin/env python3
"""Builds /verif/corpus/sink.json: a fixed descriptor + configuration that contains every template of the
generator in every position (the shape-coverage matrix of DESIGN §5.4 as one deterministic case). It runs as an
additional batch of every check, so that a defect which needs a particular shape does not depend on what the random
generator happens to draw. Committed output; re-run only when the matrix is extended."""
import json, os

V = os.path.dirname(os.path.dirname(os.path.abspath(__file__)))
_num = [0]


def fld(name, typ, **kw):
    _num[0] += 1
    d = {"name": name, "number": _num[0], "type": typ, "typeName": "", "card": "single", "mapKey": "", "nullable": "", "embed": False,
         "jsonTag": None, "castType": "", "customType": "", "stdTime": False, "stdDuration": False, "oneof": -1, "comment": None}
    d.update(kw)
    return d


def msg(name, fields, oneofs=(), comment=None):
    _num[0] = 0
    return {"name": name, "comment": comment, "oneofs": list(oneofs), "fields": fields}


def m(name, typ, **kw):
    return fld(name, "message", typeName=typ, **kw)


SCALARS = ["double", "float", "int32", "int64", "uint32", "uint64", "sint32", "sint64", "fixed32", "fixed64", "sfixed32", "sfixed64",
           "bool", "string", "bytes"]

msgs = []

_num[0] = 0
msgs.append(msg("Empty", []))

_num[0] = 0
msgs.append(msg("Leaf", [
    fld("Str", "string", comment=" Str is a string\n with two lines\n"),
    fld("Num", "int32"),
    fld("Data", "bytes"),
    fld("Flag", "bool"),
    fld("En", "enum", typeName="EnumOne"),
    fld("u_big", "uint64", jsonTag=",omitempty"),
    fld("Items", "string", card="repeated"),
]))

# embedded by pointer: scalars (two and more), list, map, message, time, custom
_num[0] = 0
msgs.append(msg("Emb", [
    fld("EmbStr", "string", comment=" the package of the embedded thing\n"),
    fld("EmbNum", "int64"),
    fld("EmbFlag", "bool"),
    fld("EmbEn", "enum", typeName="EnumTwo"),
    fld("EmbList", "string", card="repeated"),
    fld("EmbMap", "string", card="map", mapKey="string"),
    m("EmbLeaf", "Leaf"),
    m("EmbLeafV", "Leaf", nullable="false"),
    m("EmbLeaves", "Leaf", card="repeated"),
    fld("EmbTime", "timestamp", stdTime=True),
    fld("EmbCustom", "string", customType="StrCustomA", nullable="false"),
    # a message without fields held by value / by pointer inside the nullable embedded message (F15)
    m("EmbEmptyV", "Empty", nullable="false"),
    m("EmbEmptyP", "Empty"),
]))

# embedded by value, with a oneof
_num[0] = 0
msgs.append(msg("EmbV", [
    fld("VStr", "string"),
    fld("VNum", "sint32"),
    fld("VA", "string", oneof=0),
    m("VB", "Leaf", oneof=0),
    fld("VList", "int64", card="repeated"),
    # a second and a third group: the embedding message receives several oneofs by promotion
    fld("VX", "bool", oneof=1),
    fld("VY", "uint32", oneof=1),
    fld("VP", "string", oneof=2),
    fld("VQ", "double", oneof=2),
], oneofs=["VChoice", "v_other", "VThird"]))

# by-value embedding inside by-value embedding: the oneof of the innermost message is promoted twice
_num[0] = 0
msgs.append(msg("EmbInner", [
    fld("InStr", "string"),
    fld("InA", "string", oneof=0),
    m("InB", "Leaf", oneof=0),
    fld("InC", "enum", typeName="EnumTwo", oneof=0),
], oneofs=["inner_choice"]))
_num[0] = 0
msgs.append(msg("EmbOuter", [
    fld("OutStr", "string"),
    m("InnerPart", "EmbInner", embed=True, nullable="false"),
]))

# a message that embeds a message without fields
_num[0] = 0
msgs.append(msg("HasEmptyEmbed", [
    fld("Title", "string"),
    m("EmptyPart", "Empty", embed=True, nullable="false"),
]))

# a message whose ONLY field is an embedded message without fields: nothing but the placeholder to copy (F16)
_num[0] = 0
msgs.append(msg("OnlyEmb", [
    m("EmptyOnly", "Empty", embed=True, nullable="false"),
]))

_num[0] = 0
msgs.append(msg("Inner", [
    fld("Name", "string", comment=" Name of the inner\r\n with CRLF\r\n"),
    fld("IA", "string", oneof=0),
    fld("IB", "int64", oneof=0),
    m("IC", "Leaf", oneof=0),
    m("IE", "Empty", oneof=0),
    fld("IEn", "enum", typeName="EnumOne", oneof=0),
    fld("Leaves", "message", typeName="Leaf", card="map", mapKey="string"),
    fld("LeavesV", "message", typeName="Leaf", card="map", mapKey="string", nullable="false"),
    m("LeafList", "Leaf", card="repeated"),
    m("LeafListV", "Leaf", card="repeated", nullable="false"),
    m("EmbPart", "Emb", embed=True),
    fld("When", "timestamp", stdTime=True),
    fld("Whens", "timestamp", stdTime=True, card="repeated"),
    # maps of std time / duration values (pointer values by default, by value with nullable=false)
    fld("WhenMap", "timestamp", stdTime=True, card="map", mapKey="string"),
    fld("DurMap", "duration", stdDuration=True, card="map", mapKey="string"),
    fld("WhenMapV", "timestamp", stdTime=True, card="map", mapKey="string", nullable="false"),
    fld("Tags", "string", card="map", mapKey="string"),
    fld("Secret", "string"),
], oneofs=["inner_choice"]))

_num[0] = 0
sink_fields = []
for s in SCALARS:
    sink_fields.append(fld("S" + s.capitalize(), s))
for s in ["double", "float", "int32", "uint64", "sfixed64", "bool", "string", "bytes", "fixed32"]:
    sink_fields.append(fld("L" + s.capitalize(), s, card="repeated"))
for s in ["double", "int32", "uint32", "bool", "string", "bytes", "sint64"]:
    sink_fields.append(fld("M" + s.capitalize(), s, card="map", mapKey="string"))
sink_fields += [
    fld("SEnum", "enum", typeName="EnumOne"),
    fld("LEnum", "enum", typeName="EnumOne", card="repeated"),
    fld("MEnum", "enum", typeName="EnumTwo", card="map", mapKey="string"),
    fld("CastS", "string", castType="CastStr"),
    fld("CastI", "int32", castType="CastI32"),
    fld("CastU", "uint64", castType="CastU64", card="repeated"),
    fld("CastF", "float", castType="CastF32"),
    fld("CastB", "bytes", castType="CastBytes"),
    fld("TimeV", "timestamp", stdTime=True, nullable="false"),
    fld("TimeP", "timestamp", stdTime=True),
    fld("TimesP", "timestamp", stdTime=True, card="repeated"),
    fld("TimesV", "timestamp", stdTime=True, card="repeated", nullable="false"),
    fld("DurV", "duration", stdDuration=True, nullable="false"),
    fld("DurP", "duration", stdDuration=True),
    fld("DurI", "int64", stdDuration=True),
    fld("DursI", "int64", stdDuration=True, card="repeated"),
    fld("DurC", "int64", castType="Duration"),
    fld("DursC", "int64", castType="Duration", card="repeated"),
    # cast types whose names END with the custom duration type's name: ordinary casts, not durations
    fld("IsoC", "string", castType="ISODuration"),
    fld("MaxC", "int64", castType="MaxDuration"),
    m("InnerP", "Inner", comment=" nested by pointer\n"),
    m("InnerV", "Inner", nullable="false"),
    m("Inners", "Inner", card="repeated"),
    m("InnersV", "Inner", card="repeated", nullable="false"),
    fld("InnerMap", "message", typeName="Inner", card="map", mapKey="string"),
    fld("InnerMapV", "message", typeName="Inner", card="map", mapKey="string", nullable="false"),
    m("EmptyP", "Empty"),
    m("EmptyV", "Empty", nullable="false"),
    m("Empties", "Empty", card="repeated"),
    m("EmptiesV", "Empty", card="repeated", nullable="false"),
    fld("EmptyMap", "message", typeName="Empty", card="map", mapKey="string"),
    fld("EmptyMapV", "message", typeName="Empty", card="map", mapKey="string", nullable="false"),
    m("WithEmptyEmbed", "HasEmptyEmbed"),
    m("OnlyP", "OnlyEmb"),
    m("OnlyV", "OnlyEmb", nullable="false"),
    m("Onlys", "OnlyEmb", card="repeated"),
    m("OnlysV", "OnlyEmb", card="repeated", nullable="false"),
    fld("OnlyMap", "message", typeName="OnlyEmb", card="map", mapKey="string"),
    fld("OnlyMapV", "message", typeName="OnlyEmb", card="map", mapKey="string", nullable="false"),
    fld("OA", "string", oneof=0),
    fld("OB", "bool", oneof=0),
    m("OC", "Inner", oneof=0),
    m("OE", "Empty", oneof=0),
    fld("PA", "bytes", oneof=1),
    fld("PB", "double", oneof=1),
    # own fields whose names sort between the names of the children of the embedded messages (declared before them)
    fld("EmbMiddle", "string"),
    fld("VMid", "int64"),
    # the proto name of an embedded field starts with a lower-case letter: it adds no path segment whatever it looks like
    m("emb_ptr", "Emb", embed=True),
    m("EmbVal", "EmbV", embed=True, nullable="false", jsonTag=""),
    m("OuterPart", "EmbOuter", embed=True, nullable="false"),
    fld("CustomA", "string", customType="StrCustomA", nullable="false"),
    fld("CustomB", "string", customType="StrCustomB", card="repeated"),
    fld("CfgCustom", "string"),
    # a configuration-made custom type whose name is a type expression: the suffixes key is the whole expression
    fld("CfgCustomExpr", "string"),
    # a configuration-made custom type with a package path and no suffixes entry of its own: the default suffix is the name
    # without / and . ; suffixes entries for the tails of the name are other names and do not apply
    fld("CfgCustomPath", "string"),
    # ... and with underscores in package and type name: the default suffix keeps them (only / and . are removed)
    fld("CfgCustomUnd", "string"),
    # two fields whose names differ only in letter case (distinct Go names, distinct attribute names): sorting is by the exact name
    fld("SubKind", "string", comment=" ends with a non-breaking space\u00a0\n second line\u3000\n\u2003third line\u2028\n\u0085fourth\f\n\vfifth\n"),
    fld("Subkind", "int64"),
    # casts to predeclared types: plain `int` / `uint` are never qualified with the struct package
    fld("PlainInt", "int64", castType="int"),
    fld("PlainUints", "uint64", castType="uint", card="repeated"),
    fld("json_named", "string", jsonTag="renamed,omitempty"),
    fld("JsonDash", "string", jsonTag="-"),
    # tag names are used as they are written (no snake-casing): lowerCamel, a dash, a space and an upper-case letter
    fld("JsonCamel", "string", jsonTag="kubeCluster,omitempty"),
    fld("JsonWithDash", "int64", jsonTag="max-age"),
    fld("JsonSpace", "string", card="repeated", jsonTag="Node Labels"),
    fld("subpackage", "string", comment=" import and package words\n"),
    # lower_snake names with a digit at the end of a segment / a one-letter segment: the attribute name is the proto name
    fld("s3_bucket", "string"),
    fld("ipv4_prefix", "uint32", card="repeated"),
    fld("x_axis", "double"),
    fld("Excluded", "string"),
    # messages declared in a dependency file that has a Go package of its own (qualified struct types, import_path_overrides)
    m("Label", "DepLabel"),
    m("LabelV", "DepLabel", nullable="false"),
    m("Labels", "DepLabel", card="repeated"),
    fld("LabelMap", "message", typeName="DepLabel", card="map", mapKey="string"),
]
msgs.append(msg("Sink", sink_fields, oneofs=["first_choice", "SecondChoice"], comment=" Sink holds everything\n"))

_num[0] = 0
msgs.append(msg("Wrap", [
    # (a comment on the FIRST field of the LAST message: with the declarations reversed it sits at the indices of the dependency
    # message's first field - comment look-ups must not cross files)
    fld("Id", "string", comment=" identifier of the wrapper\n"),
    m("S", "Sink"),
    m("SV", "Inner", nullable="false"),
    fld("ByName", "message", typeName="Inner", card="map", mapKey="string"),
    m("List", "Inner", card="repeated"),
]))

# a dependency file with a Go package of its own
_num[0] = 0
DEP_FILE = {"name": "dep/dep.proto", "package": "dep", "goPackage": "dpkg", "enums": [],
            "messages": [msg("DepLabel", [
                fld("Key", "string", comment=" key of the label\n"),
                fld("Value", "int64"),
                fld("Note", "string"),
                fld("Tags", "string", card="repeated"),
                fld("DA", "string", oneof=0),
                fld("DB", "sint64", oneof=0),
            ], oneofs=["DepChoice"], comment=" a label from another package\n")]}


case = {
    "request": {"deps": [DEP_FILE], "file": {"name": "api/v1/x.proto", "package": "tpkg", "packageComment": " This package holds every shape of the\n package tpkg\n",
                                     "enums": [{"name": "EnumOne", "values": [0, 1, 2, -1, 2147483647]}, {"name": "EnumTwo", "values": [0, 5]}],
                                     "messages": msgs}},
    "yaml": {
        "types": ["Sink", "Wrap", "Inner", "Empty"],
        "durationCustomType": "Duration",
        "sort": False,
        "useStateForUnknownByDefault": True,
        "excludeFields": ["Sink.Excluded", "Sink.PB", "Inner.IB", "Wrap.S.InnerP.Secret", "Inner.EmbFlag", "DepLabel.Note"],
        "requiredFields": ["Sink.SString", "Wrap.ByName.Name", "Leaf.Num", "DepLabel.Key"],
        "computedFields": ["Sink.SInt32", "Sink.InnerP.Name", "Wrap.S.Inners.LeafList.Str", "Sink.CustomA", "Emb.EmbNum", "Sink.EmbStr"],
        "sensitiveFields": ["Inner.Secret", "Wrap.S.InnerMap.Leaves.Data", "Sink.CustomB", "DepLabel.Value"],
        "nameOverrides": [{"k": "Sink.InnerP.Name", "v": "inner_p_name"}, {"k": "Leaf.Flag", "v": "leaf_flag_o"},
                          {"k": "Wrap.List.LeavesV.Str", "v": "deep_str"}, {"k": "Sink.EmbNum", "v": "emb_num_o"},
                          {"k": "DepLabel.Key", "v": "id"},
                          # decoys: a key qualified with the package name is another key and addresses nothing
                          {"k": "spkg.Sink.InnerP.Name", "v": "decoy_qualified"}, {"k": "tpkg.Leaf.Flag", "v": "decoy_qualified2"}],
        "validators": [{"k": "Sink.SString", "v": ["verifharness/tfx.UseMockValidator()"]},
                       {"k": "Wrap.S.InnerV.LeafListV.Num", "v": ["verifharness/tfx.UseMockValidator()", "verifharness/tfx.UseOtherValidator()"]},
                       {"k": "Sink.CustomB", "v": ["verifharness/tfx.UseMockValidator()"]},
                       # both key forms for one field with different lists: the full path is the more specific entry
                       {"k": "Leaf.Str", "v": ["verifharness/tfx.UseMockValidator()"]},
                       {"k": "spkg.Sink.SString", "v": ["verifharness/tfx.UseOtherValidator()"]},
                       {"k": "Wrap.S.Inners.LeafList.Str", "v": ["verifharness/tfx.UseOtherValidator()", "verifharness/tfx.UseMockValidator()"]}],
        "planModifiers": [{"k": "Sink.SInt64", "v": ["github.com/hashicorp/terraform-plugin-framework/tfsdk.RequiresReplace()"]},
                          {"k": "Inner.Name", "v": ["github.com/hashicorp/terraform-plugin-framework/tfsdk.RequiresReplace()",
                                                     "github.com/hashicorp/terraform-plugin-framework/tfsdk.UseStateForUnknown()"]},
                          {"k": "Sink.CustomA", "v": ["github.com/hashicorp/terraform-plugin-framework/tfsdk.RequiresReplace()"]},
                          {"k": "Sink.InnerP.Name", "v": ["github.com/hashicorp/terraform-plugin-framework/tfsdk.UseStateForUnknown()"]}],
        # decoys: overrides for PREFIXES of imported package paths are other keys and do not apply
        "importPathOverrides": [{"k": "github.com/hashicorp", "v": "example.com/decoy1"},
                                {"k": "github.com/hashicorp/terraform-plugin-framework", "v": "example.com/decoy2"},
                                {"k": "verifharness", "v": "example.com/decoy3"}],
        "customTypes": [{"k": "Sink.CfgCustom", "v": "CfgCustomC"}, {"k": "Sink.CfgCustomExpr", "v": "[]CfgCustomD"},
                        {"k": "Sink.CfgCustomPath", "v": "example.com/lib/wrappers.CfgCustomP"},
                        {"k": "Sink.CfgCustomUnd", "v": "example.com/lib/api_types.Cfg_CustomU"}],
        "suffixes": [{"k": "CfgCustomC", "v": "SfxCfgCustomC"}, {"k": "StrCustomB", "v": "SfxStrCustomB"},
                     {"k": "[]CfgCustomD", "v": "SfxCfgCustomDList"}, {"k": "CfgCustomD", "v": "SfxWrongElement"},
                     {"k": "CfgCustomP", "v": "SfxTailOne"}, {"k": "wrappers.CfgCustomP", "v": "SfxTailTwo"}],
        "injectedFields": [{"k": "Sink", "v": [{"name": "injected_id", "type": "github.com/hashicorp/terraform-plugin-framework/types.StringType",
                                                 "computed": True, "optional": False, "required": False,
                                                 "planModifiers": ["github.com/hashicorp/terraform-plugin-framework/tfsdk.UseStateForUnknown()"], "validators": []}]},
                           {"k": "Wrap.S.InnerP", "v": [{"name": "injected_deep", "type": "github.com/hashicorp/terraform-plugin-framework/types.Int64Type",
                                                          "computed": False, "optional": True, "required": False, "planModifiers": [], "validators": []}]}],
        "timeType": {"type": "verifharness/tfx.TimeType", "valueType": "verifharness/tfx.TimeValue", "castToType": "time.Time",
                     "castFromType": "time.Time", "typeConstructor": "verifharness/tfx.UseRFC3339Time()"},
        "durationType": {"type": "verifharness/tfx.DurationType", "valueType": "verifharness/tfx.DurationValue", "castToType": "time.Duration",
                         "castFromType": "time.Duration"},
    },
    "yamlState": "ok", "cli": []}

meta = {"Roots": ["Sink", "Wrap", "Inner", "Empty"], "Injected": ["injected_deep", "injected_id"], "OneofGroups": None,
        "Hooks": [{"Suffix": "StrCustomA", "GoType": "StrCustomA", "Repeated": False},
                  {"Suffix": "SfxStrCustomB", "GoType": "[]StrCustomB", "Repeated": True},
                  {"Suffix": "SfxCfgCustomC", "GoType": "string", "Repeated": False},
                  {"Suffix": "SfxCfgCustomDList", "GoType": "string", "Repeated": False},
                  {"Suffix": "examplecomlibwrappersCfgCustomP", "GoType": "string", "Repeated": False},
                  {"Suffix": "examplecomlibapi_typesCfg_CustomU", "GoType": "string", "Repeated": False}],
        "CustomTys": ["StrCustomA", "StrCustomB"]}

os.makedirs(f'{V}/corpus', exist_ok=True)
json.dump({"what": "kitchen sink: every template in every position (deterministic shape coverage)", "case": case, "meta": meta},
          open(f'{V}/corpus/sink.json', 'w'), indent=1)
print('messages', len(msgs), 'sink fields', len(sink_fields))
