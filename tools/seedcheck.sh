#!/bin/bash
# usage: seedcheck.sh <seed-id> <check ids...>   (re-runs checks against a stored seeded defect; /repo is restored afterwards)
set -u
ID=$1; shift
D=/verif/seeded/$ID
cd /repo && git status --short | grep -v '^??' && { echo "/repo not clean"; exit 2; }
git -C /repo apply $D/patch.diff || { echo "patch does not apply to /repo"; exit 2; }
cd /verif
for c in "$@"; do
  ./check $c quick > $D/check_$c.log 2>&1
  echo "check $c: rc=$? $(grep -c '^VIOLATION' $D/check_$c.log) violation line(s), $(grep '^VIOLATION' $D/check_$c.log | grep -vc no-failing-input-found) with input" | tee -a $D/recheck.txt
done
git -C /repo checkout -- .
# the evidence written while the patch was applied describes the patched tree: restore the committed files
git -C /verif checkout -- evidence/ lean/PGT/Generated 2>/dev/null
git -C /repo status --short | grep -v '^??'
