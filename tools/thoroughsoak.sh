#!/bin/bash
# Thorough tier of every check on the UNCHANGED tree, on a repository snapshot (vp run --with-repo). Any VIOLATION line is a
# false alarm (or a new genuine defect) and must be looked at.
set -u
V="$(cd "$(dirname "$0")/.." && pwd)"
: "${VERIF_REPO:=${VP_RUN_REPO:-}}"
[ -n "$VERIF_REPO" ] && [ "$VERIF_REPO" != "/repo" ] || { echo "VERIF_REPO must name a snapshot"; exit 2; }
export VERIF_REPO
[ -x "$V/harness/work/pgtharness" ] || "$V/setup.sh" > "$V/setup.log" 2>&1
cd "$V"
for i in ${@:-01 02 03 04 05 06 07 08 09 10 11 12 13 14 15 16 17 18 19 20}; do
  ./check C$i thorough > /tmp/thsoak_$i.log 2>&1; rc=$?
  echo "C$i thorough rc=$rc $(grep -c '^VIOLATION' /tmp/thsoak_$i.log) violations; $(tail -1 /tmp/thsoak_$i.log)"
  grep '^VIOLATION' /tmp/thsoak_$i.log | head -3
  for r in $(grep '^VIOLATION' /tmp/thsoak_$i.log | sed 's/.*replay=\([^ ]*\).*/\1/' | head -2); do echo "   $(head -c 800 $r | tr '\n' ' ')"; done
done
