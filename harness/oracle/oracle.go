// Package oracle is an independent reading of the documented schema rules (README, property texts C02 / C10 / C11),
// written against the abstract descriptor and configuration only – it shares no code with the plugin or the Lean model.
// It predicts, for every attribute of every selected type: name, flags, description, validator / plan-modifier tokens.
package oracle

import (
	"strings"

	"github.com/stoewer/go-strcase"

	"verifharness/desc"
)

// Attr is the expectation for one schema attribute.
type Attr struct {
	Req   bool             `json:"req"`
	Opt   bool             `json:"opt"`
	Comp  bool             `json:"comp"`
	Sens  bool             `json:"sens"`
	Desc  string           `json:"desc"`
	Val   []string         `json:"val"`
	Pm    []string         `json:"pm"`
	Nest  string           `json:"nest"`
	// Ty: the attribute type by the documented table (README "type mapping"; nil for nested objects and custom types)
	Ty    interface{}      `json:"ty"`
	Attrs map[string]*Attr `json:"attrs"`
	// Injected / placeholder attributes have rules of their own
	Kind string `json:"kind"`
}

var tokens = map[string]string{
	"verifharness/tfx.UseMockValidator()":                                        "mock",
	"verifharness/tfx.UseOtherValidator()":                                       "other",
	"github.com/hashicorp/terraform-plugin-framework/tfsdk.UseStateForUnknown()": "USFU",
	"github.com/hashicorp/terraform-plugin-framework/tfsdk.RequiresReplace()":    "RR",
}

func tok(l []string) []string {
	out := []string{}
	for _, s := range l {
		if t, ok := tokens[s]; ok {
			out = append(out, t)
		} else {
			out = append(out, s)
		}
	}
	return out
}

func has(l []string, keys ...string) bool {
	for _, x := range l {
		for _, k := range keys {
			if x == k {
				return true
			}
		}
	}
	return false
}

func lookupKVs(l []desc.KVs, path, typeName string) ([]string, bool) {
	for _, key := range []string{path, typeName} {
		for _, kv := range l {
			if kv.K == key {
				return kv.V, true
			}
		}
	}
	return nil, false
}

// Flatten: "the field's leading proto comment flattened to one trimmed line".
func Flatten(c *string) string {
	if c == nil {
		return ""
	}
	lines := strings.Split(*c, "\n")
	for i := range lines {
		lines[i] = strings.TrimSpace(lines[i])
	}
	// leading / trailing blank lines disappear with the final trim; inner ones stay as separators
	return strings.TrimSpace(strings.Join(lines, " "))
}

// Name is the documented naming rule.
func Name(cfg *desc.Config, path, typeName string, f *desc.Field) string {
	for _, key := range []string{path, typeName} {
		for _, kv := range cfg.NameOverrides {
			if kv.K == key {
				return kv.V
			}
		}
	}
	if f.JSONTag != nil {
		j := strings.Split(*f.JSONTag, ",")[0]
		if j != "-" && j != "" {
			return j
		}
	}
	return strcase.SnakeCase(f.Name)
}

type walker struct {
	req *desc.Request
	cfg *desc.Config
}

func (w *walker) message(m *desc.Message, path string, depth int) map[string]*Attr {
	out := map[string]*Attr{}
	if depth > 8 {
		return out
	}
	if len(m.Fields) == 0 {
		out["active"] = &Attr{Opt: true, Comp: true, Desc: "Automatically generated field preventing empty message errors", Val: []string{}, Pm: []string{}, Nest: "none", Kind: "placeholder"}
	}
	for i := range m.Fields {
		f := &m.Fields[i]
		typeName := m.Name + "." + f.Name
		if f.Embed {
			// the embedded message's fields belong to the embedding message: the path does not grow
			// (the embedding field itself is addressed by its Message.Field key or by the path of its message)
			if has(w.cfg.ExcludeFields, typeName, path) {
				continue
			}
			if sub := w.req.FindMessage(f.TypeName); sub != nil {
				for k, v := range w.message(sub, path, depth+1) {
					out[k] = v
				}
			}
			continue
		}
		p := path + "." + f.Name
		if has(w.cfg.ExcludeFields, p, typeName) {
			continue
		}
		a := &Attr{Val: []string{}, Pm: []string{}, Nest: "none", Kind: "field"}
		a.Req = has(w.cfg.RequiredFields, p, typeName)
		a.Opt = !a.Req
		a.Comp = has(w.cfg.ComputedFields, p, typeName)
		a.Sens = has(w.cfg.SensitiveFields, p, typeName)
		a.Desc = Flatten(f.Comment)
		if v, ok := lookupKVs(w.cfg.Validators, p, typeName); ok {
			a.Val = tok(v)
		}
		if v, ok := lookupKVs(w.cfg.PlanModifiers, p, typeName); ok {
			a.Pm = tok(v)
		} else if w.cfg.UseStateForUnknownByDefault && a.Comp {
			a.Pm = []string{"USFU"}
		}
		custom := f.CustomType != ""
		for _, kv := range w.cfg.CustomTypes {
			if kv.K == p {
				custom = true
			}
		}
		if !custom && f.Type != "message" {
			a.Ty = w.tableType(f)
		}
		if custom {
			a.Kind = "custom"
		} else if f.Type == "message" {
			switch f.Card {
			case "single":
				a.Nest = "single"
			case "repeated":
				a.Nest = "list"
			case "map":
				a.Nest = "map"
			}
			if sub := w.req.FindMessage(f.TypeName); sub != nil {
				a.Attrs = w.message(sub, p, depth+1)
				for _, e := range w.cfg.InjectedFields {
					if e.K == p {
						for _, inj := range e.V {
							a.Attrs[inj.Name] = &Attr{Req: inj.Required, Opt: inj.Optional, Comp: inj.Computed, Val: tok(inj.Validators), Pm: tok(inj.PlanModifiers), Nest: "none", Kind: "injected"}
						}
					}
				}
			}
		}
		out[Name(w.cfg, p, typeName, f)] = a
	}
	return out
}

// Schemas predicts the attribute tree of every selected root type.
func Schemas(c *desc.Case, roots []string) map[string]map[string]*Attr {
	cfg := c.Yaml
	if cfg == nil {
		cfg = &desc.Config{}
	}
	w := &walker{req: &c.Request, cfg: cfg}
	out := map[string]map[string]*Attr{}
	for _, r := range roots {
		m := c.Request.FindMessage(r)
		if m == nil {
			continue
		}
		t := w.message(m, r, 0)
		for _, e := range cfg.InjectedFields {
			if e.K == r {
				for _, inj := range e.V {
					t[inj.Name] = &Attr{Req: inj.Required, Opt: inj.Optional, Comp: inj.Computed, Val: tok(inj.Validators), Pm: tok(inj.PlanModifiers), Nest: "none", Kind: "injected"}
				}
			}
		}
		out[r] = t
	}
	return out
}

// tableType is the documented type table: integers and enums -> Int64, float / double -> Float64, bool -> Bool, string and
// bytes -> String, time and duration -> the configured types (the configured constructor when there is one, else the bare type
// literal), repeated -> List of the element type, string-keyed map -> Map of the element type.
func (w *walker) tableType(f *desc.Field) interface{} {
	var elem interface{}
	switch {
	case f.Type == "timestamp":
		elem = "Time{}"
		if w.cfg.TimeType != nil && w.cfg.TimeType.TypeConstructor != "" {
			elem = "Time"
		}
	case f.Type == "duration" || (w.cfg.DurationCustomType != "" && f.CastType == w.cfg.DurationCustomType) || f.StdDuration:
		elem = "Duration"
	case f.Type == "enum":
		elem = "Int64"
	case f.Type == "double" || f.Type == "float":
		elem = "Float64"
	case f.Type == "bool":
		elem = "Bool"
	case f.Type == "string" || f.Type == "bytes":
		elem = "String"
	default:
		elem = "Int64"
	}
	switch f.Card {
	case "repeated":
		return map[string]interface{}{"list": elem}
	case "map":
		return map[string]interface{}{"map": elem}
	}
	return elem
}
