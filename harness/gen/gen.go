// Package gen draws abstract descriptors and configurations of the supported fragment D
// (DESIGN.md §3) from one PRNG state.
package gen

import (
	"fmt"
	"sort"
	"strings"

	"github.com/stoewer/go-strcase"

	"verifharness/desc"
	"verifharness/driver"
)

// Options steers the descriptor generator.
type Options struct {
	NumLeaves, NumMids, NumRoots int
	// Shapes that the unchanged generator is known to mishandle (DESIGN §14); each can be switched off
	// so that batches containing them are quarantined.
	OneofInNullableEmbed bool // F10: does not compile
	OneofInValueEmbed    bool // F7
	EmptyAsElement       bool // F11: empty message as repeated element / map value / embedded / root: does not compile
	NullableEmbed        bool // F1/F2/F3 need values; shape itself compiles
	NestedEmbedOccurence bool // F9: message with an embed used below the root
	TwoOneofs            bool // F8 (sort order of oneof resets)
	Customs              bool
	SeparatePackage      string // default_package_name ("" = same package)
	TargetPackage        string
	Sort                 int // 0 random, 1 on, 2 off
	NoOptions            bool
	NoMapOfBytes         bool // F12 (fixed): map<string, bytes> did not compile
	NoTimeType           bool // C18: leave time_type / duration_type unset
	StructPkgName        string
}

// DefaultOptions enables every shape that compiles on the unchanged tree.
func DefaultOptions() Options {
	return Options{NumLeaves: 6, NumMids: 5, NumRoots: 4, OneofInValueEmbed: true, NullableEmbed: true, EmptyAsElement: true,
		NestedEmbedOccurence: true, TwoOneofs: true, Customs: true}
}

// Hook describes one set of custom-type hook functions the support file must define.
type Hook struct {
	Suffix   string
	GoType   string // type of the struct field, unqualified (e.g. "string", "StrCustomA", "[]StrCustomB")
	Repeated bool
}

// Meta is what the harness needs to know about a generated case besides the case itself.
type Meta struct {
	Roots    []string
	Injected []string
	// OneofGroups lists, for every occurrence of a oneof group below a root, the attribute names of its branches
	// (independent naming oracle: name_overrides, json tag, snake_case). Plans keep at most one of them non-null.
	OneofGroups [][]string
	Hooks       []Hook
	CustomTys   []string // named custom types to declare in the struct package
}

var msgWords = []string{"Alpha", "Bravo", "Charlie", "Delta", "Echo", "Foxtrot", "Golf", "Hotel", "India", "Juliet", "Kilo", "Lima",
	"Mike", "November", "Oscar", "Papa", "Quebec", "Romeo", "Sierra", "Tango", "Uniform", "Victor", "Whiskey", "Xray", "Yankee", "Zulu"}
var fieldWords = []string{"apple", "bread", "cherry", "dough", "eggs", "flour", "grape", "honey", "icing", "jam", "kale", "lemon",
	"mango", "nut", "olive", "pear", "quince", "rice", "salt", "tea", "udon", "vanilla", "wheat", "yam", "zest", "id", "url", "ttl", "ip", "x",
	"subpackage", "import", "typed"}

var commentPool = []string{
	" Simple comment\n",
	" First line\n second line\n",
	"   indented first\n     more indented   \n\n after blank\n",
	" CRLF line one\r\n CRLF line two\r\n",
	"\n\n leading newlines\n",
	" quotes \" and ` and \\ backslash\n",
	" unicode ü 日本 \U0001F600\n",
	"\ttab\tseparated\t\n",
	" trailing spaces   \n",
	"",
	" \n \n",
	" a\n\n\n b\n",
	" non breaking and   em space \n",
	// Unicode white space next to the interior line breaks (every line is trimmed with unicode.IsSpace)
	" ends with a non-breaking space\u00a0\n the second line\n",
	" first\n\u3000indented with an ideographic space\n",
	" em space after\u2003\n\u2003and before, then a line separator\u2028\n\u0085next line mark\n",
	" form feed\f\n\vvertical tab\n",
}

type g struct {
	r                    *driver.Rng
	opt                  Options
	used                 map[string]bool // canonical keys of every identifier handed out
	cnt                  int
	meta                 *Meta
	cfg                  *desc.Config
	enums                []string
	hookBy               map[string]bool
	fieldNum             int32
	forceEmpty, hadEmpty bool
}

func canon(s string) string { return strings.ToLower(strings.ReplaceAll(s, "_", "")) }

func (x *g) pick(l []string) string { return l[x.r.Intn(len(l))] }

func title(s string) string { return strings.ToUpper(s[:1]) + s[1:] }

// fieldName returns a fresh field / oneof name in grammar U or L.
func (x *g) fieldName() string {
	for {
		n := 1 + x.r.Intn(3)
		ws := make([]string, n)
		for i := range ws {
			ws[i] = x.pick(fieldWords)
		}
		var name string
		switch x.r.Intn(6) {
		case 5: // lower_snake with a digit at the end of a segment or a one-letter segment (s3_bucket, ipv4_prefix, x_axis)
			ws[0] = ws[0] + fmt.Sprint(1+x.r.Intn(9))
			if x.r.P(30) {
				ws[0] = ws[0][:1]
			}
			if len(ws) == 1 {
				ws = append(ws, x.pick(fieldWords))
			}
			name = strings.Join(ws, "_")
		case 0, 1: // UpperCamel
			for _, w := range ws {
				name += title(w)
			}
		case 2: // lower_snake
			name = strings.Join(ws, "_")
		case 3: // UpperCamel with an acronym / digits
			name = title(ws[0])
			if x.r.P(50) {
				name = strings.ToUpper(ws[0])
			}
			for _, w := range ws[1:] {
				name += title(w)
			}
			if x.r.P(40) {
				name += fmt.Sprint(x.r.Intn(100))
			}
		default:
			name = title(ws[0])
			if len(ws) > 1 {
				name += fmt.Sprint(x.r.Intn(10)) + strings.ToUpper(ws[1][:1]) + ws[1][1:]
			}
		}
		k := canon(name)
		if x.used[k] || reservedField[k] {
			continue
		}
		x.used[k] = true
		return name
	}
}

var reservedField = map[string]bool{"reset": true, "string": true, "protomessage": true, "marshal": true, "unmarshal": true,
	"size": true, "descriptor": true, "extensionrangearray": true, "extensionmap": true, "equal": true, "active": true,
	"type": true, "func": true, "map": true}

func (x *g) attrName(suffix string) string {
	for {
		n := x.pick(fieldWords) + "_" + x.pick(fieldWords) + suffix
		k := canon(n)
		if x.used[k] {
			continue
		}
		x.used[k] = true
		return n
	}
}

// oddTag returns a fresh json tag name that snake-casing would change (the tag is documented to be used as it is written)
func (x *g) oddTag(style int) string {
	for {
		a, b := x.pick(fieldWords), x.pick(fieldWords)
		n := a + title(b)
		switch style {
		case 1:
			n = a + "-" + b
		case 2:
			n = title(a) + " " + b
		}
		k := canon(strings.NewReplacer("-", "", " ", "").Replace(n))
		if x.used[k] {
			continue
		}
		x.used[k] = true
		return n
	}
}

func (x *g) msgName() string {
	for {
		name := x.pick(msgWords)
		if x.r.P(50) {
			name += x.pick(msgWords)
		}
		if x.r.P(30) {
			name += fmt.Sprint(x.r.Intn(9) + 1)
		}
		k := canon(name)
		if x.used[k] {
			continue
		}
		x.used[k] = true
		return name
	}
}

func (x *g) comment() *string {
	if x.r.P(25) {
		return nil
	}
	c := commentPool[x.r.Intn(len(commentPool))]
	return &c
}

type msgInfo struct {
	name       string
	empty      bool
	hasEmbed   bool
	embeddable bool
	hasOneof   bool
}

func (x *g) num() int32 { x.fieldNum++; return x.fieldNum }

func (x *g) scalarField(oneof int) desc.Field {
	f := desc.Field{Name: x.fieldName(), Number: x.num(), Card: "single", Oneof: oneof, Comment: x.comment()}
	f.Type = desc.Scalars[x.r.Intn(len(desc.Scalars))]
	if x.r.P(15) {
		f.Type = "enum"
		f.TypeName = x.pick(x.enums)
	}
	if oneof < 0 && x.r.P(25) {
		f.Card = "repeated"
	}
	if f.Type != "enum" && x.r.P(15) {
		f.CastType = castTypeFor(f.Type)
		// a cast type whose name ends with the name of the custom duration type is a cast like any other
		if x.r.P(20) && f.Type == "string" {
			f.CastType = "ISODuration"
		} else if x.r.P(15) && f.Type == "int64" {
			f.CastType = "MaxDuration"
		}
		// a cast to a PREDECLARED type: plain `int` / `uint` (never qualified with the struct package)
		if x.r.P(25) && (f.Type == "int64" || f.Type == "sint64" || f.Type == "sfixed64") {
			f.CastType = "int"
		} else if x.r.P(25) && (f.Type == "uint64" || f.Type == "fixed64") {
			f.CastType = "uint"
		}
	}
	x.decorate(&f)
	return f
}

func castTypeFor(scalar string) string {
	switch scalar {
	case "double":
		return "CastF64"
	case "float":
		return "CastF32"
	case "int32", "sint32", "sfixed32":
		return "CastI32"
	case "int64", "sint64", "sfixed64":
		return "CastI64"
	case "uint32", "fixed32":
		return "CastU32"
	case "uint64", "fixed64":
		return "CastU64"
	case "bool":
		return "CastBool"
	case "string":
		return "CastStr"
	case "bytes":
		return "CastBytes"
	}
	return ""
}

func (x *g) decorate(f *desc.Field) {
	if x.r.P(25) {
		var t string
		switch x.r.Intn(12) {
		case 9: // a tag name is taken verbatim: lowerCamel
			t = x.oddTag(0)
		case 10: // ... with a dash
			t = x.oddTag(1) + ",omitempty"
		case 11: // ... with a space and an upper-case letter
			t = x.oddTag(2)
		case 0:
			t = ""
		case 1:
			t = "-"
		case 2:
			t = x.attrName("_t") + ",omitempty"
		case 3:
			t = "-,omitempty"
		case 4: // empty name part followed by options: the name falls back to snake_case
			t = ",omitempty"
		case 5:
			t = ",string,omitempty"
		case 6:
			t = x.attrName("_t") + ",omitempty,string"
		default:
			t = x.attrName("_t")
		}
		f.JSONTag = &t
	}
}

func (x *g) temporalField(oneof int) desc.Field {
	f := desc.Field{Name: x.fieldName(), Number: x.num(), Card: "single", Oneof: -1, Comment: x.comment()}
	switch x.r.Intn(6) {
	case 0: // time by value
		f.Type, f.StdTime, f.Nullable = "timestamp", true, "false"
	case 1: // *time.Time
		f.Type, f.StdTime = "timestamp", true
	case 2: // []*time.Time or []time.Time
		f.Type, f.StdTime, f.Card = "timestamp", true, "repeated"
		if x.r.P(50) {
			f.Nullable = "false"
		}
	case 3: // time.Duration by value / pointer
		f.Type, f.StdDuration = "duration", true
		if x.r.P(60) {
			f.Nullable = "false"
		}
	case 4: // int64 with stdduration
		f.Type, f.StdDuration = "int64", true
		if x.r.P(30) {
			f.Card = "repeated"
		}
	default: // custom duration cast type
		f.Type, f.CastType = "int64", "Duration"
		if x.r.P(30) {
			f.Card = "repeated"
		}
	}
	x.decorate(&f)
	return f
}

func (x *g) mapField(vals []msgInfo) desc.Field {
	f := desc.Field{Name: x.fieldName(), Number: x.num(), Card: "map", MapKey: "string", Oneof: -1, Comment: x.comment()}
	cands := x.nonEmpty(vals)
	switch {
	case len(cands) > 0 && x.r.P(45):
		f.Type, f.TypeName = "message", cands[x.r.Intn(len(cands))].name
		if x.r.P(50) {
			f.Nullable = "false"
		}
	case x.r.P(15):
		f.Type, f.TypeName = "enum", x.pick(x.enums)
	case x.r.P(10):
		// map of std time / std duration values (map[string]*time.Time, by value with nullable=false)
		if x.r.P(50) {
			f.Type, f.StdTime = "timestamp", true
		} else {
			f.Type, f.StdDuration = "duration", true
		}
		if x.r.P(40) {
			f.Nullable = "false"
		}
	default:
		f.Type = desc.Scalars[x.r.Intn(len(desc.Scalars))]
		for f.Type == "bytes" && x.opt.NoMapOfBytes {
			f.Type = desc.Scalars[x.r.Intn(len(desc.Scalars))]
		}
	}
	x.decorate(&f)
	return f
}

func (x *g) nonEmpty(l []msgInfo) []msgInfo {
	if x.opt.EmptyAsElement {
		return l
	}
	var r []msgInfo
	for _, m := range l {
		if !m.empty {
			r = append(r, m)
		}
	}
	return r
}

func (x *g) msgField(vals []msgInfo, oneof int) (desc.Field, bool) {
	f := desc.Field{Name: x.fieldName(), Number: x.num(), Card: "single", Oneof: oneof, Comment: x.comment(), Type: "message"}
	cands := vals
	if !x.opt.NestedEmbedOccurence {
		cands = nil
		for _, m := range vals {
			if !m.hasEmbed {
				cands = append(cands, m)
			}
		}
	}
	if len(cands) == 0 {
		return f, false
	}
	m := cands[x.r.Intn(len(cands))]
	f.TypeName = m.name
	if oneof < 0 {
		if x.r.P(35) && (!m.empty || x.opt.EmptyAsElement) {
			f.Card = "repeated"
		}
		if m.empty && x.opt.EmptyAsElement && x.r.P(40) {
			f.Card = "repeated"
		}
		if x.r.P(50) {
			f.Nullable = "false"
		}
	}
	x.decorate(&f)
	return f, true
}

func (x *g) customField() desc.Field {
	f := desc.Field{Name: x.fieldName(), Number: x.num(), Card: "single", Oneof: -1, Comment: x.comment(), Type: "string"}
	kind := x.r.Intn(3)
	withSuffix := x.r.P(50)
	switch kind {
	case 0: // gogoproto.customtype, singular, by value
		f.CustomType, f.Nullable = "StrCustomA", "false"
		x.addHook("StrCustomA", "StrCustomA", false, withSuffix, true)
	case 1: // gogoproto.customtype, repeated
		f.CustomType, f.Card = "StrCustomB", "repeated"
		x.addHook("StrCustomB", "[]StrCustomB", true, withSuffix, true)
	default: // custom_types configuration entry, added by the caller (needs the path)
		f.Comment = x.comment()
	}
	x.decorate(&f)
	return f
}

func (x *g) addHook(typeName, goType string, repeated, withSuffix, named bool) {
	if x.hookBy[typeName] {
		return
	}
	x.hookBy[typeName] = true
	suffix := strings.ReplaceAll(strings.ReplaceAll(typeName, "/", ""), ".", "")
	if withSuffix {
		suffix = "Sfx" + typeName
		if strings.ContainsAny(typeName, "[]*") {
			// a custom type given as a type expression ([]T, *T, map[string]T): the whole expression is the suffixes key
			suffix = "Sfx" + strings.NewReplacer("[", "", "]", "", "*", "").Replace(typeName) + "Expr"
		}
		x.cfg.Suffixes = append(x.cfg.Suffixes, desc.KV{K: typeName, V: suffix})
	}
	x.meta.Hooks = append(x.meta.Hooks, Hook{Suffix: suffix, GoType: goType, Repeated: repeated})
	if named {
		x.meta.CustomTys = append(x.meta.CustomTys, typeName)
	}
}

// genMessage draws one message whose message-typed fields refer to lower.
func (x *g) genMessage(name string, lower []msgInfo, embeddables []msgInfo, level int) (desc.Message, msgInfo) {
	m := desc.Message{Name: name, Comment: x.comment(), Oneofs: []string{}, Fields: []desc.Field{}}
	info := msgInfo{name: name}
	x.fieldNum = 0
	if level == 0 && (x.r.P(12) || (x.forceEmpty && !x.hadEmpty)) {
		info.empty = true
		x.hadEmpty = true
		return m, info
	}
	n := 1 + x.r.Intn(7)
	for i := 0; i < n; i++ {
		switch k := x.r.Intn(100); {
		case k < 38:
			m.Fields = append(m.Fields, x.scalarField(-1))
		case k < 50:
			m.Fields = append(m.Fields, x.temporalField(-1))
		case k < 62:
			m.Fields = append(m.Fields, x.mapField(lower))
		case k < 82 && len(lower) > 0:
			if f, ok := x.msgField(lower, -1); ok {
				m.Fields = append(m.Fields, f)
			}
		case k < 88 && x.opt.Customs && level > 0:
			m.Fields = append(m.Fields, x.customField())
		default:
			m.Fields = append(m.Fields, x.scalarField(-1))
		}
	}
	// oneof groups
	ng := 0
	if x.r.P(40) {
		ng = 1
		if x.opt.TwoOneofs && x.r.P(35) {
			ng = 2
		}
	}
	for gi := 0; gi < ng; gi++ {
		m.Oneofs = append(m.Oneofs, x.fieldName())
		nb := 1 + x.r.Intn(3)
		for b := 0; b < nb; b++ {
			// an empty message as a branch (the oneof-with-empty-message shape of test.proto) now and then
			if empties := emptyOnly(lower); len(empties) > 0 && x.r.P(30) {
				if f, ok := x.msgField(empties, gi); ok {
					f.Nullable = ""
					m.Fields = append(m.Fields, f)
					continue
				}
			}
			if len(lower) > 0 && x.r.P(40) {
				if f, ok := x.msgField(lower, gi); ok {
					f.Nullable = ""
					m.Fields = append(m.Fields, f)
					continue
				}
			}
			f := x.scalarField(gi)
			f.Card = "single"
			f.CastType = ""
			m.Fields = append(m.Fields, f)
		}
	}
	info.hasOneof = ng > 0
	// embedded messages
	if level > 0 && len(embeddables) > 0 && x.r.P(35) {
		e := embeddables[x.r.Intn(len(embeddables))]
		f := desc.Field{Name: x.fieldName(), Number: x.num(), Card: "single", Oneof: -1, Type: "message", TypeName: e.name, Embed: true, Comment: x.comment()}
		if x.opt.NullableEmbed && x.r.P(50) && (!e.hasOneof || x.opt.OneofInNullableEmbed) {
			f.Nullable = ""
		} else {
			f.Nullable = "false"
		}
		if x.r.P(50) {
			t := ""
			f.JSONTag = &t
		}
		m.Fields = append(m.Fields, f)
		info.hasEmbed = true
	} else if empties := emptyOnly(lower); level > 0 && x.opt.EmptyAsElement && len(empties) > 0 && x.r.P(12) {
		// an embedded message without fields: its placeholder attribute lands in the embedding message
		e := empties[x.r.Intn(len(empties))]
		f := desc.Field{Name: x.fieldName(), Number: x.num(), Card: "single", Oneof: -1, Type: "message", TypeName: e.name, Embed: true, Comment: x.comment()}
		if x.opt.NullableEmbed && x.r.P(50) {
			f.Nullable = ""
		} else {
			f.Nullable = "false"
		}
		m.Fields = append(m.Fields, f)
		info.hasEmbed = true
	}
	// shuffle declaration order a little (oneof members need not be contiguous in descriptors, but protoc keeps them so)
	return m, info
}

// GenCase draws a request and configuration.
func GenCase(r *driver.Rng, opt Options) (*desc.Case, *Meta) {
	x := &g{r: r, opt: opt, used: map[string]bool{}, meta: &Meta{}, cfg: &desc.Config{}, hookBy: map[string]bool{}}
	x.forceEmpty = r.P(60)
	pkg := opt.StructPkgName
	if pkg == "" {
		pkg = "tpkg"
	}
	file := desc.File{Name: "x.proto", Package: pkg}
	// the proto file may live in a sub-directory or carry a version in its base name: its Go import path is then not "."
	// (api/v1/x.proto -> api/v1/x_terraform.go); root messages are still selected by their bare names
	if r.P(35) {
		file.Name = []string{"api/v1/x.proto", "sub/x.proto", "x.v1.proto", "api/x_y.proto"}[r.Intn(4)]
	}
	if r.P(40) {
		// (the last form ends a comment line with the very text of the package clause)
		pc := []string{" This package holds the messages of the service\n", " Messages.\n second line of the package comment\n", " types\n",
			" Declarations of the\n package " + pkg + "\n"}[r.Intn(4)]
		file.PackageComment = &pc
	}
	file.Enums = []desc.Enum{{Name: "EnumOne", Values: []int32{0, 1, 2, -1, 2147483647}}, {Name: "EnumTwo", Values: []int32{0, 5}}}
	x.enums = []string{"EnumOne", "EnumTwo"}
	for _, e := range x.enums {
		x.used[canon(e)] = true
	}
	// embeddable messages: scalar / temporal / (object, list, map) children, optionally oneofs
	var embeddables, leaves, mids, roots []msgInfo
	nEmb := 2
	for i := 0; i < opt.NumLeaves; i++ {
		m, info := x.genMessage(x.msgName(), nil, nil, 0)
		file.Messages = append(file.Messages, m)
		leaves = append(leaves, info)
	}
	// a message declared in a dependency file with a Go package of its own (plain scalar fields, optionally a oneof group):
	// its struct type, and the wrapper types of its oneof, are qualified with that package in the generated code
	var depFiles []desc.File
	if x.r.P(40) {
		dm := desc.Message{Name: x.msgName(), Comment: x.comment(), Oneofs: []string{}, Fields: []desc.Field{}}
		x.fieldNum = 0
		plain := []string{"string", "int64", "uint32", "bool", "double", "bytes", "sint32"}
		for k := 0; k < 2+x.r.Intn(3); k++ {
			f := desc.Field{Name: x.fieldName(), Number: x.num(), Card: "single", Oneof: -1, Comment: x.comment(), Type: plain[x.r.Intn(len(plain))]}
			if x.r.P(25) {
				f.Card = "repeated"
			}
			dm.Fields = append(dm.Fields, f)
		}
		if x.r.P(50) {
			dm.Oneofs = append(dm.Oneofs, x.fieldName())
			for k := 0; k < 2; k++ {
				dm.Fields = append(dm.Fields, desc.Field{Name: x.fieldName(), Number: x.num(), Card: "single", Oneof: 0, Type: plain[x.r.Intn(4)]})
			}
		}
		depFiles = append(depFiles, desc.File{Name: "dep/dep.proto", Package: "dep", GoPackage: "dpkg", Messages: []desc.Message{dm}, Enums: []desc.Enum{}})
		leaves = append(leaves, msgInfo{name: dm.Name, hasOneof: len(dm.Oneofs) > 0})
	}
	for i := 0; i < nEmb; i++ {
		name := x.msgName()
		m, info := x.genMessage(name, leaves, nil, 0)
		if len(m.Fields) == 0 {
			f := x.scalarField(-1)
			f.Card = "single"
			m.Fields = append(m.Fields, f)
			info.empty = false
		}
		info.embeddable = true
		file.Messages = append(file.Messages, m)
		embeddables = append(embeddables, info)
	}
	for i := 0; i < opt.NumMids; i++ {
		m, info := x.genMessage(x.msgName(), leaves, x.embOK(&file, embeddables), 1)
		file.Messages = append(file.Messages, m)
		mids = append(mids, info)
	}
	for i := 0; i < opt.NumRoots; i++ {
		lower := append(append([]msgInfo{}, leaves...), mids...)
		m, info := x.genMessage(x.msgName(), lower, x.embOK(&file, embeddables), 2)
		if len(m.Fields) == 0 {
			m.Fields = append(m.Fields, x.scalarField(-1))
		}
		file.Messages = append(file.Messages, m)
		roots = append(roots, info)
	}
	// declaration order of messages is arbitrary in proto files
	x.shuffleMessages(&file)
	if depFiles == nil {
		depFiles = []desc.File{}
	}
	c := &desc.Case{Request: desc.Request{File: file, Deps: depFiles}, YamlState: "ok", Cli: []desc.KV{}}
	cfg := x.cfg
	for _, m := range roots {
		cfg.Types = append(cfg.Types, m.name)
		x.meta.Roots = append(x.meta.Roots, m.name)
	}
	if empties := emptyOnly(leaves); opt.EmptyAsElement && len(empties) > 0 && x.r.P(35) { // a message without fields selected as a root type
		cfg.Types = append(cfg.Types, empties[0].name)
		x.meta.Roots = append(x.meta.Roots, empties[0].name)
	}
	if x.r.P(30) && len(mids) > 0 { // a mid-level message selected as a root type as well
		m := mids[x.r.Intn(len(mids))]
		cfg.Types = append(cfg.Types, m.name)
		x.meta.Roots = append(x.meta.Roots, m.name)
	}
	if !opt.NoTimeType {
		cfg.TimeType = &desc.SchemaType{Type: "verifharness/tfx.TimeType", ValueType: "verifharness/tfx.TimeValue", CastToType: "time.Time",
			CastFromType: "time.Time", TypeConstructor: "verifharness/tfx.UseRFC3339Time()"}
		cfg.DurationType = &desc.SchemaType{Type: "verifharness/tfx.DurationType", ValueType: "verifharness/tfx.DurationValue",
			CastToType: "time.Duration", CastFromType: "time.Duration"}
	}
	cfg.DurationCustomType = "Duration"
	switch opt.Sort {
	case 0:
		cfg.Sort = x.r.P(50)
	case 1:
		cfg.Sort = true
	}
	cfg.DefaultPackageName = opt.SeparatePackage
	cfg.TargetPackageName = opt.TargetPackage
	if !opt.NoOptions {
		x.fieldOptions(c, cfg)
	}
	c.Yaml = cfg
	x.meta.OneofGroups = OneofGroups(c, x.meta.Roots)
	return c, x.meta
}

// AttrName is the documented naming rule (README "Schema field naming"): name_overrides entry (full path, then
// Message.Field), else the first element of the json tag (unless "-" or empty), else snake_case of the proto name.
func AttrName(cfg *desc.Config, path, typeName string, f *desc.Field) string {
	for _, key := range []string{path, typeName} {
		for _, kv := range cfg.NameOverrides {
			if kv.K == key {
				return kv.V
			}
		}
	}
	if f.JSONTag != nil {
		j := strings.Split(*f.JSONTag, ",")[0]
		if j != "-" && j != "" {
			return j
		}
	}
	return strcase.SnakeCase(f.Name)
}

// OneofGroups computes the attribute-name groups of all oneof occurrences.
func OneofGroups(c *desc.Case, roots []string) [][]string {
	cfg := c.Yaml
	if cfg == nil {
		cfg = &desc.Config{}
	}
	seen := map[string]bool{}
	var out [][]string
	byGroup := map[string][]string{}
	var order []string
	for _, o := range occurrences(&c.Request, roots) {
		if o.f.Oneof < 0 {
			continue
		}
		parent := o.path[:strings.LastIndex(o.path, ".")]
		k := parent + "#" + o.msg.Name + "#" + fmt.Sprint(o.f.Oneof)
		if _, ok := byGroup[k]; !ok {
			order = append(order, k)
		}
		byGroup[k] = append(byGroup[k], AttrName(cfg, o.path, o.typeName, o.f))
	}
	for _, k := range order {
		g := byGroup[k]
		sort.Strings(g)
		key := strings.Join(g, ",")
		if !seen[key] && len(g) > 1 {
			seen[key] = true
			out = append(out, g)
		}
	}
	return out
}

func emptyOnly(l []msgInfo) []msgInfo {
	var r []msgInfo
	for _, m := range l {
		if m.empty {
			r = append(r, m)
		}
	}
	return r
}

func (x *g) nonEmptyOnly(l []msgInfo) []msgInfo {
	var r []msgInfo
	for _, m := range l {
		if !m.empty {
			r = append(r, m)
		}
	}
	return r
}

// embOK filters embeddable messages by the shape switches (oneof inside an embedded message).
func (x *g) embOK(f *desc.File, embs []msgInfo) []msgInfo {
	var r []msgInfo
	for _, e := range embs {
		var m *desc.Message
		for i := range f.Messages {
			if f.Messages[i].Name == e.name {
				m = &f.Messages[i]
			}
		}
		if len(m.Oneofs) > 0 && !x.opt.OneofInValueEmbed && !x.opt.OneofInNullableEmbed {
			continue
		}
		r = append(r, e)
	}
	return r
}

func (x *g) shuffleMessages(f *desc.File) {
	ms := f.Messages
	for i := len(ms) - 1; i > 0; i-- {
		j := x.r.Intn(i + 1)
		ms[i], ms[j] = ms[j], ms[i]
	}
}

// occurrence is one field occurrence below a root, with its two option keys.
type occurrence struct {
	path, typeName string
	f              *desc.Field
	msg            *desc.Message
	underEmbed     bool
}

// occurrences lists field occurrences below the roots with the path rule the README documents
// (Root.Field.SubField; fields of embedded messages appear under the embedding message's path).
func occurrences(req *desc.Request, roots []string) []occurrence {
	var out []occurrence
	var walk func(m *desc.Message, path string, depth int, underEmbed bool)
	walk = func(m *desc.Message, path string, depth int, underEmbed bool) {
		if depth > 6 {
			return
		}
		for i := range m.Fields {
			f := &m.Fields[i]
			p := path + "." + f.Name
			if f.Embed {
				if sub := req.FindMessage(f.TypeName); sub != nil {
					walk(sub, path, depth+1, true)
				}
				continue
			}
			out = append(out, occurrence{path: p, typeName: m.Name + "." + f.Name, f: f, msg: m, underEmbed: underEmbed})
			if f.Type == "message" {
				if sub := req.FindMessage(f.TypeName); sub != nil {
					walk(sub, p, depth+1, false)
				}
			}
		}
	}
	for _, r := range roots {
		if m := req.FindMessage(r); m != nil {
			walk(m, r, 0, false)
		}
	}
	return out
}

var validatorPool = []string{"verifharness/tfx.UseMockValidator()", "verifharness/tfx.UseOtherValidator()"}
var planModPool = []string{"github.com/hashicorp/terraform-plugin-framework/tfsdk.UseStateForUnknown()",
	"github.com/hashicorp/terraform-plugin-framework/tfsdk.RequiresReplace()"}

func (x *g) fieldOptions(c *desc.Case, cfg *desc.Config) {
	occ := occurrences(&c.Request, x.meta.Roots)
	if len(occ) == 0 {
		return
	}
	key := func(o occurrence) string {
		if x.r.P(50) {
			return o.path
		}
		return o.typeName
	}
	pickSome := func(pct int) []string {
		set := map[string]bool{}
		for _, o := range occ {
			if x.r.P(pct) {
				set[key(o)] = true
			}
		}
		l := make([]string, 0, len(set))
		for k := range set {
			l = append(l, k)
		}
		sort.Strings(l)
		// configuration order is arbitrary
		for i := len(l) - 1; i > 0; i-- {
			j := x.r.Intn(i + 1)
			l[i], l[j] = l[j], l[i]
		}
		return l
	}
	cfg.RequiredFields = pickSome(8)
	cfg.ComputedFields = pickSome(12)
	cfg.SensitiveFields = pickSome(6)
	cfg.UseStateForUnknownByDefault = x.r.P(50)
	// exclusions: never all fields of a message, never embedded-message children by path ambiguity
	byMsg := map[string]int{}
	for _, o := range occ {
		byMsg[o.msg.Name]++
	}
	excl := map[string]bool{}
	exclByMsg := map[string]map[string]bool{}
	for _, o := range occ {
		if !x.r.P(6) || o.f.Oneof >= 0 {
			continue
		}
		if exclByMsg[o.msg.Name] == nil {
			exclByMsg[o.msg.Name] = map[string]bool{}
		}
		if len(exclByMsg[o.msg.Name])+1 >= len(o.msg.Fields) {
			continue
		}
		exclByMsg[o.msg.Name][o.f.Name] = true
		excl[o.typeName] = true // by Message.Field so that "at least one field stays" is decidable per message
	}
	for k := range excl {
		cfg.ExcludeFields = append(cfg.ExcludeFields, k)
	}
	sort.Strings(cfg.ExcludeFields)
	for _, o := range occ {
		if x.r.P(7) {
			cfg.NameOverrides = append(cfg.NameOverrides, desc.KV{K: key(o), V: x.attrName("_o")})
		}
		if x.r.P(6) {
			n := 1 + x.r.Intn(2)
			cfg.Validators = append(cfg.Validators, desc.KVs{K: key(o), V: append([]string{}, validatorPool[:n]...)})
		}
		if x.r.P(6) {
			n := 1 + x.r.Intn(2)
			l := append([]string{}, planModPool[:n]...)
			if x.r.P(50) && n == 2 {
				l[0], l[1] = l[1], l[0]
			}
			cfg.PlanModifiers = append(cfg.PlanModifiers, desc.KVs{K: key(o), V: l})
		}
	}
	// directed: a field of a message type that is reached through several paths gets options keyed by the full path
	// of ONE of its occurrences (the other occurrences must stay as they are)
	{
		byType := map[string][]occurrence{}
		var tkeys []string
		for _, o := range occ {
			if _, ok := byType[o.typeName]; !ok {
				tkeys = append(tkeys, o.typeName)
			}
			byType[o.typeName] = append(byType[o.typeName], o)
		}
		n := 0
		for _, k := range tkeys {
			l := byType[k]
			if len(l) < 2 || n >= 6 || excl[k] || !x.r.P(60) {
				continue
			}
			o := l[x.r.Intn(len(l))]
			switch n % 4 {
			case 0:
				cfg.NameOverrides = append(cfg.NameOverrides, desc.KV{K: o.path, V: x.attrName("_p")})
			case 1:
				cfg.ComputedFields = append(cfg.ComputedFields, o.path)
			case 2:
				cfg.Validators = append(cfg.Validators, desc.KVs{K: o.path, V: []string{validatorPool[1]}})
			default:
				cfg.SensitiveFields = append(cfg.SensitiveFields, o.path)
			}
			n++
		}
	}
	// directed: the children of an embedded message take options keyed by the path through the embedding message
	// (the embedded field itself adds no path segment, whatever its proto name looks like)
	{
		n := 0
		for _, o := range occ {
			if !o.underEmbed || n >= 3 || excl[o.typeName] || !x.r.P(50) {
				continue
			}
			switch n % 3 {
			case 0:
				cfg.NameOverrides = append(cfg.NameOverrides, desc.KV{K: o.path, V: x.attrName("_e")})
			case 1:
				cfg.ComputedFields = append(cfg.ComputedFields, o.path)
			default:
				cfg.SensitiveFields = append(cfg.SensitiveFields, o.path)
			}
			n++
		}
	}
	// custom_types entries for plain string fields drawn by customField (no gogo option): by full path
	var exclPaths []string
	for _, o := range occ {
		if excl[o.typeName] {
			exclPaths = append(exclPaths, o.path)
		}
	}
	visible := func(o occurrence) bool {
		for _, p := range exclPaths {
			if o.path == p || strings.HasPrefix(o.path, p+".") {
				return false
			}
		}
		return true
	}
	if x.opt.Customs {
		var cands []occurrence
		for _, o := range occ {
			if visible(o) && o.f.Type == "string" && o.f.Card == "single" && o.f.CustomType == "" && o.f.CastType == "" && o.f.Oneof < 0 && !o.underEmbed {
				cands = append(cands, o)
			}
		}
		for i := len(cands) - 1; i > 0; i-- {
			j := x.r.Intn(i + 1)
			cands[i], cands[j] = cands[j], cands[i]
		}
		n := x.r.Intn(3) // 0, 1 or 2 configuration-made custom types per case
		withSuffix := x.r.P(80)
		ctName := "CfgCustomC"
		if x.r.P(35) {
			// the name of a configuration-made custom type is free text: a type expression is a name like any other and is
			// looked up in suffixes as it is written (its default suffix would not be an identifier, so it always has an entry)
			ctName = []string{"[]CfgCustomC", "*CfgCustomC", "map[string]CfgCustomC"}[x.r.Intn(3)]
			withSuffix = true
		}
		for i := 0; i < n && i < len(cands); i++ {
			cfg.CustomTypes = append(cfg.CustomTypes, desc.KV{K: cands[i].path, V: ctName})
			x.addHook(ctName, "string", false, withSuffix, false)
		}
		cfg.CustomTypes = dedupKV(cfg.CustomTypes)
	}
	// custom-type fields take every flag / list as other fields do (C10 / C17): make the combination frequent
	isCustomOcc := func(o occurrence) bool {
		if o.f.CustomType != "" {
			return true
		}
		for _, kv := range cfg.CustomTypes {
			if kv.K == o.path {
				return true
			}
		}
		return false
	}
	for _, o := range occ {
		if !isCustomOcc(o) {
			continue
		}
		if x.r.P(50) {
			cfg.ComputedFields = append(cfg.ComputedFields, key(o))
		}
		if x.r.P(35) {
			cfg.PlanModifiers = append(cfg.PlanModifiers, desc.KVs{K: key(o), V: []string{planModPool[1]}})
		}
		if x.r.P(35) {
			cfg.Validators = append(cfg.Validators, desc.KVs{K: key(o), V: []string{validatorPool[0]}})
		}
		if x.r.P(30) {
			cfg.SensitiveFields = append(cfg.SensitiveFields, key(o))
		}
		if x.r.P(30) {
			cfg.RequiredFields = append(cfg.RequiredFields, key(o))
		}
	}
	// directed: BOTH key forms for one nested field, with different lists (the full path is the more specific entry and is
	// looked up first for validators / plan modifiers)
	{
		n := 0
		for _, o := range occ {
			if n >= 2 || o.path == o.typeName || excl[o.typeName] || isCustomOcc(o) || !x.r.P(25) {
				continue
			}
			cfg.Validators = append([]desc.KVs{{K: o.path, V: []string{validatorPool[1]}}, {K: o.typeName, V: []string{validatorPool[0]}}}, cfg.Validators...)
			cfg.PlanModifiers = append([]desc.KVs{{K: o.typeName, V: []string{planModPool[1]}}, {K: o.path, V: []string{planModPool[0], planModPool[1]}}}, cfg.PlanModifiers...)
			n++
		}
	}
	cfg.ComputedFields = dedupStr(cfg.ComputedFields)
	cfg.SensitiveFields = dedupStr(cfg.SensitiveFields)
	cfg.RequiredFields = dedupStr(cfg.RequiredFields)
	cfg.NameOverrides = dedupKV(cfg.NameOverrides)
	cfg.Validators = dedupKVs(cfg.Validators)
	cfg.PlanModifiers = dedupKVs(cfg.PlanModifiers)
	// injected fields: at roots and at some nested paths
	injNames := map[string]bool{}
	addInj := func(path string) {
		name := x.attrName("_inj")
		injNames[name] = true
		inj := desc.Injected{Name: name, Type: "github.com/hashicorp/terraform-plugin-framework/types.StringType", PlanModifiers: []string{}, Validators: []string{}}
		switch x.r.Intn(3) {
		case 0:
			inj.Computed = true
		case 1:
			inj.Optional = true
		default:
			inj.Required = true
		}
		if x.r.P(30) {
			inj.PlanModifiers = []string{planModPool[0]}
		}
		if x.r.P(30) {
			inj.Validators = []string{validatorPool[0]}
		}
		if x.r.P(30) {
			inj.Type = "github.com/hashicorp/terraform-plugin-framework/types.Int64Type"
		}
		for i := range cfg.InjectedFields {
			if cfg.InjectedFields[i].K == path {
				cfg.InjectedFields[i].V = append(cfg.InjectedFields[i].V, inj)
				return
			}
		}
		cfg.InjectedFields = append(cfg.InjectedFields, desc.KInj{K: path, V: []desc.Injected{inj}})
	}
	for _, rt := range x.meta.Roots {
		if x.r.P(40) {
			addInj(rt)
		}
	}
	for _, o := range occ {
		if o.f.Type == "message" && o.f.Card == "single" && !o.underEmbed && x.r.P(8) {
			addInj(o.path)
		}
	}
	for n := range injNames {
		x.meta.Injected = append(x.meta.Injected, n)
	}
	sort.Strings(x.meta.Injected)
}

func dedupKV(l []desc.KV) []desc.KV {
	seen := map[string]bool{}
	var r []desc.KV
	for _, e := range l {
		if !seen[e.K] {
			seen[e.K] = true
			r = append(r, e)
		}
	}
	return r
}

func dedupKVs(l []desc.KVs) []desc.KVs {
	seen := map[string]bool{}
	var r []desc.KVs
	for _, e := range l {
		if !seen[e.K] {
			seen[e.K] = true
			r = append(r, e)
		}
	}
	return r
}

func dedupStr(l []string) []string {
	seen := map[string]bool{}
	var r []string
	for _, e := range l {
		if !seen[e] {
			seen[e] = true
			r = append(r, e)
		}
	}
	return r
}
