// Package tfx provides the time / duration attribute types (a copy of /repo/test/time_duration.go),
// a validator pool and the call log used by the instrumented custom-type hooks.
package tfx

import (
	"context"
	"sync"

	"github.com/hashicorp/terraform-plugin-framework/tfsdk"
)

// MockValidator is a no-op validator.
type MockValidator struct{ Tag string }

// UseMockValidator returns a validator.
func UseMockValidator() tfsdk.AttributeValidator { return MockValidator{Tag: "mock"} }

// UseOtherValidator returns another validator.
func UseOtherValidator() tfsdk.AttributeValidator { return MockValidator{Tag: "other"} }

// Description returns validator description
func (v MockValidator) Description(_ context.Context) string { return "validator:" + v.Tag }

// MarkdownDescription returns validator markdown description
func (v MockValidator) MarkdownDescription(_ context.Context) string { return "validator:" + v.Tag }

// Validate performs the validation.
func (v MockValidator) Validate(_ context.Context, _ tfsdk.ValidateAttributeRequest, _ *tfsdk.ValidateAttributeResponse) {
}

var (
	hookMu  sync.Mutex
	hookLog []interface{}
)

// LogHook records one hook call.
func LogHook(s interface{}) {
	hookMu.Lock()
	hookLog = append(hookLog, s)
	hookMu.Unlock()
}

// TakeHookLog returns and clears the call log.
func TakeHookLog() []interface{} {
	hookMu.Lock()
	defer hookMu.Unlock()
	l := hookLog
	hookLog = nil
	return l
}
