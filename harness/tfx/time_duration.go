package tfx

import (
	"context"
	fmt "fmt"
	time "time"

	"github.com/hashicorp/terraform-plugin-framework/attr"
	tftypes "github.com/hashicorp/terraform-plugin-go/tftypes"
)

const (
	timeThreshold = time.Nanosecond
)

// TimeType represents time.Time Terraform type which is stored in RFC3339 format, nanoseconds truncated
type TimeType struct {
	attr.Type
	Format string
}

// UseRFC3339Time creates TimeType for rfc3339
func UseRFC3339Time() TimeType {
	return TimeType{Format: time.RFC3339}
}

// ApplyTerraform5AttributePathStep is not implemented for TimeType
func (t TimeType) ApplyTerraform5AttributePathStep(step tftypes.AttributePathStep) (interface{}, error) {
	return nil, fmt.Errorf("cannot apply AttributePathStep %T to %s", step, t.String())
}

// String returns string representation of TimeType
func (t TimeType) String() string {
	return "TimeType"
}

// Equal returns type equality
func (t TimeType) Equal(o attr.Type) bool {
	other, ok := o.(TimeType)
	if !ok {
		return false
	}
	return t == other
}

// TerraformType returns type which is used in Terraform status (time is stored as string)
func (t TimeType) TerraformType(_ context.Context) tftypes.Type {
	return tftypes.String
}

// ValueFromTerraform decodes terraform value and returns it as TimeType
func (t TimeType) ValueFromTerraform(ctx context.Context, in tftypes.Value) (attr.Value, error) {
	if !in.IsKnown() {
		return TimeValue{Unknown: true, Format: t.Format}, nil
	}
	if in.IsNull() {
		return TimeValue{Null: true, Format: t.Format}, nil
	}
	var raw string
	err := in.As(&raw)
	if err != nil {
		return nil, err
	}

	// Error is deliberately silenced here. If a value is corrupted, this would be caught in Validate() method which
	// for some reason is called after ValueFromTerraform().
	current, err := time.Parse(t.Format, raw)
	if err != nil {
		return nil, err
	}

	return TimeValue{Value: current, Format: t.Format}, nil
}

// TimeValue represents Terraform value of type TimeType
type TimeValue struct {
	// Unknown will be true if the value is not yet known.
	Unknown bool
	// Null will be true if the value was not set, or was explicitly set to
	// null.
	Null bool
	// Value contains the set value, as long as Unknown and Null are both
	// false.
	Value time.Time
	// Format time format
	Format string
}

// Type returns value type
func (t TimeValue) Type(_ context.Context) attr.Type {
	return TimeType{Format: t.Format}
}

// ToTerraformValue returns the data contained in the *String as a string. If
// Unknown is true, it returns a tftypes.UnknownValue. If Null is true, it
// returns nil.
func (t TimeValue) ToTerraformValue(_ context.Context) (tftypes.Value, error) {
	if t.Null {
		return tftypes.NewValue(tftypes.String, nil), nil
	}
	if t.Unknown {
		return tftypes.NewValue(tftypes.String, tftypes.UnknownValue), nil
	}

	return tftypes.NewValue(tftypes.String, t.Value.Truncate(timeThreshold).Format(t.Format)), nil
}

// Equal returns true if `other` is a *String and has the same value as `s`.
func (t TimeValue) Equal(other attr.Value) bool {
	o, ok := other.(TimeValue)
	if !ok {
		return false
	}
	if t.Unknown != o.Unknown {
		return false
	}
	if t.Null != o.Null {
		return false
	}
	return t.Value == o.Value
}

// IsNull returns true if receiver is null
func (t TimeValue) IsNull() bool {
	return t.Null
}

// IsUnknown returns true if receiver is unknown
func (t TimeValue) IsUnknown() bool {
	return t.Unknown
}

// String returns the string representation of the receiver
func (t TimeValue) String() string {
	if t.Unknown {
		return attr.UnknownValueString
	}

	if t.Null {
		return attr.NullValueString
	}

	return t.Value.String()
}

// DurationType represents time.Time Terraform type which is stored in RFC3339 format, nanoseconds truncated
type DurationType struct {
	attr.Type
}

// ApplyTerraform5AttributePathStep is not implemented for TimeType
func (t DurationType) ApplyTerraform5AttributePathStep(step tftypes.AttributePathStep) (interface{}, error) {
	return tftypes.Value{}, fmt.Errorf("cannot apply AttributePathStep %T to %s", step, t.String())
}

// String returns string representation of TimeType
func (t DurationType) String() string {
	return "DurationType"
}

// Equal returns type equality
func (t DurationType) Equal(o attr.Type) bool {
	other, ok := o.(DurationType)
	if !ok {
		return false
	}
	return t == other
}

// TerraformType returns type which is used in Terraform status (time is stored as string)
func (t DurationType) TerraformType(_ context.Context) tftypes.Type {
	return tftypes.String
}

// ValueFromTerraform decodes terraform value and returns it as TimeType
func (t DurationType) ValueFromTerraform(ctx context.Context, in tftypes.Value) (attr.Value, error) {
	if !in.IsKnown() {
		return DurationValue{Unknown: true}, nil
	}
	if in.IsNull() {
		return DurationValue{Null: true}, nil
	}
	var raw string
	err := in.As(&raw)
	if err != nil {
		return nil, err
	}

	// Error is deliberately silenced here. If a value is corrupted, this would be caught in Validate() method which
	// for some reason is called after ValueFromTerraform().
	current, err := time.ParseDuration(raw)
	if err != nil {
		return nil, err
	}

	return DurationValue{Value: current}, nil
}

// DurationValue represents Terraform value of type TimeType
type DurationValue struct {
	// Unknown will be true if the value is not yet known.
	Unknown bool
	// Null will be true if the value was not set, or was explicitly set to
	// null.
	Null bool
	// Value contains the set value, as long as Unknown and Null are both
	// false.
	Value time.Duration
}

// Type returns value type
func (t DurationValue) Type(_ context.Context) attr.Type {
	return TimeType{}
}

// ToTerraformValue returns the data contained in the *String as a string. If
// Unknown is true, it returns a tftypes.UnknownValue. If Null is true, it
// returns nil.
func (t DurationValue) ToTerraformValue(_ context.Context) (tftypes.Value, error) {
	if t.Null {
		return tftypes.NewValue(tftypes.String, nil), nil
	}
	if t.Unknown {
		return tftypes.NewValue(tftypes.String, tftypes.UnknownValue), nil
	}
	return tftypes.NewValue(tftypes.String, t.Value.String()), nil
}

// Equal returns true if `other` is a *String and has the same value as `s`.
func (t DurationValue) Equal(other attr.Value) bool {
	o, ok := other.(DurationValue)
	if !ok {
		return false
	}
	if t.Unknown != o.Unknown {
		return false
	}
	if t.Null != o.Null {
		return false
	}
	return t.Value == o.Value
}

// IsNull returns true if receiver is null
func (t DurationValue) IsNull() bool {
	return t.Null
}

// IsUnknown returns true if receiver is unknown
func (t DurationValue) IsUnknown() bool {
	return t.Unknown
}

// String returns the string representation of the receiver
func (t DurationValue) String() string {
	if t.Unknown {
		return attr.UnknownValueString
	}

	if t.Null {
		return attr.NullValueString
	}

	return t.Value.String()
}
