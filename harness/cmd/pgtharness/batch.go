package main

import (
	"encoding/json"
	"flag"
	"fmt"
	"io/ioutil"
	"os"
	"path/filepath"
	"strings"
	"time"

	"verifharness/desc"
	"verifharness/driver"
	"verifharness/gen"
	"verifharness/oracle"
	"verifharness/pipe"
	"verifharness/run"
	"verifharness/static"
)

func writeJSON(path string, v interface{}) {
	b, err := json.Marshal(v)
	if err != nil {
		panic(err)
	}
	if err := ioutil.WriteFile(path, b, 0o644); err != nil {
		panic(err)
	}
}

// pluginInfo is what the harness records about one process run of the plugin.
func pluginInfo(p *run.PluginResult, license string) map[string]interface{} {
	info := map[string]interface{}{"exit": p.Exit, "err": p.Err, "stderr": string(p.Stderr), "stdoutLen": len(p.Stdout), "stdoutSha": pipe.Sha(p.Stdout)}
	if p.Resp != nil {
		info["parsed"] = true
		info["nfiles"] = len(p.Resp.File)
		info["features"] = p.Resp.GetSupportedFeatures()
		info["respError"] = p.Resp.GetError()
		var names []string
		for _, f := range p.Resp.File {
			names = append(names, f.GetName())
		}
		info["files"] = names
		if len(p.Resp.File) == 1 {
			info["contentSha"] = pipe.Sha([]byte(p.Resp.File[0].GetContent()))
		}
	} else {
		info["parsed"] = false
	}
	return info
}

func readLicense() string {
	repo := os.Getenv("VERIF_REPO")
	if repo == "" {
		repo = "/repo"
	}
	b, _ := ioutil.ReadFile(repo + "/license.txt")
	return string(b)
}

// batchCmd: generate one case and run it through every stage.
func batchCmd(args []string) {
	fs := flag.NewFlagSet("batch", flag.ExitOnError)
	seed := fs.Uint64("seed", 1, "seed")
	index := fs.Int("index", 0, "batch index")
	work := fs.String("work", "", "batch directory (inside the harness module)")
	plugin := fs.String("plugin", "", "plugin binary")
	scale := fs.Int("scale", 1, "op volume")
	profile := fs.String("profile", "{}", "JSON overriding gen.Options")
	caseFile := fs.String("case", "", "use this case (JSON with case+meta) instead of generating one")
	noExec := fs.Bool("noexec", false, "stop after Stage A")
	opsFile := fs.String("ops", "", "execute these operations (ops.jsonl of another batch) instead of generating operations")
	fs.Parse(args)
	self, _ := os.Executable()
	t0 := time.Now()
	os.RemoveAll(*work)
	var c *desc.Case
	var m *gen.Meta
	if *caseFile != "" {
		var in struct {
			Case *desc.Case `json:"case"`
			Meta *gen.Meta  `json:"meta"`
		}
		b, err := ioutil.ReadFile(*caseFile)
		if err != nil {
			panic(err)
		}
		if err := json.Unmarshal(b, &in); err != nil {
			panic(err)
		}
		c, m = in.Case, in.Meta
		relocatePackage(c, *work)
		// a fixed case can still be run under the profiles (sort on / off, separate package)
		var opt gen.Options
		if err := json.Unmarshal([]byte(*profile), &opt); err != nil {
			panic(err)
		}
		if c.Yaml != nil {
			switch opt.Sort {
			case 1:
				c.Yaml.Sort = true
			case 2:
				c.Yaml.Sort = false
			}
			if opt.SeparatePackage == "auto" || opt.SeparatePackage == "override" {
				rel, _ := filepath.Rel(pipe.HarnessRoot, *work)
				c.Yaml.DefaultPackageName = "verifharness/" + filepath.ToSlash(rel) + "/spkg"
				c.Yaml.TargetPackageName = "tgt"
				if opt.TargetPackage != "" {
					// e.g. "spkg": the target package has the NAME of the last element of the struct package's path, in another directory
					c.Yaml.TargetPackageName = opt.TargetPackage
				}
				if opt.SeparatePackage == "override" {
					overridePackage(c)
				}
			}
		}
		if m.OneofGroups == nil {
			m.OneofGroups = gen.OneofGroups(c, m.Roots)
		}
	} else {
		opt := gen.DefaultOptions()
		if err := json.Unmarshal([]byte(*profile), &opt); err != nil {
			panic(err)
		}
		r := driver.NewRng(*seed*1000003 + uint64(*index)*65537 + 17)
		override := opt.SeparatePackage == "override"
		if opt.SeparatePackage == "auto" || override {
			rel, _ := filepath.Rel(pipe.HarnessRoot, *work)
			opt.SeparatePackage = "verifharness/" + filepath.ToSlash(rel) + "/spkg"
			if opt.TargetPackage == "" {
				opt.TargetPackage = "tgt"
			}
		}
		c, m = gen.GenCase(r, opt)
		if override && c.Yaml != nil {
			overridePackage(c)
		}
	}
	b, err := pipe.NewBatch(*work, c, m)
	if err != nil {
		panic(err)
	}
	writeJSON(filepath.Join(*work, "case.json"), c)
	writeJSON(filepath.Join(*work, "meta.json"), m)
	status := map[string]interface{}{"seed": *seed, "index": *index}
	defer func() {
		status["wall_s"] = time.Since(t0).Seconds()
		writeJSON(filepath.Join(*work, "status.json"), status)
	}()
	if err := b.RunGenerators(*plugin, self); err != nil {
		status["stage"] = "generators"
		status["error"] = err.Error()
		return
	}
	lic := readLicense()
	writeJSON(filepath.Join(*work, "plugin.json"), pluginInfo(b.Plugin, lic))
	if b.TfFile == "" {
		status["stage"] = "plugin"
		status["error"] = "no generated file"
		return
	}
	ioutil.WriteFile(filepath.Join(*work, "x_terraform.go.txt"), []byte(b.TfFile), 0o644)
	writeJSON(filepath.Join(*work, "static.json"), static.Parse(b.TfFile, lic))
	writeJSON(filepath.Join(*work, "oracle.json"), oracle.Schemas(c, rootsOf(c)))
	if *noExec {
		status["stage"] = "static"
		return
	}
	gsrc, err := run.RunGogo(self, desc.BuildRequest(&b.Case.Request, desc.WKTParam))
	if err != nil {
		status["stage"] = "gogo"
		status["error"] = err.Error()
		return
	}
	if err := b.WritePackage(gsrc); err != nil {
		panic(err)
	}
	// dependency files with a Go package of their own: their .pb.go goes into <dir>/<GoPackage>
	for _, d := range b.Case.Request.Deps {
		if d.GoPackage == "" {
			continue
		}
		dsrc, err := run.RunGogo(self, desc.BuildRequestFor(&b.Case.Request, desc.WKTParam, d.Name))
		if err != nil {
			status["stage"] = "gogo"
			status["error"] = "dependency " + d.Name + ": " + err.Error()
			return
		}
		ddir := filepath.Join(*work, d.GoPackage)
		os.MkdirAll(ddir, 0o755)
		ioutil.WriteFile(filepath.Join(ddir, strings.NewReplacer("/", "_", ".", "_").Replace(d.Name)+".pb.go"), []byte(dsrc), 0o644)
	}
	if err := b.Build(); err != nil {
		status["stage"] = "build"
		status["error"] = firstLines(b.BuildErr, 12)
		return
	}
	var ops []byte
	if *opsFile != "" {
		// the operations of another batch (same message types, e.g. the same descriptor with its declarations permuted)
		ops, err = ioutil.ReadFile(*opsFile)
	} else {
		ops, err = b.GenOps(*seed*31+uint64(*index), *scale)
	}
	if err != nil {
		status["stage"] = "genops"
		status["error"] = err.Error()
		return
	}
	ioutil.WriteFile(filepath.Join(*work, "ops.jsonl"), ops, 0o644)
	out, err := b.Exec(ops)
	ioutil.WriteFile(filepath.Join(*work, "impl.jsonl"), out, 0o644)
	if err != nil {
		status["stage"] = "exec"
		status["error"] = err.Error()
		return
	}
	status["stage"] = "done"
	// the binary and the package sources are no longer needed
	os.Remove(b.Bin)
}

func firstLines(s string, n int) string {
	l := strings.Split(s, "\n")
	if len(l) > n {
		l = l[:n]
	}
	return strings.Join(l, "\n")
}

// pluginOnly runs just the plugin on a case file and writes plugin.json / static.json next to it.
func pluginOnlyCmd(args []string) {
	fs := flag.NewFlagSet("plugin-only", flag.ExitOnError)
	work := fs.String("work", "", "directory")
	plugin := fs.String("plugin", "", "plugin binary")
	repeat := fs.Int("repeat", 1, "number of process runs (sha of every run recorded)")
	fs.Parse(args)
	self, _ := os.Executable()
	var c desc.Case
	b, err := ioutil.ReadFile(filepath.Join(*work, "case.json"))
	if err != nil {
		panic(err)
	}
	if err := json.Unmarshal(b, &c); err != nil {
		panic(err)
	}
	// a plugin-only run is never compiled: when the case does not say where the Go packages of its dependency files live, a fixed
	// import base is used, so that the text does not depend on the directory the variant happens to run in
	carried := map[string]bool{}
	if c.Yaml != nil {
		for _, kv := range c.Yaml.ImportPathOverrides {
			carried[kv.K] = true
		}
	}
	bt, err := pipe.NewBatch(*work, &c, &gen.Meta{})
	if err != nil {
		panic(err)
	}
	for _, d := range c.Request.Deps {
		if d.GoPackage != "" && !carried[d.GoPackage] {
			c.Request.ImportBase = "verifharness/variant"
			if c.Yaml != nil {
				for i := range c.Yaml.ImportPathOverrides {
					if c.Yaml.ImportPathOverrides[i].K == d.GoPackage {
						c.Yaml.ImportPathOverrides[i].V = "verifharness/variant/" + d.GoPackage
					}
				}
			}
		}
	}
	lic := readLicense()
	var shas []string
	for i := 0; i < *repeat; i++ {
		if err := bt.RunGenerators(*plugin, self); err != nil {
			panic(err)
		}
		shas = append(shas, pipe.Sha(bt.Plugin.Stdout))
	}
	info := pluginInfo(bt.Plugin, lic)
	info["runShas"] = shas
	writeJSON(filepath.Join(*work, "plugin.json"), info)
	if bt.TfFile != "" {
		ioutil.WriteFile(filepath.Join(*work, "x_terraform.go.txt"), []byte(bt.TfFile), 0o644)
		writeJSON(filepath.Join(*work, "static.json"), static.Parse(bt.TfFile, lic))
		writeJSON(filepath.Join(*work, "oracle.json"), oracle.Schemas(&c, rootsOf(&c)))
	}
	fmt.Println("ok")
}

// rootsOf: the selected types (command line over YAML, '+'-separated) that are messages of the file to generate.
func rootsOf(c *desc.Case) []string {
	var types []string
	if c.Yaml != nil {
		types = c.Yaml.Types
	}
	for _, kv := range c.Cli {
		if kv.K == "types" && strings.TrimSpace(kv.V) != "" {
			types = strings.Split(strings.TrimSpace(kv.V), "+")
		}
	}
	var out []string
	for _, t := range types {
		for _, m := range c.Request.File.Messages {
			if m.Name == t {
				out = append(out, t)
			}
		}
	}
	return out
}

// overridePackage names the struct package by its short name only and supplies the import path through
// import_path_overrides (README "import_path_overrides"; property C13 "honouring import_path_overrides").
func overridePackage(c *desc.Case) {
	full := c.Yaml.DefaultPackageName
	c.Yaml.DefaultPackageName = "spkg"
	c.Yaml.ImportPathOverrides = append(c.Yaml.ImportPathOverrides, desc.KV{K: "spkg", V: full})
}

// relocatePackage rewrites the struct-package import path of a recorded case (verifharness/<old batch dir>/spkg) to the
// directory the case is run in now, so that a replayed or shrunk separate-package case compiles where it is run.
func relocatePackage(c *desc.Case, work string) {
	rel, err := filepath.Rel(pipe.HarnessRoot, work)
	if err != nil {
		return
	}
	base := "verifharness/" + filepath.ToSlash(rel)
	fix := func(v string) string {
		for _, sub := range []string{"/spkg", "/dpkg"} {
			if strings.HasPrefix(v, "verifharness/") && strings.HasSuffix(v, sub) {
				return base + sub
			}
		}
		return v
	}
	if c.Yaml != nil {
		c.Yaml.DefaultPackageName = fix(c.Yaml.DefaultPackageName)
		for i := range c.Yaml.ImportPathOverrides {
			c.Yaml.ImportPathOverrides[i].V = fix(c.Yaml.ImportPathOverrides[i].V)
		}
	}
	for i := range c.Cli {
		c.Cli[i].V = fix(c.Cli[i].V)
	}
}
