package main

import (
	"encoding/json"
	"fmt"
	"os"

	plugin "github.com/gogo/protobuf/protoc-gen-gogo/plugin"
	"verifharness/extract"
	"verifharness/run"

	"verifharness/desc"
	"verifharness/pipe"
)

func dispatch(cmd string, args []string) bool {
	switch cmd {
	case "batch":
		batchCmd(args)
		return true
	case "plugin-only":
		pluginOnlyCmd(args)
		return true
	case "build-plugin":
		if err := run.BuildPlugin(args[0], args[1]); err != nil {
			fmt.Println(err)
			os.Exit(1)
		}
		return true
	case "casts":
		castsCmd(args)
		return true
	case "extract":
		repo, out := "/repo", "/verif/lean/PGT/Generated"
		if len(args) > 0 {
			repo = args[0]
		}
		if len(args) > 1 {
			out = args[1]
		}
		failed := extract.Run(repo, out)
		b, _ := json.Marshal(failed)
		fmt.Println(string(b))
		if len(failed) > 0 {
			os.Exit(3)
		}
		return true
	}
	return false
}

func pipeGogoReq(b *pipe.Batch) *plugin.CodeGeneratorRequest {
	return desc.BuildRequest(&b.Case.Request, desc.WKTParam)
}
