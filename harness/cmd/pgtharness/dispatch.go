package main

import (
	plugin "github.com/gogo/protobuf/protoc-gen-gogo/plugin"

	"verifharness/desc"
	"verifharness/pipe"
)

func dispatch(cmd string, args []string) bool { return false }

func pipeGogoReq(b *pipe.Batch) *plugin.CodeGeneratorRequest {
	return desc.BuildRequest(&b.Case.Request, desc.WKTParam)
}
