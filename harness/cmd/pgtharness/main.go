// Command pgtharness drives the correspondence check between the Lean model and the real plugin.
package main

import (
	"encoding/json"
	"flag"
	"fmt"
	"io/ioutil"
	"os"
	"path/filepath"

	"verifharness/driver"
	"verifharness/gen"
	"verifharness/pipe"
	"verifharness/run"
)

func main() {
	if len(os.Args) < 2 {
		fmt.Fprintln(os.Stderr, "usage: pgtharness <gogo-child|trial|...>")
		os.Exit(2)
	}
	switch os.Args[1] {
	case "gogo-child":
		run.GogoChild()
	case "trial":
		trial(os.Args[2:])
	default:
		if !dispatch(os.Args[1], os.Args[2:]) {
			fmt.Fprintln(os.Stderr, "unknown subcommand", os.Args[1])
			os.Exit(2)
		}
	}
}

func trial(args []string) {
	fs := flag.NewFlagSet("trial", flag.ExitOnError)
	seed := fs.Uint64("seed", 1, "seed")
	work := fs.String("work", "/verif/harness/work/trial", "work dir")
	plugin := fs.String("plugin", "/verif/harness/work/plugin", "plugin binary")
	fs.Parse(args)
	self, _ := os.Executable()
	if err := run.BuildPlugin("/repo", *plugin); err != nil {
		fmt.Println(err)
		os.Exit(1)
	}
	r := driver.NewRng(*seed)
	c, m := gen.GenCase(r, gen.DefaultOptions())
	os.RemoveAll(*work)
	b, err := pipe.NewBatch(*work, c, m)
	if err != nil {
		panic(err)
	}
	cj, _ := json.MarshalIndent(c, "", " ")
	ioutil.WriteFile(filepath.Join(*work, "case.json"), cj, 0o644)
	if err := b.RunGenerators(*plugin, self); err != nil {
		panic(err)
	}
	fmt.Printf("plugin exit=%d err=%q files=%d stderr-bytes=%d\n", b.Plugin.Exit, b.Plugin.Err, len(b.Plugin.Resp.GetFile()), len(b.Plugin.Stderr))
	if b.TfFile == "" {
		fmt.Println(string(b.Plugin.Stderr))
		os.Exit(1)
	}
	gsrc, err := run.RunGogo(self, pipeGogoReq(b))
	if err != nil {
		fmt.Println(err)
		os.Exit(1)
	}
	if err := b.WritePackage(gsrc); err != nil {
		panic(err)
	}
	if err := b.Build(); err != nil {
		fmt.Println(b.BuildErr)
		os.Exit(1)
	}
	ops, err := b.GenOps(*seed, 1)
	if err != nil {
		fmt.Println("genops:", err)
		os.Exit(1)
	}
	ioutil.WriteFile(filepath.Join(*work, "ops.jsonl"), ops, 0o644)
	out, err := b.Exec(ops)
	ioutil.WriteFile(filepath.Join(*work, "impl.jsonl"), out, 0o644)
	fmt.Printf("ops=%d bytes out=%d bytes err=%v\n", len(ops), len(out), err)
}
