package main

import (
	"bufio"
	"fmt"
	"math"
	"os"
	"strconv"

	"verifharness/driver"
)

// castsCmd prints conversion cases evaluated by Go itself: the validation of the Lean bit-level conversions (C19).
func castsCmd(args []string) {
	seed, _ := strconv.ParseUint(args[0], 10, 64)
	n, _ := strconv.Atoi(args[1])
	r := driver.NewRng(seed*7919 + 3)
	out := bufio.NewWriter(os.Stdout)
	defer out.Flush()
	emit := func(from, to string, bits, want uint64) {
		fmt.Fprintf(out, "{\"op\":\"cast\",\"from\":%q,\"to\":%q,\"bits\":\"%d\",\"want\":\"%d\"}\n", from, to, bits, want)
	}
	f32s := []uint32{0, 0x80000000, 1, 0x80000001, 0x007fffff, 0x00800000, 0x00800001, 0x7f7fffff, 0xff7fffff, 0x3f800000, 0x3f800001, 0x7f800000, 0xff800000,
		0x7fc00000, 0x7fc00001, 0x7f800001, 0xffc12345, 0x00400000, 0x00000002, 0x33800000}
	f64s := []uint64{0, 1 << 63, 1, 0x000fffffffffffff, 0x0010000000000000, 0x7fefffffffffffff, 0x3ff0000000000000, 0x3ff0000000000001, 0x3ff0000010000000,
		0x3ff0000010000001, 0x3ff0000030000000, 0x3ff000002fffffff, 0x47efffffe0000000, 0x47effffff0000000, 0x47efffffefffffff, 0x47f0000000000000,
		0x36a0000000000000, 0x3690000000000000, 0x3690000000000001, 0x368fffffffffffff, 0x380fffffc0000000, 0x380fffffe0000000, 0x380fffffffffffff,
		0x3810000000000000, 0x7ff0000000000000, 0xfff0000000000000, 0x7ff8000000000001, 0x7ff0000000000001, 0x7ff8000020000000, 0x36b8000000000000,
		0x36b0000000000000, 0x36a8000000000000, 0x3800000000000000, 0x37f0000000000001}
	for i := 0; i < n; i++ {
		f32s = append(f32s, uint32(r.Next()))
		x := r.Next()
		switch i % 4 {
		case 0: // exponent near the float32 subnormal range
			x = (x &^ (0x7ff << 52)) | (uint64(850+r.Intn(60)) << 52)
		case 1: // near overflow
			x = (x &^ (0x7ff << 52)) | (uint64(1140+r.Intn(14)) << 52)
		case 2: // low mantissa bits near a tie
			x = (x &^ 0x1fffffff) | uint64([]uint32{0x10000000, 0x0fffffff, 0x10000001, 0, 0x1fffffff}[r.Intn(5)])
		}
		f64s = append(f64s, x)
	}
	for _, b := range f32s {
		emit("f32", "f64", uint64(b), math.Float64bits(float64(math.Float32frombits(b))))
	}
	for _, b := range f64s {
		emit("f64", "f32", b, uint64(math.Float32bits(float32(math.Float64frombits(b)))))
	}
	ints := []uint64{0, 1, 0x7fffffff, 0x80000000, 0xffffffff, 0x100000000, 0x7fffffffffffffff, 0x8000000000000000, 0xffffffffffffffff}
	for i := 0; i < n/4; i++ {
		ints = append(ints, r.Next())
	}
	for _, b := range ints {
		emit("i32", "i64", uint64(uint32(b)), uint64(int64(int32(uint32(b)))))
		emit("u32", "i64", uint64(uint32(b)), uint64(int64(uint32(b))))
		emit("i64", "i32", b, uint64(uint32(int32(int64(b)))))
		emit("i64", "u32", b, uint64(uint32(int64(b))))
		emit("u64", "i64", b, uint64(int64(b)))
	}
}
