package desc

import (
	"bytes"
	"compress/gzip"
	"encoding/json"
	"fmt"
	"io/ioutil"
	"strings"

	"github.com/gogo/protobuf/gogoproto"
	"github.com/gogo/protobuf/proto"
	descriptor "github.com/gogo/protobuf/protoc-gen-gogo/descriptor"
	plugin "github.com/gogo/protobuf/protoc-gen-gogo/plugin"
	_ "github.com/gogo/protobuf/types" // registers timestamp.proto / duration.proto
)

func registered(name string) *descriptor.FileDescriptorProto {
	gz := proto.FileDescriptor(name)
	if gz == nil {
		panic("descriptor not registered: " + name)
	}
	r, err := gzip.NewReader(bytes.NewReader(gz))
	if err != nil {
		panic(err)
	}
	b, err := ioutil.ReadAll(r)
	if err != nil {
		panic(err)
	}
	fd := &descriptor.FileDescriptorProto{}
	if err := proto.Unmarshal(b, fd); err != nil {
		panic(err)
	}
	return fd
}

// WellKnown returns descriptor.proto, gogo.proto, timestamp.proto and duration.proto under the
// names protoc would give them.
func WellKnown() []*descriptor.FileDescriptorProto {
	d := registered("descriptor.proto")
	d.Name = proto.String("google/protobuf/descriptor.proto")
	g := registered("gogo.proto")
	g.Name = proto.String("gogoproto/gogo.proto")
	for i, dep := range g.Dependency {
		if dep == "descriptor.proto" {
			g.Dependency[i] = "google/protobuf/descriptor.proto"
		}
	}
	ts := registered("google/protobuf/timestamp.proto")
	du := registered("google/protobuf/duration.proto")
	return []*descriptor.FileDescriptorProto{d, g, ts, du}
}

var scalarTypes = map[string]descriptor.FieldDescriptorProto_Type{
	"double":   descriptor.FieldDescriptorProto_TYPE_DOUBLE,
	"float":    descriptor.FieldDescriptorProto_TYPE_FLOAT,
	"int32":    descriptor.FieldDescriptorProto_TYPE_INT32,
	"int64":    descriptor.FieldDescriptorProto_TYPE_INT64,
	"uint32":   descriptor.FieldDescriptorProto_TYPE_UINT32,
	"uint64":   descriptor.FieldDescriptorProto_TYPE_UINT64,
	"sint32":   descriptor.FieldDescriptorProto_TYPE_SINT32,
	"sint64":   descriptor.FieldDescriptorProto_TYPE_SINT64,
	"fixed32":  descriptor.FieldDescriptorProto_TYPE_FIXED32,
	"fixed64":  descriptor.FieldDescriptorProto_TYPE_FIXED64,
	"sfixed32": descriptor.FieldDescriptorProto_TYPE_SFIXED32,
	"sfixed64": descriptor.FieldDescriptorProto_TYPE_SFIXED64,
	"bool":     descriptor.FieldDescriptorProto_TYPE_BOOL,
	"string":   descriptor.FieldDescriptorProto_TYPE_STRING,
	"bytes":    descriptor.FieldDescriptorProto_TYPE_BYTES,
}

// CamelCase is protoc's rule for map entry names (same as gogo generator.CamelCase).
func CamelCase(s string) string {
	if s == "" {
		return ""
	}
	t := make([]byte, 0, 32)
	i := 0
	if s[0] == '_' {
		t = append(t, 'X')
		i++
	}
	isLower := func(c byte) bool { return 'a' <= c && c <= 'z' }
	isDigit := func(c byte) bool { return '0' <= c && c <= '9' }
	for ; i < len(s); i++ {
		c := s[i]
		if c == '_' && i+1 < len(s) && isLower(s[i+1]) {
			continue
		}
		if isDigit(c) {
			t = append(t, c)
			continue
		}
		if isLower(c) {
			c ^= ' '
		}
		t = append(t, c)
		for i+1 < len(s) && isLower(s[i+1]) {
			i++
			t = append(t, s[i])
		}
	}
	return string(t)
}

func setTypeOf(f *Field, pkg string, fd *descriptor.FieldDescriptorProto, typ string, typeName string) {
	switch typ {
	case "enum":
		fd.Type = descriptor.FieldDescriptorProto_TYPE_ENUM.Enum()
		fd.TypeName = proto.String("." + pkg + "." + typeName)
	case "message":
		fd.Type = descriptor.FieldDescriptorProto_TYPE_MESSAGE.Enum()
		fd.TypeName = proto.String("." + pkg + "." + typeName)
	case "timestamp":
		fd.Type = descriptor.FieldDescriptorProto_TYPE_MESSAGE.Enum()
		fd.TypeName = proto.String(".google.protobuf.Timestamp")
	case "duration":
		fd.Type = descriptor.FieldDescriptorProto_TYPE_MESSAGE.Enum()
		fd.TypeName = proto.String(".google.protobuf.Duration")
	default:
		t, ok := scalarTypes[typ]
		if !ok {
			panic("unknown abstract type " + typ)
		}
		fd.Type = t.Enum()
	}
}

// pkgOf finds the proto package that declares a message or enum name.
func (r *Request) pkgOf(name string, self string) string {
	for _, d := range r.Deps {
		for _, m := range d.Messages {
			if m.Name == name {
				return d.Package
			}
		}
		for _, e := range d.Enums {
			if e.Name == name {
				return d.Package
			}
		}
	}
	return self
}

func renderFile(r *Request, f *File, deps []string) *descriptor.FileDescriptorProto {
	fd := &descriptor.FileDescriptorProto{
		Name:       proto.String(f.Name),
		Package:    proto.String(f.Package),
		Syntax:     proto.String("proto3"),
		Dependency: deps,
		Options:    &descriptor.FileOptions{},
	}
	if f.GoPackage != "" {
		fd.Options.GoPackage = proto.String(r.ImportBase + "/" + f.GoPackage)
	}
	must(proto.SetExtension(fd.Options, gogoproto.E_MarshalerAll, proto.Bool(false)))
	must(proto.SetExtension(fd.Options, gogoproto.E_UnmarshalerAll, proto.Bool(false)))
	must(proto.SetExtension(fd.Options, gogoproto.E_GoprotoGettersAll, proto.Bool(false)))
	sci := &descriptor.SourceCodeInfo{}
	for ei, e := range f.Enums {
		_ = ei
		ed := &descriptor.EnumDescriptorProto{Name: proto.String(e.Name)}
		for _, v := range e.Values {
			vn := fmt.Sprintf("%s_V%d", strings.ToUpper(e.Name), v)
			if v < 0 {
				vn = fmt.Sprintf("%s_M%d", strings.ToUpper(e.Name), -int64(v))
			}
			ed.Value = append(ed.Value, &descriptor.EnumValueDescriptorProto{Name: proto.String(vn), Number: proto.Int32(v)})
		}
		fd.EnumType = append(fd.EnumType, ed)
	}
	if f.PackageComment != nil {
		sci.Location = append(sci.Location, &descriptor.SourceCodeInfo_Location{
			Path: []int32{2}, Span: []int32{0, 0, 0}, LeadingComments: proto.String(*f.PackageComment)})
	}
	for mi, m := range f.Messages {
		md := &descriptor.DescriptorProto{Name: proto.String(m.Name)}
		if m.Comment != nil {
			sci.Location = append(sci.Location, &descriptor.SourceCodeInfo_Location{
				Path: []int32{4, int32(mi)}, Span: []int32{0, 0, 0}, LeadingComments: proto.String(*m.Comment)})
		}
		for _, o := range m.Oneofs {
			md.OneofDecl = append(md.OneofDecl, &descriptor.OneofDescriptorProto{Name: proto.String(o)})
		}
		for fi, fl := range m.Fields {
			fl := fl
			x := &descriptor.FieldDescriptorProto{
				Name:     proto.String(fl.Name),
				Number:   proto.Int32(fl.Number),
				Label:    descriptor.FieldDescriptorProto_LABEL_OPTIONAL.Enum(),
				JsonName: proto.String(fl.Name),
			}
			opts := &descriptor.FieldOptions{}
			hasOpts := false
			if fl.Card == "map" {
				entry := CamelCase(fl.Name) + "Entry"
				x.Label = descriptor.FieldDescriptorProto_LABEL_REPEATED.Enum()
				x.Type = descriptor.FieldDescriptorProto_TYPE_MESSAGE.Enum()
				x.TypeName = proto.String("." + f.Package + "." + m.Name + "." + entry)
				k := &descriptor.FieldDescriptorProto{Name: proto.String("key"), Number: proto.Int32(1),
					Label: descriptor.FieldDescriptorProto_LABEL_OPTIONAL.Enum(), JsonName: proto.String("key")}
				setTypeOf(&fl, f.Package, k, fl.MapKey, "")
				v := &descriptor.FieldDescriptorProto{Name: proto.String("value"), Number: proto.Int32(2),
					Label: descriptor.FieldDescriptorProto_LABEL_OPTIONAL.Enum(), JsonName: proto.String("value")}
				setTypeOf(&fl, r.pkgOf(fl.TypeName, f.Package), v, fl.Type, fl.TypeName)
				md.NestedType = append(md.NestedType, &descriptor.DescriptorProto{
					Name:    proto.String(entry),
					Field:   []*descriptor.FieldDescriptorProto{k, v},
					Options: &descriptor.MessageOptions{MapEntry: proto.Bool(true)},
				})
			} else {
				if fl.Card == "repeated" {
					x.Label = descriptor.FieldDescriptorProto_LABEL_REPEATED.Enum()
				}
				setTypeOf(&fl, r.pkgOf(fl.TypeName, f.Package), x, fl.Type, fl.TypeName)
			}
			if fl.Oneof >= 0 {
				x.OneofIndex = proto.Int32(int32(fl.Oneof))
			}
			if fl.Nullable != "" {
				must(proto.SetExtension(opts, gogoproto.E_Nullable, proto.Bool(fl.Nullable == "true")))
				hasOpts = true
			}
			if fl.Embed {
				must(proto.SetExtension(opts, gogoproto.E_Embed, proto.Bool(true)))
				hasOpts = true
			}
			if fl.JSONTag != nil {
				must(proto.SetExtension(opts, gogoproto.E_Jsontag, proto.String(*fl.JSONTag)))
				hasOpts = true
			}
			if fl.CastType != "" {
				must(proto.SetExtension(opts, gogoproto.E_Casttype, proto.String(fl.CastType)))
				hasOpts = true
			}
			if fl.CustomType != "" {
				must(proto.SetExtension(opts, gogoproto.E_Customtype, proto.String(fl.CustomType)))
				// gogo requires customtype fields to be non-nullable unless they are bytes; keep them by value
				hasOpts = true
			}
			if fl.StdTime {
				must(proto.SetExtension(opts, gogoproto.E_Stdtime, proto.Bool(true)))
				hasOpts = true
			}
			if fl.StdDuration {
				must(proto.SetExtension(opts, gogoproto.E_Stdduration, proto.Bool(true)))
				hasOpts = true
			}
			if hasOpts {
				x.Options = opts
			}
			if fl.Comment != nil {
				sci.Location = append(sci.Location, &descriptor.SourceCodeInfo_Location{
					Path: []int32{4, int32(mi), 2, int32(fi)}, Span: []int32{0, 0, 0}, LeadingComments: proto.String(*fl.Comment)})
			}
			md.Field = append(md.Field, x)
		}
		fd.MessageType = append(fd.MessageType, md)
	}
	fd.SourceCodeInfo = sci
	return fd
}

func must(err error) {
	if err != nil {
		panic(err)
	}
}

// BuildRequest renders the abstract request into a CodeGeneratorRequest with the given parameter string.
func BuildRequest(r *Request, param string) *plugin.CodeGeneratorRequest {
	return BuildRequestFor(r, param, r.File.Name)
}

// BuildRequestFor is BuildRequest with another file of the request as the file to generate (a dependency file that has a Go
// package of its own needs its .pb.go too).
func BuildRequestFor(r *Request, param string, generate string) *plugin.CodeGeneratorRequest {
	files := WellKnown()
	base := []string{"gogoproto/gogo.proto", "google/protobuf/timestamp.proto", "google/protobuf/duration.proto"}
	var depNames []string
	for i := range r.Deps {
		files = append(files, renderFile(r, &r.Deps[i], base))
		depNames = append(depNames, r.Deps[i].Name)
	}
	// the generated file also imports descriptor.proto directly, as a file that declares an option of its own does
	// (`extend google.protobuf.FieldOptions`): its Go package then appears among the imports of both generated files
	files = append(files, renderFile(r, &r.File, append(append([]string{"google/protobuf/descriptor.proto"}, base...), depNames...)))
	return &plugin.CodeGeneratorRequest{
		FileToGenerate: []string{generate},
		Parameter:      proto.String(param),
		ProtoFile:      files,
	}
}

// WKTParam maps the well-known types to gogo's packages; needed by both generators.
const WKTParam = "Mgoogle/protobuf/timestamp.proto=github.com/gogo/protobuf/types,Mgoogle/protobuf/duration.proto=github.com/gogo/protobuf/types," +
	"Mgoogle/protobuf/descriptor.proto=github.com/gogo/protobuf/protoc-gen-gogo/descriptor"

// ParamString renders the CLI parameters (in order), the config= parameter and the WKT mappings.
func ParamString(cli []KV, configPath string) string {
	var parts []string
	if configPath != "" {
		parts = append(parts, "config="+configPath)
	}
	for _, kv := range cli {
		parts = append(parts, kv.K+"="+kv.V)
	}
	parts = append(parts, WKTParam)
	return strings.Join(parts, ",")
}

func q(s string) string {
	b, _ := json.Marshal(s)
	return string(b)
}

func yamlList(b *strings.Builder, key string, l []string, always bool) {
	if l == nil && !always {
		return
	}
	if len(l) == 0 {
		fmt.Fprintf(b, "%s: []\n", key)
		return
	}
	fmt.Fprintf(b, "%s:\n", key)
	for _, x := range l {
		fmt.Fprintf(b, "  - %s\n", q(x))
	}
}

func yamlKV(b *strings.Builder, key string, l []KV) {
	if len(l) == 0 {
		return
	}
	fmt.Fprintf(b, "%s:\n", key)
	for _, kv := range l {
		fmt.Fprintf(b, "  %s: %s\n", q(kv.K), q(kv.V))
	}
}

func yamlKVs(b *strings.Builder, key string, l []KVs) {
	if len(l) == 0 {
		return
	}
	fmt.Fprintf(b, "%s:\n", key)
	for _, kv := range l {
		fmt.Fprintf(b, "  %s:\n", q(kv.K))
		for _, x := range kv.V {
			fmt.Fprintf(b, "    - %s\n", q(x))
		}
	}
}

func yamlSchemaType(b *strings.Builder, key string, t *SchemaType) {
	if t == nil {
		return
	}
	fmt.Fprintf(b, "%s:\n  type: %s\n  value_type: %s\n  cast_to_type: %s\n  cast_from_type: %s\n", key,
		q(t.Type), q(t.ValueType), q(t.CastToType), q(t.CastFromType))
	if t.TypeConstructor != "" {
		fmt.Fprintf(b, "  type_constructor: %s\n", q(t.TypeConstructor))
	}
}

// YAML renders the configuration with the key names documented in the README and test/config.yaml
// (never with names taken from the plugin's source).
func (c *Config) YAML() string {
	var b strings.Builder
	b.WriteString("---\n")
	yamlList(&b, "types", c.Types, false)
	if c.DurationCustomType != "" {
		fmt.Fprintf(&b, "duration_custom_type: %s\n", q(c.DurationCustomType))
	}
	if c.UseStateForUnknownByDefault {
		b.WriteString("use_state_for_unknown_by_default: true\n")
	}
	if c.Sort {
		b.WriteString("sort: true\n")
	}
	if c.TargetPackageName != "" {
		fmt.Fprintf(&b, "target_package_name: %s\n", q(c.TargetPackageName))
	}
	if c.DefaultPackageName != "" {
		fmt.Fprintf(&b, "default_package_name: %s\n", q(c.DefaultPackageName))
	}
	yamlList(&b, "exclude_fields", c.ExcludeFields, false)
	yamlList(&b, "computed_fields", c.ComputedFields, false)
	yamlList(&b, "required_fields", c.RequiredFields, false)
	yamlList(&b, "sensitive_fields", c.SensitiveFields, false)
	yamlKV(&b, "suffixes", c.Suffixes)
	yamlKV(&b, "name_overrides", c.NameOverrides)
	yamlSchemaType(&b, "time_type", c.TimeType)
	yamlSchemaType(&b, "duration_type", c.DurationType)
	if len(c.InjectedFields) > 0 {
		b.WriteString("injected_fields:\n")
		for _, e := range c.InjectedFields {
			fmt.Fprintf(&b, "  %s:\n", q(e.K))
			for _, f := range e.V {
				fmt.Fprintf(&b, "    -\n      name: %s\n      type: %s\n", q(f.Name), q(f.Type))
				if f.Required {
					b.WriteString("      required: true\n")
				}
				if f.Computed {
					b.WriteString("      computed: true\n")
				}
				if f.Optional {
					b.WriteString("      optional: true\n")
				}
				if len(f.PlanModifiers) > 0 {
					b.WriteString("      plan_modifiers:\n")
					for _, x := range f.PlanModifiers {
						fmt.Fprintf(&b, "        - %s\n", q(x))
					}
				}
				if len(f.Validators) > 0 {
					b.WriteString("      validators:\n")
					for _, x := range f.Validators {
						fmt.Fprintf(&b, "        - %s\n", q(x))
					}
				}
			}
		}
	}
	yamlKVs(&b, "plan_modifiers", c.PlanModifiers)
	yamlKVs(&b, "validators", c.Validators)
	yamlKV(&b, "import_path_overrides", c.ImportPathOverrides)
	yamlKV(&b, "custom_types", c.CustomTypes)
	return b.String()
}
