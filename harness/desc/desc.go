// Package desc holds the abstract descriptor and configuration shared (as JSON) by the Go harness
// and the Lean model, and renders them to real protobuf descriptors / plugin parameters.
package desc

// Field is one declared field of a message (abstract descriptor, DESIGN §3).
type Field struct {
	Name   string `json:"name"`
	Number int32  `json:"number"`
	// Type: one of the 15 scalar names, "enum", "message", "timestamp", "duration"
	Type     string `json:"type"`
	TypeName string `json:"typeName"` // enum / message name for Type enum|message
	// Card: "single" | "repeated" | "map"
	Card   string `json:"card"`
	MapKey string `json:"mapKey"` // key scalar for maps ("string" inside D)
	// Nullable: "" (option absent) | "true" | "false"
	Nullable    string  `json:"nullable"`
	Embed       bool    `json:"embed"`
	JSONTag     *string `json:"jsonTag"`
	CastType    string  `json:"castType"`
	CustomType  string  `json:"customType"`
	StdTime     bool    `json:"stdTime"`
	StdDuration bool    `json:"stdDuration"`
	Oneof       int     `json:"oneof"` // index into Message.Oneofs, -1 = none
	Comment     *string `json:"comment"`
}

// Message is a top-level message.
type Message struct {
	Name    string   `json:"name"`
	Comment *string  `json:"comment"`
	Oneofs  []string `json:"oneofs"`
	Fields  []Field  `json:"fields"`
}

// Enum is a top-level enum.
type Enum struct {
	Name   string  `json:"name"`
	Values []int32 `json:"values"`
}

// File is one proto file of the request.
type File struct {
	Name    string `json:"name"` // e.g. "x.proto"
	Package string `json:"package"`
	// PackageComment is the leading comment of the `package` statement (SourceCodeInfo path [2]); nil = none
	PackageComment *string   `json:"packageComment,omitempty"`
	// GoPackage: directory / package name of a Go package of its own for this (dependency) file ("" = the struct package of the
	// generated file); the import path is the batch's import base + "/" + GoPackage
	GoPackage string `json:"goPackage,omitempty"`
	Messages       []Message `json:"messages"`
	Enums          []Enum    `json:"enums"`
}

// Request is the abstract CodeGeneratorRequest: dependency files first, the file to generate last.
type Request struct {
	Deps []File `json:"deps"`
	File File   `json:"file"`
	// ImportBase is the Go import path of the directory the batch is built in (set by the pipeline, not part of the case)
	ImportBase string `json:"-"`
}

// SchemaType mirrors the plugin's time_type / duration_type records.
type SchemaType struct {
	Type            string `json:"type"`
	ValueType       string `json:"valueType"`
	CastToType      string `json:"castToType"`
	CastFromType    string `json:"castFromType"`
	TypeConstructor string `json:"typeConstructor"`
}

// Injected mirrors injected_fields entries.
type Injected struct {
	Name          string   `json:"name"`
	Type          string   `json:"type"`
	Required      bool     `json:"required"`
	Computed      bool     `json:"computed"`
	Optional      bool     `json:"optional"`
	PlanModifiers []string `json:"planModifiers"`
	Validators    []string `json:"validators"`
}

// KV is an ordered key/value entry (order is the rendering order of the YAML text).
type KV struct {
	K string `json:"k"`
	V string `json:"v"`
}

// KVs is an ordered key/list entry.
type KVs struct {
	K string   `json:"k"`
	V []string `json:"v"`
}

// KInj is an ordered key/injected-list entry.
type KInj struct {
	K string     `json:"k"`
	V []Injected `json:"v"`
}

// Config is the logical configuration (what the YAML file says). nil pointers = key absent.
type Config struct {
	Types                       []string    `json:"types"`
	DurationCustomType          string      `json:"durationCustomType"`
	ExcludeFields               []string    `json:"excludeFields"`
	TargetPackageName           string      `json:"targetPackageName"`
	DefaultPackageName          string      `json:"defaultPackageName"`
	Sort                        bool        `json:"sort"`
	UseStateForUnknownByDefault bool        `json:"useStateForUnknownByDefault"`
	ComputedFields              []string    `json:"computedFields"`
	RequiredFields              []string    `json:"requiredFields"`
	SensitiveFields             []string    `json:"sensitiveFields"`
	Suffixes                    []KV        `json:"suffixes"`
	NameOverrides               []KV        `json:"nameOverrides"`
	Validators                  []KVs       `json:"validators"`
	PlanModifiers               []KVs       `json:"planModifiers"`
	TimeType                    *SchemaType `json:"timeType"`
	DurationType                *SchemaType `json:"durationType"`
	InjectedFields              []KInj      `json:"injectedFields"`
	ImportPathOverrides         []KV        `json:"importPathOverrides"`
	CustomTypes                 []KV        `json:"customTypes"`
}

// Case is one generator case: a request, the YAML-side configuration (nil = no config= parameter)
// and the command-line parameters, in order.
type Case struct {
	Request Request `json:"request"`
	Yaml    *Config `json:"yaml"`
	// YamlState: "none" (no config= parameter), "ok", "missing" (file does not exist), "garbage" (unparsable)
	YamlState string `json:"yamlState"`
	Cli       []KV   `json:"cli"`
}

// Scalars is the list of the fifteen scalar proto types.
var Scalars = []string{"double", "float", "int32", "int64", "uint32", "uint64", "sint32", "sint64",
	"fixed32", "fixed64", "sfixed32", "sfixed64", "bool", "string", "bytes"}

// IsScalar reports whether t names a scalar proto type.
func IsScalar(t string) bool {
	for _, s := range Scalars {
		if s == t {
			return true
		}
	}
	return false
}

// FindMessage finds a message by name in the request (file to generate first, then deps).
func (r *Request) FindMessage(name string) *Message {
	for i := range r.File.Messages {
		if r.File.Messages[i].Name == name {
			return &r.File.Messages[i]
		}
	}
	for d := range r.Deps {
		for i := range r.Deps[d].Messages {
			if r.Deps[d].Messages[i].Name == name {
				return &r.Deps[d].Messages[i]
			}
		}
	}
	return nil
}
