// Package pipe runs one generated case through the real plugin, gogo's generator, the Go compiler
// and the batch binary.
package pipe

import (
	"bytes"
	"context"
	"crypto/sha256"
	"encoding/hex"
	"encoding/json"
	"fmt"
	"io/ioutil"
	"os"
	"os/exec"
	"path/filepath"
	"strings"
	"time"

	"verifharness/desc"
	"verifharness/gen"
	"verifharness/run"
)

// Batch is one case on disk.
type Batch struct {
	Dir        string // absolute directory of the batch (inside the harness module)
	ImportBase string // import path of Dir
	Case       *desc.Case
	Meta       *gen.Meta
	StructPkg  string // Go package name of the gogo structs
	TargetPkg  string // Go package name of the generated terraform file
	Separate   bool
	Plugin     *run.PluginResult
	TfFile     string // content of the generated file
	TfFileName string
	BuildErr   string
	Bin        string
}

// HarnessRoot is the directory of the harness module.
var HarnessRoot = func() string {
	if v := os.Getenv("VERIF_ROOT"); v != "" {
		return v + "/harness"
	}
	return "/verif/harness"
}()

// NewBatch creates the directory layout for a case.
func NewBatch(workDir string, c *desc.Case, m *gen.Meta) (*Batch, error) {
	abs, err := filepath.Abs(workDir)
	if err != nil {
		return nil, err
	}
	rel, err := filepath.Rel(HarnessRoot, abs)
	if err != nil || strings.HasPrefix(rel, "..") {
		return nil, fmt.Errorf("work dir %s must be inside %s", abs, HarnessRoot)
	}
	b := &Batch{Dir: abs, ImportBase: "verifharness/" + filepath.ToSlash(rel), Case: c, Meta: m}
	c.Request.ImportBase = b.ImportBase
	// dependency files with a Go package of their own: the generated code names them by package name; the import path comes
	// from import_path_overrides (README). A case that already carries the entry keeps it (variants of a batch are run in other
	// directories and must produce the same text; replays and twins that are compiled are relocated by relocatePackage first).
	if c.Yaml != nil {
		for _, d := range c.Request.Deps {
			if d.GoPackage == "" {
				continue
			}
			found := false
			for i := range c.Yaml.ImportPathOverrides {
				if c.Yaml.ImportPathOverrides[i].K == d.GoPackage {
					found = true
					if v := c.Yaml.ImportPathOverrides[i].V; strings.HasSuffix(v, "/"+d.GoPackage) {
						c.Request.ImportBase = strings.TrimSuffix(v, "/"+d.GoPackage)
					}
				}
			}
			if !found {
				c.Yaml.ImportPathOverrides = append(c.Yaml.ImportPathOverrides, desc.KV{K: d.GoPackage, V: b.ImportBase + "/" + d.GoPackage})
			}
		}
	}
	b.StructPkg = c.Request.File.Package
	b.TargetPkg = b.StructPkg
	return b, os.MkdirAll(abs, 0o755)
}

// EffectiveConfig computes the few configuration values the harness itself needs (package names),
// with the documented precedence (command line over YAML).
func (b *Batch) effective(key string, yamlVal string) string {
	v := yamlVal
	for _, kv := range b.Case.Cli {
		if kv.K == key && strings.TrimSpace(kv.V) != "" {
			v = strings.TrimSpace(kv.V)
		}
	}
	return v
}

// RunGenerators runs the plugin and (when the plugin succeeded) gogo on the case.
func (b *Batch) RunGenerators(pluginBin, self string) error {
	var y desc.Config
	if b.Case.Yaml != nil {
		y = *b.Case.Yaml
	}
	cfgPath := ""
	switch b.Case.YamlState {
	case "ok":
		cfgPath = filepath.Join(b.Dir, "config.yaml")
		if err := ioutil.WriteFile(cfgPath, []byte(y.YAML()), 0o644); err != nil {
			return err
		}
	case "ok:eqpath", "ok:spacepath", "ok:relpath":
		// the same file under a path that contains '=' / spaces (everything after the FIRST '=' of a parameter is its value),
		// or named relative to the plugin's working directory
		loc := map[string][2]string{"ok:eqpath": {"env=prod", "config.v=1.yaml"}, "ok:spacepath": {"my configs", "the config.yaml"},
			"ok:relpath": {"rel", "config.yaml"}}[b.Case.YamlState]
		sub, name := loc[0], loc[1]
		if err := os.MkdirAll(filepath.Join(b.Dir, sub), 0o755); err != nil {
			return err
		}
		cfgPath = filepath.Join(b.Dir, sub, name)
		if err := ioutil.WriteFile(cfgPath, []byte(y.YAML()), 0o644); err != nil {
			return err
		}
		if b.Case.YamlState == "ok:relpath" {
			cfgPath = filepath.Join(sub, name)
		}
	case "blank:empty", "blank:comments", "blank:lines":
		// a readable file without any YAML document: the configuration it describes is the empty one
		text := map[string]string{"blank:empty": "", "blank:comments": "# generated configuration\n# (nothing set)\n", "blank:lines": "\n\n  \n"}[b.Case.YamlState]
		cfgPath = filepath.Join(b.Dir, "config.yaml")
		if err := ioutil.WriteFile(cfgPath, []byte(text), 0o644); err != nil {
			return err
		}
		y = desc.Config{}
	case "missing":
		cfgPath = filepath.Join(b.Dir, "no-such-config.yaml")
	case "garbage":
		cfgPath = filepath.Join(b.Dir, "config.yaml")
		if err := ioutil.WriteFile(cfgPath, []byte("types: [unterminated\n  - : :\n\t{"), 0o644); err != nil {
			return err
		}
	case "garbage:listmap", "garbage:elemmap", "garbage:nested", "garbage:sort", "garbage:scalar", "garbage:kvlist":
		// well-formed YAML documents that cannot be parsed *as a configuration*: a value of the wrong shape
		y2 := y
		var text string
		switch b.Case.YamlState {
		case "garbage:listmap":
			y2.ExcludeFields = nil
			text = y2.YAML() + "exclude_fields:\n  Zz.Field: true\n"
		case "garbage:elemmap":
			y2.ComputedFields = nil
			text = y2.YAML() + "computed_fields:\n  - Zz.Field: true\n"
		case "garbage:nested":
			y2.SensitiveFields = nil
			text = y2.YAML() + "sensitive_fields:\n  - [Zz.Field]\n"
		case "garbage:sort":
			y2.Sort = false
			text = y2.YAML() + "sort: perhaps\n"
		case "garbage:kvlist":
			y2.NameOverrides = nil
			text = y2.YAML() + "name_overrides:\n  - Zz.Field\n"
		default:
			text = "just a scalar document\n"
		}
		cfgPath = filepath.Join(b.Dir, "config.yaml")
		if err := ioutil.WriteFile(cfgPath, []byte(text), 0o644); err != nil {
			return err
		}
	}
	if tp := b.effective("target_package_name", y.TargetPackageName); tp != "" {
		b.TargetPkg = tp
	}
	b.Separate = b.effective("default_package_name", y.DefaultPackageName) != ""
	req := desc.BuildRequest(&b.Case.Request, desc.ParamString(b.Case.Cli, cfgPath))
	b.Plugin = run.RunPlugin(pluginBin, b.Dir, req)
	if b.Plugin.Resp != nil && len(b.Plugin.Resp.File) == 1 {
		b.TfFile = b.Plugin.Resp.File[0].GetContent()
		b.TfFileName = b.Plugin.Resp.File[0].GetName()
	}
	return nil
}

const supportStruct = `package %s

// Cast types and custom types used by the generated descriptors.
type CastF64 float64
type CastF32 float32
type CastI32 int32
type CastI64 int64
type CastU32 uint32
type CastU64 uint64
type CastBool bool
type CastStr string
type CastBytes []byte
type Duration int64

// cast types whose names merely END with the name of the custom duration type: they are not durations
type ISODuration string
type MaxDuration int64
type StrCustomA string
type StrCustomB string
`

func hookSource(h gen.Hook, qual string) string {
	goType := h.GoType
	elem := strings.TrimPrefix(goType, "[]")
	if elem != "string" && qual != "" {
		elem = qual + "." + elem
	}
	var b strings.Builder
	if !h.Repeated {
		fmt.Fprintf(&b, `
func GenSchema%[1]s(_ context.Context, a tfsdk.Attribute) tfsdk.Attribute {
	a.Type = types.StringType
	return a
}

func CopyTo%[1]s(_ diag.Diagnostics, obj %[2]s, t attr.Type, cur attr.Value) attr.Value {
	tfx.LogHook(map[string]interface{}{"fn": "CopyTo%[1]s", "obj": driver.EncodeGo(reflect.ValueOf(string(obj))), "ty": driver.EncodeTy(t), "cur": driver.EncodeTf(cur)})
	return types.String{Value: "H(" + string(obj) + ")"}
}

func CopyFrom%[1]s(_ diag.Diagnostics, a attr.Value, obj *%[2]s) {
	tfx.LogHook(map[string]interface{}{"fn": "CopyFrom%[1]s", "a": driver.EncodeTf(a)})
	*obj = %[2]s(driver.UnH(a))
}
`, h.Suffix, elem)
	} else {
		fmt.Fprintf(&b, `
func GenSchema%[1]s(_ context.Context, a tfsdk.Attribute) tfsdk.Attribute {
	a.Type = types.ListType{ElemType: types.StringType}
	return a
}

func CopyTo%[1]s(_ diag.Diagnostics, obj []%[2]s, t attr.Type, cur attr.Value) attr.Value {
	ss := make([]string, len(obj))
	for i := range obj {
		ss[i] = string(obj[i])
	}
	tfx.LogHook(map[string]interface{}{"fn": "CopyTo%[1]s", "obj": driver.EncodeStrs(ss, obj == nil), "ty": driver.EncodeTy(t), "cur": driver.EncodeTf(cur)})
	l := types.List{ElemType: types.StringType, Elems: make([]attr.Value, len(obj)), Null: len(obj) == 0}
	for i := range obj {
		l.Elems[i] = types.String{Value: "H(" + ss[i] + ")"}
	}
	return l
}

func CopyFrom%[1]s(_ diag.Diagnostics, a attr.Value, obj *[]%[2]s) {
	tfx.LogHook(map[string]interface{}{"fn": "CopyFrom%[1]s", "a": driver.EncodeTf(a)})
	l, ok := a.(types.List)
	if !ok || l.Null || l.Unknown {
		*obj = nil
		return
	}
	r := make([]%[2]s, len(l.Elems))
	for i := range l.Elems {
		r[i] = %[2]s(driver.UnH(l.Elems[i]))
	}
	*obj = r
}
`, h.Suffix, elem)
	}
	return b.String()
}

// WritePackage writes the generated sources, the support files and main.go.
func (b *Batch) WritePackage(gogoSrc string) error {
	sdir := filepath.Join(b.Dir, "spkg")
	tdir := sdir
	structImport := b.ImportBase + "/spkg"
	targetImport := structImport
	if b.Separate {
		tdir = filepath.Join(b.Dir, "tgt")
		targetImport = b.ImportBase + "/tgt"
	}
	for _, d := range []string{sdir, tdir} {
		if err := os.MkdirAll(d, 0o755); err != nil {
			return err
		}
	}
	w := func(p, s string) error { return ioutil.WriteFile(p, []byte(s), 0o644) }
	if err := w(filepath.Join(sdir, "x.pb.go"), gogoSrc); err != nil {
		return err
	}
	if err := w(filepath.Join(sdir, "support_types.go"), fmt.Sprintf(supportStruct, b.StructPkg)); err != nil {
		return err
	}
	if err := w(filepath.Join(tdir, "x_terraform.go"), b.TfFile); err != nil {
		return err
	}
	qual := ""
	imp := ""
	if b.Separate {
		qual = "structs"
		imp = fmt.Sprintf("\tstructs %q\n", structImport)
	}
	var hooks strings.Builder
	fmt.Fprintf(&hooks, "package %s\n\nimport (\n\t\"context\"\n\t\"reflect\"\n\n\t\"github.com/hashicorp/terraform-plugin-framework/attr\"\n\t\"github.com/hashicorp/terraform-plugin-framework/diag\"\n\t\"github.com/hashicorp/terraform-plugin-framework/tfsdk\"\n\t\"github.com/hashicorp/terraform-plugin-framework/types\"\n\n\t\"verifharness/driver\"\n\t\"verifharness/tfx\"\n%s)\n\nvar _ = reflect.ValueOf\nvar _ context.Context\nvar _ attr.Value\nvar _ diag.Diagnostics\nvar _ tfsdk.Attribute\nvar _ = types.StringType\nvar _ = driver.UnH\nvar _ = tfx.LogHook\n", b.TargetPkg, imp)
	for _, h := range b.Meta.Hooks {
		hooks.WriteString(hookSource(h, qual))
	}
	if b.Separate {
		hooks.WriteString("\nvar _ structs.Duration\n")
	}
	if err := w(filepath.Join(tdir, "support_hooks.go"), hooks.String()); err != nil {
		return err
	}
	var m strings.Builder
	fmt.Fprintf(&m, "package main\n\nimport (\n\t\"context\"\n\n\t\"github.com/hashicorp/terraform-plugin-framework/diag\"\n\t\"github.com/hashicorp/terraform-plugin-framework/types\"\n\n\t\"verifharness/driver\"\n\ts %q\n\tt %q\n)\n\n", structImport, targetImport)
	m.WriteString("var _ = s.Duration(0)\n\nfunc main() {\n\tdriver.Main(&driver.Registry{Types: []driver.TypeEntry{\n")
	for _, r := range b.presentRoots() {
		fmt.Fprintf(&m, "\t\t{Name: %q, New: func() interface{} { return &s.%[1]s{} }, Schema: t.GenSchema%[1]s,\n", r)
		fmt.Fprintf(&m, "\t\t\tFrom: func(ctx context.Context, tf types.Object, o interface{}) diag.Diagnostics { return t.Copy%[1]sFromTerraform(ctx, tf, o.(*s.%[1]s)) },\n", r)
		fmt.Fprintf(&m, "\t\t\tTo: func(ctx context.Context, o interface{}, tf *types.Object) diag.Diagnostics { return t.Copy%[1]sToTerraform(ctx, o.(*s.%[1]s), tf) }},\n", r)
	}
	m.WriteString("\t}})\n}\n")
	return w(filepath.Join(b.Dir, "main.go"), m.String())
}

// presentRoots lists the types for which the generated file defines GenSchema<T> (textually).
func (b *Batch) presentRoots() []string {
	var out []string
	seen := map[string]bool{}
	for _, line := range strings.Split(b.TfFile, "\n") {
		if strings.HasPrefix(line, "func GenSchema") {
			name := strings.TrimPrefix(line, "func GenSchema")
			if i := strings.Index(name, "("); i > 0 {
				name = name[:i]
				if !seen[name] {
					seen[name] = true
					out = append(out, name)
				}
			}
		}
	}
	return out
}

// Build compiles the batch binary.
func (b *Batch) Build() error {
	b.Bin = filepath.Join(b.Dir, "batchbin")
	cmd := exec.Command("go", "build", "-o", b.Bin, ".")
	cmd.Dir = b.Dir
	cmd.Env = run.Env()
	out, err := cmd.CombinedOutput()
	if err != nil {
		b.BuildErr = string(out)
		return fmt.Errorf("build failed")
	}
	return nil
}

// GenOps asks the batch binary for op lines.
func (b *Batch) GenOps(seed uint64, scale int) ([]byte, error) {
	inj, _ := json.Marshal(b.Meta.Injected)
	groups, _ := json.Marshal(b.Meta.OneofGroups)
	return b.runBin(nil, "genops", fmt.Sprint(seed), fmt.Sprint(scale), string(inj), string(groups))
}

// Exec runs op lines through the batch binary.
func (b *Batch) Exec(ops []byte) ([]byte, error) {
	return b.runBin(ops)
}

func (b *Batch) runBin(stdin []byte, args ...string) ([]byte, error) {
	ctx, cancel := context.WithTimeout(context.Background(), 10*time.Minute)
	defer cancel()
	cmd := exec.CommandContext(ctx, b.Bin, args...)
	cmd.Stdin = bytes.NewReader(stdin)
	cmd.Env = append(os.Environ(), "GOMEMLIMIT=4GiB")
	var so, se bytes.Buffer
	cmd.Stdout = &so
	cmd.Stderr = &se
	if err := cmd.Run(); err != nil {
		return so.Bytes(), fmt.Errorf("%v: %s", err, tail(se.String(), 2000))
	}
	return so.Bytes(), nil
}

func tail(s string, n int) string {
	if len(s) > n {
		return s[len(s)-n:]
	}
	return s
}

// Sha returns the hex sha256 of s.
func Sha(s []byte) string {
	h := sha256.Sum256(s)
	return hex.EncodeToString(h[:])
}
