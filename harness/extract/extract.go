// Package extract regenerates the Lean tables PGT/Generated/*.lean from /repo's current source
// (translators T1–T5 of DESIGN.md §5.1). Every extractor fails loudly when the source no longer
// has the shape it understands: a failed extraction is a broken tie, never a silent skip.
package extract

import (
	"bytes"
	"fmt"
	"go/ast"
	"go/importer"
	"go/parser"
	"go/printer"
	"go/token"
	"go/types"
	"io"
	"io/ioutil"
	"os"
	"os/exec"
	"path/filepath"
	"reflect"
	"sort"
	"strconv"
	"strings"
)

type src struct {
	fset  *token.FileSet
	files map[string]*ast.File
	dir   string
}

func load(dir string) (*src, error) {
	s := &src{fset: token.NewFileSet(), files: map[string]*ast.File{}, dir: dir}
	names, err := filepath.Glob(filepath.Join(dir, "*.go"))
	if err != nil {
		return nil, err
	}
	for _, n := range names {
		if strings.HasSuffix(n, "_test.go") {
			continue
		}
		f, err := parser.ParseFile(s.fset, n, nil, parser.ParseComments)
		if err != nil {
			return nil, err
		}
		s.files[filepath.Base(n)] = f
	}
	return s, nil
}

func (s *src) funcDecl(file, recv, name string) *ast.FuncDecl {
	f := s.files[file]
	if f == nil {
		return nil
	}
	for _, d := range f.Decls {
		fd, ok := d.(*ast.FuncDecl)
		if !ok || fd.Name.Name != name {
			continue
		}
		if recv == "" && fd.Recv == nil {
			return fd
		}
		if fd.Recv != nil && len(fd.Recv.List) == 1 && strings.TrimPrefix(s.str(fd.Recv.List[0].Type), "*") == recv {
			return fd
		}
	}
	return nil
}

func (s *src) str(n ast.Node) string {
	var b bytes.Buffer
	printer.Fprint(&b, s.fset, n)
	return b.String()
}

func lq(x string) string { return strconv.Quote(x) } // Go and Lean agree on the escapes used here (\n \t \" \\ \xNN are avoided below)

func leanStr(x string) string {
	var b strings.Builder
	b.WriteByte('"')
	for _, r := range x {
		switch r {
		case '"':
			b.WriteString("\\\"")
		case '\\':
			b.WriteString("\\\\")
		case '\n':
			b.WriteString("\\n")
		case '\t':
			b.WriteString("\\t")
		case '\r':
			b.WriteString("\\r")
		default:
			b.WriteRune(r)
		}
	}
	b.WriteByte('"')
	return b.String()
}

func leanList(xs []string) string {
	q := make([]string, len(xs))
	for i, x := range xs {
		q[i] = leanStr(x)
	}
	return "[" + strings.Join(q, ", ") + "]"
}

func leanBool(b bool) string {
	if b {
		return "true"
	}
	return "false"
}

// constant string environment for evaluating expressions like Types + ".Float64Type"
func (s *src) constEnv() map[string]string {
	env := map[string]string{}
	for _, f := range s.files {
		for _, d := range f.Decls {
			gd, ok := d.(*ast.GenDecl)
			if !ok || gd.Tok != token.CONST {
				continue
			}
			for _, sp := range gd.Specs {
				vs := sp.(*ast.ValueSpec)
				for i, n := range vs.Names {
					if i < len(vs.Values) {
						if bl, ok := vs.Values[i].(*ast.BasicLit); ok && bl.Kind == token.STRING {
							v, _ := strconv.Unquote(bl.Value)
							env[n.Name] = v
						}
					}
				}
			}
		}
	}
	return env
}

func evalStr(e ast.Expr, env map[string]string) (string, bool) {
	switch x := e.(type) {
	case *ast.BasicLit:
		if x.Kind == token.STRING {
			v, err := strconv.Unquote(x.Value)
			return v, err == nil
		}
	case *ast.Ident:
		v, ok := env[x.Name]
		return v, ok
	case *ast.BinaryExpr:
		if x.Op == token.ADD {
			a, ok1 := evalStr(x.X, env)
			b, ok2 := evalStr(x.Y, env)
			return a + b, ok1 && ok2
		}
	case *ast.ParenExpr:
		return evalStr(x.X, env)
	}
	return "", false
}

// ---------------------------------------------------------------------------------------------
// T1: type table

type base struct {
	name   string
	fields map[string]string
	bools  map[string]bool
}

func (s *src) t1() (string, error) {
	env := s.constEnv()
	f := s.files["field_build_context.go"]
	if f == nil {
		return "", fmt.Errorf("T1: field_build_context.go not found")
	}
	var bases []base
	for _, d := range f.Decls {
		gd, ok := d.(*ast.GenDecl)
		if !ok || gd.Tok != token.VAR {
			continue
		}
		for _, sp := range gd.Specs {
			vs := sp.(*ast.ValueSpec)
			for i, n := range vs.Names {
				if i >= len(vs.Values) {
					continue
				}
				cl, ok := vs.Values[i].(*ast.CompositeLit)
				if !ok || s.str(cl.Type) != "TerraformType" {
					continue
				}
				b := base{name: n.Name, fields: map[string]string{}, bools: map[string]bool{}}
				for _, el := range cl.Elts {
					kv, ok := el.(*ast.KeyValueExpr)
					if !ok {
						return "", fmt.Errorf("T1: positional element in %s", n.Name)
					}
					k := s.str(kv.Key)
					if id, ok := kv.Value.(*ast.Ident); ok && (id.Name == "true" || id.Name == "false") {
						b.bools[k] = id.Name == "true"
						continue
					}
					v, ok := evalStr(kv.Value, env)
					if !ok {
						return "", fmt.Errorf("T1: cannot evaluate %s.%s = %s", n.Name, k, s.str(kv.Value))
					}
					b.fields[k] = v
				}
				bases = append(bases, b)
			}
		}
	}
	if len(bases) == 0 {
		return "", fmt.Errorf("T1: no TerraformType literals found")
	}
	fd := s.funcDecl("field_build_context.go", "FieldBuildContext", "GetTerraformType")
	if fd == nil {
		return "", fmt.Errorf("T1: GetTerraformType not found")
	}
	var sw *ast.SwitchStmt
	var post []ast.Stmt
	for i, st := range fd.Body.List {
		if x, ok := st.(*ast.SwitchStmt); ok && x.Tag == nil {
			sw = x
			post = fd.Body.List[i+1:]
			break
		}
	}
	if sw == nil {
		return "", fmt.Errorf("T1: tagless switch not found in GetTerraformType")
	}
	type row struct {
		kind      string // "time" | "duration" | "scalar" | "enum" | "message" | "default"
		protos    []string
		stds      []string
		base      string
		castFrom  string // literal; "<elem>" = elemType
		isMessage bool
		cfgField  string // TimeType / DurationType
	}
	var rows []row
	for _, c := range sw.Body.List {
		cc := c.(*ast.CaseClause)
		r := row{}
		if cc.List == nil {
			r.kind = "default"
			if len(cc.Body) != 1 || !strings.Contains(s.str(cc.Body[0]), "trace.Errorf(\"unknown field type") {
				return "", fmt.Errorf("T1: unexpected default clause: %s", s.str(cc))
			}
			rows = append(rows, r)
			continue
		}
		if len(cc.List) != 1 {
			return "", fmt.Errorf("T1: case with %d expressions", len(cc.List))
		}
		cond := s.str(cc.List[0])
		switch {
		case cond == "c.field.IsTime()":
			r.kind, r.cfgField = "time", "TimeType"
		case cond == "c.field.IsDuration(c.config.DurationCustomType)":
			r.kind, r.cfgField = "duration", "DurationType"
		case cond == "c.field.IsMessage()":
			r.kind = "message"
		default:
			// disjunction of c.field.IsTypeEq(descriptor.FieldDescriptorProto_TYPE_X) and gogoproto.IsStdX(p)
			for _, part := range strings.Split(cond, " || ") {
				part = strings.TrimSpace(part)
				switch {
				case strings.HasPrefix(part, "c.field.IsTypeEq(descriptor.FieldDescriptorProto_TYPE_") && strings.HasSuffix(part, ")"):
					r.protos = append(r.protos, strings.TrimSuffix(strings.TrimPrefix(part, "c.field.IsTypeEq(descriptor.FieldDescriptorProto_TYPE_"), ")"))
				case strings.HasPrefix(part, "gogoproto.IsStd") && strings.HasSuffix(part, "(p)"):
					r.stds = append(r.stds, strings.TrimSuffix(strings.TrimPrefix(part, "gogoproto.Is"), "(p)"))
				default:
					return "", fmt.Errorf("T1: unrecognised case condition %q", cond)
				}
			}
			r.kind = "scalar"
		}
		// body
		switch r.kind {
		case "time", "duration":
			body := s.str(&ast.BlockStmt{List: cc.Body})
			want := []string{"c.config." + r.cfgField + " == nil", "Type:", "c.config." + r.cfgField + ".Type", "c.config." + r.cfgField + ".ValueType",
				"ValueCastToType:", "c.config." + r.cfgField + ".CastToType", "ValueCastFromType:", "c.config." + r.cfgField + ".CastFromType",
				"TypeConstructor:", "c.config." + r.cfgField + ".TypeConstructor", "ElemType:", "ElemValueType:"}
			for _, w := range want {
				if !strings.Contains(body, w) {
					return "", fmt.Errorf("T1: %s case lacks %q", r.kind, w)
				}
			}
			if strings.Contains(body, "ZeroValue") || strings.Contains(body, "IsTypeScalar") {
				return "", fmt.Errorf("T1: %s case sets unexpected fields", r.kind)
			}
		default:
			for _, st := range cc.Body {
				as, ok := st.(*ast.AssignStmt)
				if !ok || len(as.Lhs) != 1 || len(as.Rhs) != 1 {
					return "", fmt.Errorf("T1: unexpected statement %s", s.str(st))
				}
				l := s.str(as.Lhs[0])
				switch l {
				case "t":
					r.base = s.str(as.Rhs[0])
				case "t.ValueCastFromType":
					if v, ok := evalStr(as.Rhs[0], env); ok {
						r.castFrom = v
					} else if s.str(as.Rhs[0]) == "elemType" {
						r.castFrom = "<elem>"
						if r.kind == "scalar" && len(r.protos) == 1 && r.protos[0] == "ENUM" {
							r.kind = "enum"
						}
					} else {
						return "", fmt.Errorf("T1: cannot evaluate %s", s.str(st))
					}
				case "t.IsMessage":
					r.isMessage = s.str(as.Rhs[0]) == "true"
				default:
					return "", fmt.Errorf("T1: unexpected assignment to %s", l)
				}
			}
		}
		rows = append(rows, r)
	}
	// elemType definition and post-processing
	whole := s.str(fd.Body)
	if !strings.Contains(whole, `elemType := strings.ReplaceAll(c.GetGoType(), "[]", "")`) {
		return "", fmt.Errorf("T1: elemType definition changed")
	}
	postSrc := ""
	for _, st := range post {
		postSrc += s.str(st) + "\n"
	}
	norm := strings.Join(strings.Fields(postSrc), " ")
	wantPost := `if c.IsRepeated() { t.Type = Types + ".ListType" t.ValueType = Types + ".List" } if c.IsMap() { t.Type = Types + ".MapType" t.ValueType = Types + ".Map" } if c.IsCastType() { t.ValueCastFromType = elemType } return t, nil`
	postOK := norm == wantPost
	var b strings.Builder
	b.WriteString("/- REGENERATED by `pgtharness extract` (T1) from /repo/field_build_context.go. Do not edit. -/\nnamespace PGT.Generated\n\n")
	b.WriteString("structure TfBase where\n  name : String\n  type : String\n  valueType : String\n  elemType : String\n  elemValueType : String\n  valueCastToType : String\n  zeroValue : String\n  isTypeScalar : Bool\n  isElemTypeScalar : Bool\n  valueCastFromType : String\n  isMessage : Bool\n  typeConstructor : String\nderiving Repr, DecidableEq, Inhabited\n\n")
	b.WriteString("def bases : List TfBase := [\n")
	for i, x := range bases {
		known := map[string]bool{"Type": true, "ValueType": true, "ElemType": true, "ElemValueType": true, "ValueCastToType": true, "ZeroValue": true,
			"ValueCastFromType": true, "TypeConstructor": true}
		for k := range x.fields {
			if !known[k] {
				return "", fmt.Errorf("T1: unknown TerraformType field %s in %s", k, x.name)
			}
		}
		for k := range x.bools {
			if k != "IsTypeScalar" && k != "IsElemTypeScalar" && k != "IsMessage" {
				return "", fmt.Errorf("T1: unknown TerraformType flag %s in %s", k, x.name)
			}
		}
		fmt.Fprintf(&b, "  { name := %s, type := %s, valueType := %s, elemType := %s, elemValueType := %s, valueCastToType := %s, zeroValue := %s, isTypeScalar := %s, isElemTypeScalar := %s, valueCastFromType := %s, isMessage := %s, typeConstructor := %s }",
			leanStr(x.name), leanStr(x.fields["Type"]), leanStr(x.fields["ValueType"]), leanStr(x.fields["ElemType"]), leanStr(x.fields["ElemValueType"]),
			leanStr(x.fields["ValueCastToType"]), leanStr(x.fields["ZeroValue"]), leanBool(x.bools["IsTypeScalar"]), leanBool(x.bools["IsElemTypeScalar"]),
			leanStr(x.fields["ValueCastFromType"]), leanBool(x.bools["IsMessage"]), leanStr(x.fields["TypeConstructor"]))
		if i+1 < len(bases) {
			b.WriteString(",")
		}
		b.WriteString("\n")
	}
	b.WriteString("]\n\n")
	b.WriteString("/-- One `case` of the switch in `GetTerraformType`, in source order. kind: time | duration | scalar | enum | message | default -/\n")
	b.WriteString("structure TypeRow where\n  kind : String\n  protos : List String\n  stds : List String\n  base : String\n  castFrom : String\n  isMessage : Bool\nderiving Repr, DecidableEq, Inhabited\n\n")
	b.WriteString("def typeRows : List TypeRow := [\n")
	for i, r := range rows {
		fmt.Fprintf(&b, "  { kind := %s, protos := %s, stds := %s, base := %s, castFrom := %s, isMessage := %s }",
			leanStr(r.kind), leanList(r.protos), leanList(r.stds), leanStr(r.base), leanStr(r.castFrom), leanBool(r.isMessage))
		if i+1 < len(rows) {
			b.WriteString(",")
		}
		b.WriteString("\n")
	}
	b.WriteString("]\n\n")
	fmt.Fprintf(&b, "/-- The statements after the switch are exactly: repeated ⇒ List, map ⇒ Map, casttype ⇒ ValueCastFromType := elemType. -/\ndef postProcessingStandard : Bool := %s\n\n", leanBool(postOK))
	fmt.Fprintf(&b, "def postProcessingSource : String := %s\n\n", leanStr(norm))
	fmt.Fprintf(&b, "def typesPkg : String := %s\n\nend PGT.Generated\n", leanStr(env["Types"]))
	return b.String(), nil
}

// ---------------------------------------------------------------------------------------------
// T2: configuration keys

func (s *src) t2() (string, error) {
	fd := s.funcDecl("config.go", "Config", "readFromCLI")
	if fd == nil {
		return "", fmt.Errorf("T2: readFromCLI not found")
	}
	env := s.constEnv()
	type row struct{ field, key, kind string }
	var rows []row
	for _, st := range fd.Body.List {
		if _, ok := st.(*ast.ReturnStmt); ok {
			continue
		}
		as, ok := st.(*ast.AssignStmt)
		if !ok || len(as.Lhs) != 1 || len(as.Rhs) != 1 {
			return "", fmt.Errorf("T2: unexpected statement %s", s.str(st))
		}
		lhs := s.str(as.Lhs[0])
		call, ok := as.Rhs[0].(*ast.CallExpr)
		if !ok || len(call.Args) != 2 || !strings.HasPrefix(lhs, "c.") {
			return "", fmt.Errorf("T2: unexpected statement %s", s.str(st))
		}
		fn := s.str(call.Fun)
		kind := map[string]string{"c.getSliceParam": "slice", "c.getStringParam": "string", "c.getBoolParam": "bool"}[fn]
		if kind == "" {
			return "", fmt.Errorf("T2: unexpected accessor %s", fn)
		}
		key, ok := evalStr(call.Args[0], env)
		if !ok {
			return "", fmt.Errorf("T2: key of %s not constant", s.str(st))
		}
		if s.str(call.Args[1]) != lhs {
			return "", fmt.Errorf("T2: default of %s is not the YAML value (%s)", lhs, s.str(call.Args[1]))
		}
		rows = append(rows, row{strings.TrimPrefix(lhs, "c."), key, kind})
	}
	// yaml tags of Config
	var tags [][2]string
	for _, d := range s.files["config.go"].Decls {
		gd, ok := d.(*ast.GenDecl)
		if !ok || gd.Tok != token.TYPE {
			continue
		}
		for _, sp := range gd.Specs {
			ts := sp.(*ast.TypeSpec)
			st, ok := ts.Type.(*ast.StructType)
			if !ok || ts.Name.Name != "Config" {
				continue
			}
			for _, f := range st.Fields.List {
				if f.Tag == nil || len(f.Names) != 1 {
					continue
				}
				tag, _ := strconv.Unquote(f.Tag.Value)
				y := reflect.StructTag(tag).Get("yaml")
				tags = append(tags, [2]string{f.Names[0].Name, strings.Split(y, ",")[0]})
			}
		}
	}
	if len(tags) == 0 {
		return "", fmt.Errorf("T2: Config struct not found")
	}
	// accessor bodies: the semantic facts the model relies on
	norm := func(fd *ast.FuncDecl) string {
		if fd == nil {
			return ""
		}
		return strings.Join(strings.Fields(s.str(fd.Body)), " ")
	}
	getString := norm(s.funcDecl("config.go", "Config", "getStringParam"))
	getSlice := norm(s.funcDecl("config.go", "Config", "getSliceParam"))
	getBool := norm(s.funcDecl("config.go", "Config", "getBoolParam"))
	readConfig := norm(s.funcDecl("config.go", "", "ReadConfig"))
	var b strings.Builder
	b.WriteString("/- REGENERATED by `pgtharness extract` (T2) from /repo/config.go. Do not edit. -/\nnamespace PGT.Generated\n\n")
	b.WriteString("/-- rows of `readFromCLI` in source order: (Config field, CLI key, accessor kind) -/\ndef cliTable : List (String × String × String) := [\n")
	for i, r := range rows {
		fmt.Fprintf(&b, "  (%s, %s, %s)", leanStr(r.field), leanStr(r.key), leanStr(r.kind))
		if i+1 < len(rows) {
			b.WriteString(",")
		}
		b.WriteString("\n")
	}
	b.WriteString("]\n\n/-- (Config field, yaml key) from the struct tags -/\ndef yamlTags : List (String × String) := [\n")
	for i, t := range tags {
		fmt.Fprintf(&b, "  (%s, %s)", leanStr(t[0]), leanStr(t[1]))
		if i+1 < len(tags) {
			b.WriteString(",")
		}
		b.WriteString("\n")
	}
	b.WriteString("]\n\n")
	fmt.Fprintf(&b, "def paramDelimiter : String := %s\n\n", leanStr(env["paramDelimiter"]))
	fmt.Fprintf(&b, "def getStringParamSrc : String := %s\n\ndef getSliceParamSrc : String := %s\n\ndef getBoolParamSrc : String := %s\n\ndef readConfigSrc : String := %s\n\nend PGT.Generated\n",
		leanStr(getString), leanStr(getSlice), leanStr(getBool), leanStr(readConfig))
	return b.String(), nil
}

// ---------------------------------------------------------------------------------------------
// T3: lookup-key order of per-field options

func (s *src) t3() (string, error) {
	type look struct {
		fn   string
		maps []string // config map consulted
		keys []string // key expression per lookup, in order
	}
	var out []look
	for _, file := range []string{"field_build_context.go", "message_build_context.go"} {
		f := s.files[file]
		if f == nil {
			return "", fmt.Errorf("T3: %s not found", file)
		}
		for _, d := range f.Decls {
			fd, ok := d.(*ast.FuncDecl)
			if !ok || fd.Recv == nil || fd.Body == nil {
				continue
			}
			l := look{fn: fd.Name.Name}
			ast.Inspect(fd.Body, func(n ast.Node) bool {
				ix, ok := n.(*ast.IndexExpr)
				if !ok {
					return true
				}
				x := s.str(ix.X)
				if strings.HasPrefix(x, "c.config.") || x == "f" {
					l.maps = append(l.maps, strings.TrimPrefix(x, "c.config."))
					l.keys = append(l.keys, s.str(ix.Index))
				}
				return true
			})
			if len(l.keys) > 0 {
				out = append(out, l)
			}
		}
	}
	sort.SliceStable(out, func(i, j int) bool { return out[i].fn < out[j].fn })
	var b strings.Builder
	b.WriteString("/- REGENERATED by `pgtharness extract` (T3) from /repo/field_build_context.go and message_build_context.go. Do not edit. -/\nnamespace PGT.Generated\n\n")
	b.WriteString("/-- per accessor method: the configuration maps it indexes and the key expressions, in source order -/\ndef lookups : List (String × List String × List String) := [\n")
	for i, l := range out {
		fmt.Fprintf(&b, "  (%s, %s, %s)", leanStr(l.fn), leanList(l.maps), leanList(l.keys))
		if i+1 < len(out) {
			b.WriteString(",")
		}
		b.WriteString("\n")
	}
	b.WriteString("]\n\n")
	// GetFlagValue: ok1 || ok2
	gf := s.funcDecl("field_build_context.go", "FieldBuildContext", "GetFlagValue")
	gfs := ""
	if gf != nil {
		gfs = strings.Join(strings.Fields(s.str(gf.Body)), " ")
	}
	fmt.Fprintf(&b, "def getFlagValueSrc : String := %s\n\n", leanStr(gfs))
	for _, nm := range []string{"GetNameSnake", "GetValidators", "GetPlanModifiers", "IsCustomType", "GetCustomType", "IsExcluded", "IsComputed"} {
		fd := s.funcDecl("field_build_context.go", "FieldBuildContext", nm)
		src := ""
		if fd != nil {
			src = strings.Join(strings.Fields(s.str(fd.Body)), " ")
		}
		fmt.Fprintf(&b, "def src%s : String := %s\n\n", nm, leanStr(src))
	}
	b.WriteString("end PGT.Generated\n")
	return b.String(), nil
}

// ---------------------------------------------------------------------------------------------
// T4: range statements over maps (needs type information)

func t4(dir string) (string, error) {
	env := append(os.Environ(), "GOFLAGS=-mod=mod", "GOPROXY=off", "GOSUMDB=off", "GOTOOLCHAIN=local")
	cmd := exec.Command("go", "list", "-export", "-tags", "verif", "-f", "{{.ImportPath}}\t{{.Export}}", "-deps", ".")
	cmd.Dir = dir
	cmd.Env = env
	out, err := cmd.Output()
	if err != nil {
		msg := ""
		if ee, ok := err.(*exec.ExitError); ok {
			msg = string(ee.Stderr)
		}
		return "", fmt.Errorf("T4: go list -export failed: %v %s", err, msg)
	}
	exports := map[string]string{}
	for _, line := range strings.Split(string(out), "\n") {
		p := strings.SplitN(line, "\t", 2)
		if len(p) == 2 && p[1] != "" {
			exports[p[0]] = p[1]
		}
	}
	fset := token.NewFileSet()
	names, _ := filepath.Glob(filepath.Join(dir, "*.go"))
	var files []*ast.File
	for _, n := range names {
		if strings.HasSuffix(n, "_test.go") {
			continue
		}
		f, err := parser.ParseFile(fset, n, nil, 0)
		if err != nil {
			return "", fmt.Errorf("T4: %v", err)
		}
		files = append(files, f)
	}
	imp := importer.ForCompiler(fset, "gc", func(path string) (io.ReadCloser, error) {
		e, ok := exports[path]
		if !ok {
			return nil, fmt.Errorf("no export data for %s", path)
		}
		return os.Open(e)
	})
	info := &types.Info{Types: map[ast.Expr]types.TypeAndValue{}}
	conf := types.Config{Importer: imp}
	if _, err := conf.Check("main", fset, files, info); err != nil {
		return "", fmt.Errorf("T4: type check of package main failed: %v", err)
	}
	p := struct {
		Syntax    []*ast.File
		Fset      *token.FileSet
		TypesInfo *types.Info
	}{files, fset, info}
	type rng struct{ fn, expr, typ string }
	var found []rng
	for _, f := range p.Syntax {
		name := filepath.Base(p.Fset.Position(f.Pos()).Filename)
		if strings.HasSuffix(name, "_test.go") {
			continue
		}
		for _, d := range f.Decls {
			fd, ok := d.(*ast.FuncDecl)
			if !ok || fd.Body == nil {
				continue
			}
			ast.Inspect(fd.Body, func(n ast.Node) bool {
				rs, ok := n.(*ast.RangeStmt)
				if !ok {
					return true
				}
				t := p.TypesInfo.TypeOf(rs.X)
				if t == nil {
					return true
				}
				if _, isMap := t.Underlying().(*types.Map); isMap {
					var b bytes.Buffer
					printer.Fprint(&b, p.Fset, rs.X)
					fn := fd.Name.Name
					if fd.Recv != nil && len(fd.Recv.List) == 1 {
						var rb bytes.Buffer
						printer.Fprint(&rb, p.Fset, fd.Recv.List[0].Type)
						fn = strings.TrimPrefix(rb.String(), "*") + "." + fn
					}
					found = append(found, rng{fn, b.String(), t.String()})
				}
				return true
			})
		}
	}
	sort.Slice(found, func(i, j int) bool { return found[i].fn+found[i].expr < found[j].fn+found[j].expr })
	var b strings.Builder
	b.WriteString("/- REGENERATED by `pgtharness extract` (T4) from all non-test files of package main in /repo (type-checked). Do not edit. -/\nnamespace PGT.Generated\n\n")
	b.WriteString("/-- every `range` statement over a map-typed expression: (enclosing function, expression, type) -/\ndef mapRanges : List (String × String × String) := [\n")
	for i, r := range found {
		fmt.Fprintf(&b, "  (%s, %s, %s)", leanStr(r.fn), leanStr(r.expr), leanStr(r.typ))
		if i+1 < len(found) {
			b.WriteString(",")
		}
		b.WriteString("\n")
	}
	b.WriteString("]\n\nend PGT.Generated\n")
	return b.String(), nil
}

// ---------------------------------------------------------------------------------------------
// T5: texts

func (s *src) t5() (string, error) {
	tpl, err := ioutil.ReadFile(filepath.Join(s.dir, "shared_code.go.tpl"))
	if err != nil {
		return "", fmt.Errorf("T5: %v", err)
	}
	lic, err := ioutil.ReadFile(filepath.Join(s.dir, "license.txt"))
	if err != nil {
		return "", fmt.Errorf("T5: %v", err)
	}
	// parse the template as Go source
	f, err := parser.ParseFile(s.fset, "shared.go", "package x\n"+string(tpl), 0)
	if err != nil {
		return "", fmt.Errorf("T5: template does not parse: %v", err)
	}
	type dg struct {
		typ, summary, detail string
		fields               []string
	}
	m := map[string]*dg{}
	var order []string
	for _, d := range f.Decls {
		switch x := d.(type) {
		case *ast.GenDecl:
			for _, sp := range x.Specs {
				if ts, ok := sp.(*ast.TypeSpec); ok {
					e := &dg{typ: ts.Name.Name}
					if st, ok := ts.Type.(*ast.StructType); ok {
						for _, fl := range st.Fields.List {
							for _, n := range fl.Names {
								e.fields = append(e.fields, n.Name)
							}
						}
					}
					m[ts.Name.Name] = e
					order = append(order, ts.Name.Name)
				}
			}
		case *ast.FuncDecl:
			if x.Recv == nil || len(x.Body.List) != 1 {
				continue
			}
			rt := s.str(x.Recv.List[0].Type)
			e := m[rt]
			if e == nil {
				continue
			}
			ret, ok := x.Body.List[0].(*ast.ReturnStmt)
			if !ok || len(ret.Results) != 1 {
				continue
			}
			switch x.Name.Name {
			case "Summary":
				if bl, ok := ret.Results[0].(*ast.BasicLit); ok {
					e.summary, _ = strconv.Unquote(bl.Value)
				}
			case "Detail":
				e.detail = s.str(ret.Results[0])
			case "Severity":
				if s.str(ret.Results[0]) != "diag.SeverityError" {
					return "", fmt.Errorf("T5: %s has severity %s", rt, s.str(ret.Results[0]))
				}
			}
		}
	}
	var b strings.Builder
	b.WriteString("/- REGENERATED by `pgtharness extract` (T5) from /repo/shared_code.go.tpl, license.txt, plugin.go, gen_*.go. Do not edit. -/\nnamespace PGT.Generated\n\n")
	b.WriteString("/-- diagnostic types of the shared code: (type, struct fields, Summary, Detail expression) -/\ndef diagTypes : List (String × List String × String × String) := [\n")
	for i, n := range order {
		e := m[n]
		fmt.Fprintf(&b, "  (%s, %s, %s, %s)", leanStr(e.typ), leanList(e.fields), leanStr(e.summary), leanStr(e.detail))
		if i+1 < len(order) {
			b.WriteString(",")
		}
		b.WriteString("\n")
	}
	b.WriteString("]\n\n")
	fmt.Fprintf(&b, "def licenseText : String := %s\n\n", leanStr(string(lic)))
	// names of generated functions and the output suffix
	find := func(file, needle string) bool {
		fl := s.files[file]
		return fl != nil && strings.Contains(s.str(fl), needle)
	}
	facts := [][3]string{
		{"schemaFuncPrefix", "gen_schema.go", `id := "GenSchema" + m.Name`},
		{"copyFromFuncName", "gen_copy_from.go", `methodName := "Copy" + m.Name + "FromTerraform"`},
		{"copyToFuncName", "gen_copy_to.go", `methodName := "Copy" + m.Name + "ToTerraform"`},
		{"outputSuffix", "main.go", `command.GeneratePlugin(req, p, "_terraform.go")`},
		{"featureProto3Optional", "main.go", `uint64(pluginpb.CodeGeneratorResponse_FEATURE_PROTO3_OPTIONAL)`},
		{"customSchemaCall", "gen_schema.go", `j.Id("GenSchema"+f.Suffix).Call(j.Id("ctx"), j.Id(f.i.WithPackage(SDK, "Attribute")).Values(d))`},
		{"customFromCall", "gen_copy_from.go", `Id("CopyFrom"+f.Suffix).Params(j.Id("diags"), j.Id("a"), j.Id("&obj."+f.Name))`},
		{"customToCall", "gen_copy_to.go", `j.Id("diags"), j.Id(fieldName), j.Id("t"), j.Id("tf.Attrs").Index(j.Lit(f.NameSnake))`},
	}
	b.WriteString("/-- source facts: (name, file, expected fragment, present) -/\ndef sourceFacts : List (String × Bool) := [\n")
	for i, f := range facts {
		fmt.Fprintf(&b, "  (%s, %s)", leanStr(f[0]), leanBool(find(f[1], f[2])))
		if i+1 < len(facts) {
			b.WriteString(",")
		}
		b.WriteString("\n")
	}
	b.WriteString("]\n\nend PGT.Generated\n")
	return b.String(), nil
}

// ---------------------------------------------------------------------------------------------
// T6: the predeclared type names `isBuiltinType` knows (imports.go): names that are never qualified with the struct package

func (s *src) t6() (string, error) {
	fd := s.funcDecl("imports.go", "Imports", "isBuiltinType")
	if fd == nil || fd.Body == nil {
		return "", fmt.Errorf("T6: Imports.isBuiltinType not found")
	}
	var names []string
	found := false
	for _, st := range fd.Body.List {
		sw, ok := st.(*ast.SwitchStmt)
		if !ok {
			continue
		}
		found = true
		for _, c := range sw.Body.List {
			cc := c.(*ast.CaseClause)
			isTrue := len(cc.Body) == 1 && strings.Join(strings.Fields(s.str(cc.Body[0])), " ") == "return true"
			if cc.List == nil {
				if strings.Join(strings.Fields(s.str(cc.Body[0])), " ") != "return false" {
					return "", fmt.Errorf("T6: default clause of isBuiltinType is not `return false`")
				}
				continue
			}
			if !isTrue {
				return "", fmt.Errorf("T6: a case of isBuiltinType does not `return true`")
			}
			for _, e := range cc.List {
				bl, ok := e.(*ast.BasicLit)
				if !ok || bl.Kind != token.STRING {
					return "", fmt.Errorf("T6: non-literal case in isBuiltinType")
				}
				v, _ := strconv.Unquote(bl.Value)
				names = append(names, v)
			}
		}
	}
	if !found || len(fd.Body.List) != 1 {
		return "", fmt.Errorf("T6: isBuiltinType is not a single switch over string literals")
	}
	var b strings.Builder
	b.WriteString("/- REGENERATED by `pgtharness extract` (T6) from /repo/imports.go (Imports.isBuiltinType). Do not edit. -/\nnamespace PGT.Generated\n\n")
	fmt.Fprintf(&b, "/-- the type names `isBuiltinType` answers true for, in source order -/\ndef builtinTypes : List String := %s\n\n", leanList(names))
	// the qualification rule itself (the model function `prependPackageNameIfMissing` is a transcription of this body)
	pp := s.funcDecl("imports.go", "Imports", "PrependPackageNameIfMissing")
	if pp == nil || pp.Body == nil {
		return "", fmt.Errorf("T6: Imports.PrependPackageNameIfMissing not found")
	}
	fmt.Fprintf(&b, "def srcPrependPackageNameIfMissing : String := %s\n\nend PGT.Generated\n", leanStr(strings.Join(strings.Fields(s.str(pp.Body)), " ")))
	return b.String(), nil
}

func writeIfChanged(path, content string) error {
	old, err := ioutil.ReadFile(path)
	if err == nil && string(old) == content {
		return nil
	}
	return ioutil.WriteFile(path, []byte(content), 0o644)
}

// Run regenerates all tables; it returns the list of extractors that failed (with their messages).
func Run(repo, outDir string) map[string]string {
	failed := map[string]string{}
	s, err := load(repo)
	if err != nil {
		failed["load"] = err.Error()
		return failed
	}
	do := func(name, file string, f func() (string, error)) {
		c, err := f()
		if err != nil {
			failed[name] = err.Error()
			return
		}
		if err := writeIfChanged(filepath.Join(outDir, file), c); err != nil {
			failed[name] = err.Error()
		}
	}
	do("T1", "TypeTable.lean", s.t1)
	do("T2", "ConfigKeys.lean", s.t2)
	do("T3", "LookupOrder.lean", s.t3)
	do("T4", "MapRanges.lean", func() (string, error) { return t4(repo) })
	do("T5", "Texts.lean", s.t5)
	do("T6", "Builtins.lean", s.t6)
	return failed
}

var _ = lq
