// Package static extracts the Stage-A view of a generated file with go/parser: header, package clause,
// top-level functions and signatures, the schema literal as a tree, hook calls, diagnostic path literals,
// per-function source text hashes.
package static

import (
	"bytes"
	"crypto/sha256"
	"encoding/hex"
	"fmt"
	"go/ast"
	"go/parser"
	"go/printer"
	"go/token"
	"strconv"
	"strings"
)

// J is a JSON object.
type J = map[string]interface{}

// View is the static view of one generated file.
type View struct {
	ParseError string              `json:"parseError,omitempty"`
	Package    string              `json:"package"`
	HeaderOK   bool                `json:"headerOK"` // file starts with the licence text
	Funcs      []string            `json:"funcs"`    // top-level functions (no methods), in order
	Sigs       map[string]string   `json:"sigs"`     // name -> printed signature
	Methods    []string            `json:"methods"`
	Types      []string            `json:"types"`
	FuncSha    map[string]string   `json:"funcSha"`   // name -> sha256 of the function's source text
	Schemas    map[string]J        `json:"schemas"`   // root name -> attribute tree
	HookCalls  map[string][]string `json:"hookCalls"` // function name -> printed custom hook call expressions
	ObjWrites  map[string][]string `json:"objWrites"` // function name -> printed left-hand sides `obj.…` of assignments, in order
	DiagPaths  map[string][]string `json:"diagPaths"` // function name -> path literals of diagnostics
	Imports    map[string]string   `json:"imports"`   // alias -> path
	Sha        string              `json:"sha"`
}

func pr(fset *token.FileSet, n ast.Node) string {
	var b bytes.Buffer
	printer.Fprint(&b, fset, n)
	return b.String()
}

func sha(s string) string {
	h := sha256.Sum256([]byte(s))
	return hex.EncodeToString(h[:])
}

// Parse builds the view. license is the expected header.
func Parse(src string, license string) *View {
	v := &View{Sigs: map[string]string{}, FuncSha: map[string]string{}, Schemas: map[string]J{}, HookCalls: map[string][]string{}, ObjWrites: map[string][]string{},
		DiagPaths: map[string][]string{}, Imports: map[string]string{}, Sha: sha(src), Funcs: []string{}, Methods: []string{}, Types: []string{}}
	v.HeaderOK = strings.HasPrefix(src, license)
	fset := token.NewFileSet()
	f, err := parser.ParseFile(fset, "x_terraform.go", src, parser.ParseComments)
	if err != nil {
		v.ParseError = err.Error()
		return v
	}
	v.Package = f.Name.Name
	for _, im := range f.Imports {
		p, _ := strconv.Unquote(im.Path.Value)
		alias := ""
		if im.Name != nil {
			alias = im.Name.Name
		}
		v.Imports[alias+"|"+p] = p
	}
	unalias := func(s string) string { return s }
	for _, d := range f.Decls {
		switch x := d.(type) {
		case *ast.GenDecl:
			for _, sp := range x.Specs {
				if ts, ok := sp.(*ast.TypeSpec); ok {
					v.Types = append(v.Types, ts.Name.Name)
				}
			}
		case *ast.FuncDecl:
			if x.Recv != nil {
				v.Methods = append(v.Methods, pr(fset, x.Recv.List[0].Type)+"."+x.Name.Name)
				continue
			}
			name := x.Name.Name
			v.Funcs = append(v.Funcs, name)
			v.Sigs[name] = unalias(pr(fset, x.Type))
			start, end := fset.Position(x.Pos()).Offset, fset.Position(x.End()).Offset
			v.FuncSha[name] = sha(src[start:end])
			if strings.HasPrefix(name, "GenSchema") {
				v.Schemas[strings.TrimPrefix(name, "GenSchema")] = schemaOf(fset, x)
			}
			ast.Inspect(x.Body, func(n ast.Node) bool {
				switch c := n.(type) {
				case *ast.CallExpr:
					if id, ok := c.Fun.(*ast.Ident); ok && (strings.HasPrefix(id.Name, "CopyFrom") || strings.HasPrefix(id.Name, "CopyTo") || strings.HasPrefix(id.Name, "GenSchema")) {
						s := pr(fset, c)
						if strings.HasPrefix(id.Name, "GenSchema") {
							s = id.Name + "(" + pr(fset, c.Args[0]) + ", …)"
						}
						v.HookCalls[name] = append(v.HookCalls[name], s)
					}
				case *ast.AssignStmt:
					for _, l := range c.Lhs {
						if ls := pr(fset, l); strings.HasPrefix(ls, "obj.") {
							v.ObjWrites[name] = append(v.ObjWrites[name], ls)
						}
					}
				case *ast.CompositeLit:
					if id, ok := c.Type.(*ast.Ident); ok && strings.HasPrefix(id.Name, "attr") && len(c.Elts) > 0 {
						if bl, ok := c.Elts[0].(*ast.BasicLit); ok {
							p, _ := strconv.Unquote(bl.Value)
							v.DiagPaths[name] = append(v.DiagPaths[name], id.Name+"|"+p)
						}
					}
				}
				return true
			})
		}
	}
	return v
}

func schemaOf(fset *token.FileSet, fd *ast.FuncDecl) J {
	// return tfsdk.Schema{Attributes: map[string]tfsdk.Attribute{...}}, nil
	if len(fd.Body.List) != 1 {
		return J{"error": "unexpected body"}
	}
	ret, ok := fd.Body.List[0].(*ast.ReturnStmt)
	if !ok || len(ret.Results) != 2 {
		return J{"error": "unexpected return"}
	}
	cl, ok := ret.Results[0].(*ast.CompositeLit)
	if !ok {
		return J{"error": "no schema literal"}
	}
	for _, e := range cl.Elts {
		kv, ok := e.(*ast.KeyValueExpr)
		if ok && pr(fset, kv.Key) == "Attributes" {
			if m, ok := kv.Value.(*ast.CompositeLit); ok {
				return attrMap(fset, m)
			}
		}
	}
	return J{"error": "no Attributes"}
}

func attrMap(fset *token.FileSet, m *ast.CompositeLit) J {
	out := J{}
	for _, e := range m.Elts {
		kv, ok := e.(*ast.KeyValueExpr)
		if !ok {
			continue
		}
		key := pr(fset, kv.Key)
		if bl, ok := kv.Key.(*ast.BasicLit); ok {
			key, _ = strconv.Unquote(bl.Value)
		}
		if _, dup := out[key]; dup {
			out[key] = J{"error": "duplicate key"}
			continue
		}
		out[key] = attrOf(fset, kv.Value)
	}
	return out
}

func tyToken(fset *token.FileSet, e ast.Expr) interface{} {
	s := pr(fset, e)
	last := s
	if i := strings.LastIndex(s, "."); i >= 0 {
		last = s[i+1:]
	}
	switch x := e.(type) {
	case *ast.CompositeLit:
		t := pr(fset, x.Type)
		t = t[strings.LastIndex(t, ".")+1:]
		switch t {
		case "ListType", "MapType":
			var et interface{}
			for _, el := range x.Elts {
				if kv, ok := el.(*ast.KeyValueExpr); ok && pr(fset, kv.Key) == "ElemType" {
					et = tyToken(fset, kv.Value)
				}
			}
			if t == "ListType" {
				return J{"list": et}
			}
			return J{"map": et}
		case "DurationType":
			return "Duration"
		case "TimeType":
			// the bare literal: what the generator emits when no type_constructor is configured (or when it lost it)
			return "Time{}"
		}
		return J{"other": s}
	case *ast.CallExpr:
		if strings.HasSuffix(pr(fset, x.Fun), "UseRFC3339Time") {
			return "Time"
		}
		return J{"other": s}
	}
	switch last {
	case "StringType":
		return "String"
	case "Int64Type":
		return "Int64"
	case "Float64Type":
		return "Float64"
	case "BoolType":
		return "Bool"
	}
	return J{"other": s}
}

var tokenOf = map[string]string{"UseMockValidator()": "mock", "UseOtherValidator()": "other", "UseStateForUnknown()": "USFU", "RequiresReplace()": "RR"}

func exprTokens(fset *token.FileSet, e ast.Expr) []interface{} {
	out := []interface{}{}
	cl, ok := e.(*ast.CompositeLit)
	if !ok {
		return append(out, "?"+pr(fset, e))
	}
	for _, el := range cl.Elts {
		s := pr(fset, el)
		if i := strings.LastIndex(s, "."); i >= 0 {
			s = s[i+1:]
		}
		if t, ok := tokenOf[s]; ok {
			s = t
		}
		out = append(out, s)
	}
	return out
}

func attrOf(fset *token.FileSet, e ast.Expr) J {
	a := J{"req": false, "opt": false, "comp": false, "sens": false, "desc": "", "nest": "none", "attrs": nil, "val": []interface{}{}, "pm": []interface{}{}, "custom": "", "ty": nil, "hasDesc": false}
	var lit *ast.CompositeLit
	switch x := e.(type) {
	case *ast.CompositeLit:
		lit = x
	case *ast.CallExpr:
		fn := pr(fset, x.Fun)
		if strings.HasPrefix(fn, "GenSchema") && len(x.Args) == 2 {
			a["custom"] = strings.TrimPrefix(fn, "GenSchema")
			a["customCtx"] = pr(fset, x.Args[0])
			if l, ok := x.Args[1].(*ast.CompositeLit); ok {
				lit = l
				a["customArgType"] = pr(fset, l.Type)
			}
		}
	}
	if lit == nil {
		a["error"] = "unrecognised attribute expression " + pr(fset, e)
		return a
	}
	for _, el := range lit.Elts {
		kv, ok := el.(*ast.KeyValueExpr)
		if !ok {
			a["error"] = "positional element"
			continue
		}
		k := pr(fset, kv.Key)
		switch k {
		case "Description":
			if bl, ok := kv.Value.(*ast.BasicLit); ok {
				s, _ := strconv.Unquote(bl.Value)
				a["desc"] = s
				a["hasDesc"] = true
			} else {
				a["error"] = "Description is not a literal"
			}
		case "Required":
			a["req"] = pr(fset, kv.Value) == "true"
		case "Optional":
			a["opt"] = pr(fset, kv.Value) == "true"
		case "Computed":
			a["comp"] = pr(fset, kv.Value) == "true"
		case "Sensitive":
			a["sens"] = pr(fset, kv.Value) == "true"
		case "Type":
			a["ty"] = tyToken(fset, kv.Value)
		case "Validators":
			a["val"] = exprTokens(fset, kv.Value)
		case "PlanModifiers":
			a["pm"] = exprTokens(fset, kv.Value)
		case "Attributes":
			call, ok := kv.Value.(*ast.CallExpr)
			if !ok || len(call.Args) < 1 {
				a["error"] = "Attributes is not a call"
				continue
			}
			fn := pr(fset, call.Fun)
			fn = fn[strings.LastIndex(fn, ".")+1:]
			switch fn {
			case "SingleNestedAttributes":
				a["nest"] = "single"
			case "ListNestedAttributes":
				a["nest"] = "list"
			case "MapNestedAttributes":
				a["nest"] = "map"
			default:
				a["nest"] = fn
			}
			if m, ok := call.Args[0].(*ast.CompositeLit); ok {
				a["attrs"] = attrMap(fset, m)
			}
		default:
			a["error"] = fmt.Sprintf("unexpected key %s", k)
		}
	}
	return a
}
