package driver

import (
	"bufio"
	"context"
	"encoding/json"
	"fmt"
	"io"
	"os"
	"reflect"
	"sort"
	"strings"

	"github.com/hashicorp/terraform-plugin-framework/attr"
	"github.com/hashicorp/terraform-plugin-framework/diag"
	"github.com/hashicorp/terraform-plugin-framework/tfsdk"
	"github.com/hashicorp/terraform-plugin-framework/types"
	"github.com/hashicorp/terraform-plugin-go/tftypes"

	"verifharness/tfx"
)

// TypeEntry registers the three generated functions of one root message.
type TypeEntry struct {
	Name   string
	New    func() interface{}
	Schema func(context.Context) (tfsdk.Schema, diag.Diagnostics)
	From   func(context.Context, types.Object, interface{}) diag.Diagnostics
	To     func(context.Context, interface{}, *types.Object) diag.Diagnostics
}

// Registry is what a batch package exports to the driver.
type Registry struct {
	Types    []TypeEntry
	wrappers map[string]reflect.Type
}

func (r *Registry) find(name string) *TypeEntry {
	for i := range r.Types {
		if r.Types[i].Name == name {
			return &r.Types[i]
		}
	}
	return nil
}

func (r *Registry) collectWrappers() {
	r.wrappers = map[string]reflect.Type{}
	seen := map[reflect.Type]bool{}
	var walk func(t reflect.Type)
	walk = func(t reflect.Type) {
		switch t.Kind() {
		case reflect.Ptr, reflect.Slice, reflect.Map:
			walk(t.Elem())
		case reflect.Struct:
			if seen[t] || t == timeType {
				return
			}
			seen[t] = true
			if m, ok := reflect.PtrTo(t).MethodByName("XXX_OneofWrappers"); ok {
				out := m.Func.Call([]reflect.Value{reflect.New(t)})
				for _, w := range out[0].Interface().([]interface{}) {
					wt := reflect.TypeOf(w).Elem()
					r.wrappers[wt.Name()] = wt
					walk(wt)
				}
			}
			for i := 0; i < t.NumField(); i++ {
				if !skipField(t.Field(i)) {
					walk(t.Field(i).Type)
				}
			}
		}
	}
	for _, e := range r.Types {
		walk(reflect.TypeOf(e.New()))
	}
}

var planModTokens = map[string]string{
	"tfsdk.UseStateForUnknownModifier": "USFU",
	"tfsdk.RequiresReplaceModifier":    "RR",
}

func walkAttrs(ctx context.Context, as map[string]tfsdk.Attribute) interface{} {
	m := J{}
	for name, a := range as {
		e := J{"req": a.Required, "opt": a.Optional, "comp": a.Computed, "sens": a.Sensitive, "desc": a.Description}
		nest := "none"
		var sub interface{}
		if a.Attributes != nil {
			switch a.Attributes.GetNestingMode() {
			case tfsdk.NestingModeSingle:
				nest = "single"
			case tfsdk.NestingModeList:
				nest = "list"
			case tfsdk.NestingModeMap:
				nest = "map"
			default:
				nest = "other"
			}
			sub = walkAttrs(ctx, a.Attributes.GetAttributes())
			e["ty"] = EncodeTy(a.Attributes.AttributeType())
		} else {
			e["ty"] = EncodeTy(a.Type)
		}
		e["nest"] = nest
		e["attrs"] = sub
		vals := []interface{}{}
		for _, v := range a.Validators {
			vals = append(vals, strings.TrimPrefix(v.Description(ctx), "validator:"))
		}
		e["val"] = vals
		pms := []interface{}{}
		for _, p := range a.PlanModifiers {
			n := fmt.Sprintf("%T", p)
			if t, ok := planModTokens[n]; ok {
				n = t
			}
			pms = append(pms, n)
		}
		e["pm"] = pms
		m[name] = e
	}
	return m
}

func classifyPanic(r interface{}) string {
	s := fmt.Sprint(r)
	switch {
	case strings.Contains(s, "nil pointer dereference"):
		return "nil-deref"
	case strings.Contains(s, "assignment to entry in nil map"):
		return "nil-map"
	case strings.Contains(s, "index out of range"):
		return "index"
	case strings.Contains(s, "interface conversion"):
		return "assertion"
	}
	return "other:" + s
}

func encDiags(d diag.Diagnostics) []interface{} {
	set := map[string]bool{}
	for _, x := range d {
		sev := "E"
		if x.Severity() != diag.SeverityError {
			sev = "W"
		}
		set[sev+"|"+x.Summary()+"|"+x.Detail()] = true
	}
	ks := make([]string, 0, len(set))
	for k := range set {
		ks = append(ks, k)
	}
	sort.Strings(ks)
	out := make([]interface{}, len(ks))
	for i, k := range ks {
		out[i] = k
	}
	return out
}

func hooks() []interface{} {
	l := tfx.TakeHookLog()
	if l == nil {
		return []interface{}{}
	}
	return l
}

// Exec holds the per-process state.
type Exec struct {
	Reg *Registry
	ctx context.Context
}

func (e *Exec) emptyObject(t *TypeEntry) types.Object {
	s, _ := t.Schema(e.ctx)
	ot := s.AttributeType().(types.ObjectType)
	return types.Object{AttrTypes: ot.AttrTypes}
}

func (e *Exec) decodeObjArg(t *TypeEntry, j interface{}) types.Object {
	if s, ok := j.(string); ok && s == "empty" {
		return e.emptyObject(t)
	}
	return DecodeTf(j).(types.Object)
}

func (e *Exec) decodeStructArg(t *TypeEntry, j interface{}) interface{} {
	p := t.New()
	if s, ok := j.(string); ok && s == "zero" {
		return p
	}
	DecodeGo(j, reflect.ValueOf(p).Elem(), e.Reg.wrappers)
	return p
}

func (e *Exec) callTo(t *TypeEntry, obj interface{}, tf *types.Object) (res J) {
	res = J{"panic": nil}
	tfx.TakeHookLog()
	defer func() {
		if r := recover(); r != nil {
			res = J{"panic": classifyPanic(r)}
		}
	}()
	d := t.To(e.ctx, obj, tf)
	res["diags"] = encDiags(d)
	res["tf"] = EncodeTf(*tf)
	res["hooks"] = hooks()
	return res
}

func (e *Exec) callFrom(t *TypeEntry, tf types.Object, obj interface{}) (res J) {
	res = J{"panic": nil}
	tfx.TakeHookLog()
	defer func() {
		if r := recover(); r != nil {
			res = J{"panic": classifyPanic(r)}
		}
	}()
	d := t.From(e.ctx, tf, obj)
	res["diags"] = encDiags(d)
	res["obj"] = EncodeGoCanon(reflect.ValueOf(obj).Elem())
	res["hooks"] = hooks()
	return res
}

// fillMissing adds null values for attributes named in inj that are missing from objects, at any depth.
func fillMissing(v attr.Value, inj map[string]bool) attr.Value {
	switch x := v.(type) {
	case types.Object:
		if x.Attrs != nil {
			n := map[string]attr.Value{}
			for k, y := range x.Attrs {
				n[k] = fillMissing(y, inj)
			}
			x.Attrs = n
		}
		if !x.Null && !x.Unknown {
			for k, t := range x.AttrTypes {
				if _, ok := x.Attrs[k]; !ok && inj[k] {
					if x.Attrs == nil {
						x.Attrs = map[string]attr.Value{}
					}
					z, err := t.ValueFromTerraform(context.Background(), tftypes.NewValue(t.TerraformType(context.Background()), nil))
					if err == nil {
						x.Attrs[k] = z
					}
				}
			}
		}
		return x
	case types.List:
		if x.Elems != nil {
			n := make([]attr.Value, len(x.Elems))
			for i, y := range x.Elems {
				n[i] = fillMissing(y, inj)
			}
			x.Elems = n
		}
		return x
	case types.Map:
		if x.Elems != nil {
			n := map[string]attr.Value{}
			for k, y := range x.Elems {
				n[k] = fillMissing(y, inj)
			}
			x.Elems = n
		}
		return x
	}
	return v
}

// conformance evaluates C03's acceptance condition with the real framework.
func (e *Exec) conformance(t *TypeEntry, tf types.Object, inj []interface{}) (res J) {
	res = J{}
	defer func() {
		if r := recover(); r != nil {
			res = J{"conformPanic": fmt.Sprint(r)}
		}
	}()
	im := map[string]bool{}
	for _, x := range inj {
		im[x.(string)] = true
	}
	s, _ := t.Schema(e.ctx)
	filled := fillMissing(tf, im).(types.Object)
	val, err := filled.ToTerraformValue(e.ctx)
	if err != nil {
		res["toTerraformValue"] = err.Error()
		return res
	}
	want := s.TerraformType(e.ctx)
	res["typeEqual"] = val.Type().Equal(want)
	res["fullyKnown"] = val.IsFullyKnown()
	if _, err := s.AttributeType().ValueFromTerraform(e.ctx, val); err != nil {
		res["valueFromTerraform"] = err.Error()
	}
	return res
}

// Run executes one op.
func (e *Exec) Run(op map[string]interface{}) (res J) {
	defer func() {
		if r := recover(); r != nil {
			res = J{"harnessError": fmt.Sprint(r)}
		}
	}()
	name, _ := op["type"].(string)
	t := e.Reg.find(name)
	if t == nil {
		return J{"error": "unknown type " + name}
	}
	switch op["op"].(string) {
	case "schema":
		s, d := t.Schema(e.ctx)
		return J{"attrs": walkAttrs(e.ctx, s.Attributes), "diags": encDiags(d), "ty": EncodeTy(s.AttributeType())}
	case "copyTo":
		obj := e.decodeStructArg(t, op["obj"])
		tf := e.decodeObjArg(t, op["tf"])
		r := e.callTo(t, obj, &tf)
		if inj, ok := op["conform"]; ok && r["panic"] == nil {
			l, _ := inj.([]interface{})
			r["obs"] = e.conformance(t, tf, l)
		}
		return r
	case "copyFrom":
		tf := e.decodeObjArg(t, op["tf"])
		obj := e.decodeStructArg(t, op["prior"])
		return e.callFrom(t, tf, obj)
	case "seq":
		tf := e.decodeObjArg(t, op["tf"])
		obj := e.decodeStructArg(t, op["obj"])
		var steps []interface{}
		for _, st := range op["steps"].([]interface{}) {
			s := st.(map[string]interface{})
			var r J
			switch s["do"].(string) {
			case "to": // copy a given (or the current) struct into the current object
				if g, ok := s["obj"]; ok {
					obj = e.decodeStructArg(t, g)
				}
				r = e.callTo(t, obj, &tf)
			case "from": // copy the current object into a fresh (or the current) struct
				if p, _ := s["prior"].(string); p != "cur" {
					obj = t.New()
				}
				r = e.callFrom(t, tf, obj)
			case "peek": // decode the current object into a fresh struct; the current struct stays
				r = e.callFrom(t, tf, t.New())
			default:
				panic("bad step")
			}
			steps = append(steps, r)
			if r["panic"] != nil {
				break
			}
		}
		return J{"steps": steps}
	}
	return J{"error": "unknown op"}
}

// Main is the entry point of a batch binary.
func Main(reg *Registry) {
	reg.collectWrappers()
	e := &Exec{Reg: reg, ctx: context.Background()}
	if len(os.Args) > 1 && os.Args[1] == "genops" {
		GenOps(e, os.Args[2:])
		return
	}
	in := bufio.NewReaderSize(os.Stdin, 1<<20)
	out := bufio.NewWriterSize(os.Stdout, 1<<20)
	defer out.Flush()
	for {
		line, err := in.ReadBytes('\n')
		if len(strings.TrimSpace(string(line))) > 0 {
			var op map[string]interface{}
			if jerr := json.Unmarshal(line, &op); jerr != nil {
				fmt.Fprintf(out, "{\"harnessError\":%q}\n", jerr.Error())
			} else {
				b, _ := json.Marshal(e.Run(op))
				out.Write(b)
				out.WriteByte('\n')
				out.Flush()
			}
		}
		if err == io.EOF {
			return
		}
		if err != nil {
			panic(err)
		}
	}
}

func contextBackground() context.Context { return context.Background() }
