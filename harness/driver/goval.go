// Package driver is the generic, reflection-based execution driver that is linked with every
// generated batch package: canonical JSON <-> Go struct values / Terraform values, schema walks,
// op execution under recover, and type-directed random generation of inputs.
package driver

import (
	"encoding/hex"
	"fmt"
	"math"
	"reflect"
	"sort"
	"strconv"
	"strings"
	"time"
)

var (
	timeType  = reflect.TypeOf(time.Time{})
	bytesType = reflect.TypeOf([]byte(nil))
)

// J is a JSON object.
type J = map[string]interface{}

// TimeToken renders a time.Time canonically: unix seconds, nanoseconds, zone name, zone offset; "zero" for the zero time.
func TimeToken(t time.Time) string {
	if t == (time.Time{}) {
		return "zero"
	}
	name, off := t.Zone()
	return fmt.Sprintf("%d:%d:%s:%d", t.Unix(), t.Nanosecond(), name, off)
}

// ParseTimeToken is the inverse of TimeToken.
func ParseTimeToken(s string) time.Time {
	if s == "zero" {
		return time.Time{}
	}
	p := strings.Split(s, ":")
	if len(p) != 4 {
		panic("bad time token " + s)
	}
	sec, _ := strconv.ParseInt(p[0], 10, 64)
	ns, _ := strconv.ParseInt(p[1], 10, 64)
	off, _ := strconv.Atoi(p[3])
	if p[2] == "UTC" && off == 0 {
		return time.Unix(sec, ns).UTC()
	}
	return time.Unix(sec, ns).In(time.FixedZone(p[2], off))
}

func skipField(f reflect.StructField) bool {
	return strings.HasPrefix(f.Name, "XXX_") || f.PkgPath != ""
}

// EncodeGo renders a Go value (of the gogo-generated types) as canonical JSON.
func EncodeGo(v reflect.Value) interface{} { return encodeGo(v, false) }

// EncodeGoCanon is EncodeGo with struct fields that hold their zero value left out (absent = zero).
func EncodeGoCanon(v reflect.Value) interface{} { return encodeGo(v, true) }

func encodeGo(v reflect.Value, canon bool) interface{} {
	t := v.Type()
	switch {
	case t == timeType:
		return J{"t": TimeToken(v.Interface().(time.Time))}
	case t == bytesType || (t.Kind() == reflect.Slice && t.Elem().Kind() == reflect.Uint8):
		if v.IsNil() {
			return J{"y": nil}
		}
		return J{"y": hex.EncodeToString(v.Bytes())}
	}
	switch t.Kind() {
	case reflect.Bool:
		return J{"b": v.Bool()}
	case reflect.String:
		return J{"s": hex.EncodeToString([]byte(v.String()))}
	case reflect.Int32:
		return J{"w32": strconv.FormatUint(uint64(uint32(v.Int())), 10)}
	case reflect.Uint32:
		return J{"w32": strconv.FormatUint(v.Uint(), 10)}
	case reflect.Int64, reflect.Int: // (a cast to plain `int`: 64 bits on this platform)
		return J{"w64": strconv.FormatUint(uint64(v.Int()), 10)}
	case reflect.Uint64, reflect.Uint:
		return J{"w64": strconv.FormatUint(v.Uint(), 10)}
	case reflect.Float32:
		return J{"f32": strconv.FormatUint(uint64(math.Float32bits(float32(v.Float()))), 10)}
	case reflect.Float64:
		return J{"f64": strconv.FormatUint(math.Float64bits(v.Float()), 10)}
	case reflect.Ptr:
		if v.IsNil() {
			return J{"P": nil}
		}
		return J{"P": encodeGo(v.Elem(), canon)}
	case reflect.Slice:
		if v.IsNil() {
			return J{"L": nil}
		}
		l := make([]interface{}, v.Len())
		for i := range l {
			l[i] = encodeGo(v.Index(i), canon)
		}
		return J{"L": l}
	case reflect.Map:
		if v.IsNil() {
			return J{"M": nil}
		}
		m := J{}
		it := v.MapRange()
		for it.Next() {
			m[hex.EncodeToString([]byte(it.Key().String()))] = encodeGo(it.Value(), canon)
		}
		return J{"M": m}
	case reflect.Interface:
		if v.IsNil() {
			return J{"O": nil}
		}
		w := v.Elem() // *Wrapper
		if w.Kind() != reflect.Ptr || w.IsNil() || w.Elem().Kind() != reflect.Struct {
			return J{"O": J{"w": "?" + w.Type().String(), "f": "", "v": nil}}
		}
		ws := w.Elem()
		return J{"O": J{"w": ws.Type().Name(), "f": ws.Type().Field(0).Name, "v": encodeGo(ws.Field(0), canon)}}
	case reflect.Struct:
		m := J{}
		encodeStructInto(v, m, canon)
		return J{"S": m}
	}
	panic("EncodeGo: unsupported type " + t.String())
}

func encodeStructInto(v reflect.Value, m J, canon bool) {
	t := v.Type()
	for i := 0; i < t.NumField(); i++ {
		f := t.Field(i)
		if skipField(f) {
			continue
		}
		if f.Anonymous && f.Type.Kind() == reflect.Struct {
			encodeStructInto(v.Field(i), m, canon) // value-embedded message: flattened
			continue
		}
		if canon && isZeroValue(v.Field(i)) {
			continue
		}
		m[f.Name] = encodeGo(v.Field(i), canon)
	}
}

func u64(s interface{}) uint64 {
	x, err := strconv.ParseUint(s.(string), 10, 64)
	if err != nil {
		panic(err)
	}
	return x
}

func unhex(s interface{}) []byte {
	b, err := hex.DecodeString(s.(string))
	if err != nil {
		panic(err)
	}
	return b
}

// DecodeGo fills target (settable) from canonical JSON. wrappers maps oneof wrapper type names to types.
func DecodeGo(j interface{}, target reflect.Value, wrappers map[string]reflect.Type) {
	m, ok := j.(map[string]interface{})
	if !ok || len(m) != 1 {
		panic(fmt.Sprintf("DecodeGo: bad node %v", j))
	}
	t := target.Type()
	for k, x := range m {
		switch k {
		case "t":
			target.Set(reflect.ValueOf(ParseTimeToken(x.(string))))
		case "y":
			if x == nil {
				target.Set(reflect.Zero(t))
			} else {
				target.Set(reflect.ValueOf(unhex(x)).Convert(t))
			}
		case "b":
			target.SetBool(x.(bool))
		case "s":
			target.SetString(string(unhex(x)))
		case "w32":
			if t.Kind() == reflect.Uint32 {
				target.SetUint(u64(x))
			} else {
				target.SetInt(int64(int32(uint32(u64(x)))))
			}
		case "w64":
			if t.Kind() == reflect.Uint64 || t.Kind() == reflect.Uint {
				target.SetUint(u64(x))
			} else {
				target.SetInt(int64(u64(x)))
			}
		case "f32":
			target.SetFloat(float64(math.Float32frombits(uint32(u64(x)))))
		case "f64":
			target.SetFloat(math.Float64frombits(u64(x)))
		case "P":
			if x == nil {
				target.Set(reflect.Zero(t))
			} else {
				p := reflect.New(t.Elem())
				DecodeGo(x, p.Elem(), wrappers)
				target.Set(p)
			}
		case "L":
			if x == nil {
				target.Set(reflect.Zero(t))
			} else {
				l := x.([]interface{})
				s := reflect.MakeSlice(t, len(l), len(l))
				for i := range l {
					DecodeGo(l[i], s.Index(i), wrappers)
				}
				target.Set(s)
			}
		case "M":
			if x == nil {
				target.Set(reflect.Zero(t))
			} else {
				mm := reflect.MakeMap(t)
				for kk, vv := range x.(map[string]interface{}) {
					e := reflect.New(t.Elem()).Elem()
					DecodeGo(vv, e, wrappers)
					mm.SetMapIndex(reflect.ValueOf(string(unhex(kk))).Convert(t.Key()), e)
				}
				target.Set(mm)
			}
		case "O":
			if x == nil {
				target.Set(reflect.Zero(t))
			} else {
				o := x.(map[string]interface{})
				wt, ok := wrappers[o["w"].(string)]
				if !ok {
					panic("unknown oneof wrapper " + o["w"].(string))
				}
				w := reflect.New(wt)
				DecodeGo(o["v"], w.Elem().Field(0), wrappers)
				target.Set(w)
			}
		case "S":
			decodeStructFrom(x.(map[string]interface{}), target, wrappers)
		default:
			panic("DecodeGo: unknown tag " + k)
		}
	}
}

func decodeStructFrom(m map[string]interface{}, target reflect.Value, wrappers map[string]reflect.Type) {
	t := target.Type()
	for i := 0; i < t.NumField(); i++ {
		f := t.Field(i)
		if skipField(f) {
			continue
		}
		if f.Anonymous && f.Type.Kind() == reflect.Struct {
			decodeStructFrom(m, target.Field(i), wrappers)
			continue
		}
		if x, ok := m[f.Name]; ok {
			DecodeGo(x, target.Field(i), wrappers)
		}
	}
}

// SortedKeys returns the sorted keys of a JSON object.
func SortedKeys(m map[string]interface{}) []string {
	ks := make([]string, 0, len(m))
	for k := range m {
		ks = append(ks, k)
	}
	sort.Strings(ks)
	return ks
}

// EncodeStrs renders a []string-like custom value canonically.
func EncodeStrs(ss []string, isNil bool) interface{} {
	if isNil {
		return J{"L": nil}
	}
	l := make([]interface{}, len(ss))
	for i, s := range ss {
		l[i] = J{"s": hex.EncodeToString([]byte(s))}
	}
	return J{"L": l}
}

// isZeroValue reports whether v is the Go zero value, bit-wise for floats (-0.0 is not the zero value).
func isZeroValue(v reflect.Value) bool {
	switch v.Kind() {
	case reflect.Float32:
		return math.Float32bits(float32(v.Float())) == 0
	case reflect.Float64:
		return math.Float64bits(v.Float()) == 0
	case reflect.Struct:
		if v.Type() == timeType {
			return v.Interface().(time.Time) == (time.Time{})
		}
		for i := 0; i < v.NumField(); i++ {
			if skipField(v.Type().Field(i)) {
				continue
			}
			if !isZeroValue(v.Field(i)) {
				return false
			}
		}
		return true
	}
	return v.IsZero()
}
