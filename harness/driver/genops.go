package driver

import (
	"bufio"
	"encoding/json"
	"fmt"
	"math"
	"math/big"
	"os"
	"reflect"
	"sort"
	"strconv"
	"time"

	"github.com/hashicorp/terraform-plugin-framework/attr"
	"github.com/hashicorp/terraform-plugin-framework/types"
	"github.com/hashicorp/terraform-plugin-go/tftypes"

	"verifharness/tfx"
)

// Rng is splitmix64; every random choice of a run derives from one state.
type Rng struct{ s uint64 }

// NewRng seeds a generator.
func NewRng(seed uint64) *Rng { return &Rng{s: seed} }

// Next returns the next 64 random bits.
func (r *Rng) Next() uint64 {
	r.s += 0x9e3779b97f4a7c15
	z := r.s
	z = (z ^ (z >> 30)) * 0xbf58476d1ce4e5b9
	z = (z ^ (z >> 27)) * 0x94d049bb133111eb
	return z ^ (z >> 31)
}

// Intn returns a number in [0,n).
func (r *Rng) Intn(n int) int {
	if n <= 0 {
		return 0
	}
	return int(r.Next() % uint64(n))
}

// P returns true with probability pct/100.
func (r *Rng) P(pct int) bool { return r.Intn(100) < pct }

var strPool = []string{"", " ", "a", "x", "hello", "Hello World", "ü", "日本", "\U0001F600", "tab\tnl\n", "q\"uote", "H(x)", "a/b",
	"0", "false", "longer string value with spaces and more", "\xff\xfe", "\x00"}
var keyPool = []string{"k1", "k2", "key", "", "a b", "ü", "Z", "zz"}

var i32Pool = []uint32{0, 1, 2, 0xffffffff, 0x7fffffff, 0x80000000, 0x80000001, 0x7ffffffe, 100, 0xfffffffe}
var i64Pool = []uint64{0, 1, 2, math.MaxUint64, math.MaxInt64, 1 << 63, 1<<63 + 1, math.MaxInt64 - 1, 1 << 31, 1 << 32, 1<<32 - 1, 1 << 53, 1<<53 + 1, 1000}
var f32Pool = []uint32{0, 0x80000000, 1, 0x80000001, 0x007fffff, 0x00800000, 0x7f7fffff, 0xff7fffff, 0x3f800000, 0xbf800000, 0x3f800001,
	0x7f800000, 0xff800000, 0x3dcccccd, 0x40490fdb, 0x33800000}
var f64Pool = []uint64{0, 1 << 63, 1, 0x000fffffffffffff, 0x0010000000000000, 0x7fefffffffffffff, 0x3ff0000000000000, 0xbff0000000000000,
	0x3ff0000000000001, 0x7ff0000000000000, 0xfff0000000000000, 0x3fb999999999999a, 0x400921fb54442d18, 0x47efffffe0000000, 0x36a0000000000000}

func (r *Rng) str() string {
	if r.P(70) {
		return strPool[r.Intn(len(strPool))]
	}
	n := r.Intn(6)
	b := make([]byte, n)
	for i := range b {
		b[i] = byte(r.Next())
	}
	return string(b)
}

func (r *Rng) w32() uint32 {
	if r.P(60) {
		return i32Pool[r.Intn(len(i32Pool))]
	}
	return uint32(r.Next())
}

func (r *Rng) w64() uint64 {
	if r.P(60) {
		return i64Pool[r.Intn(len(i64Pool))]
	}
	return r.Next()
}

func (r *Rng) f32(allowNaN bool) uint32 {
	for {
		var b uint32
		if r.P(60) {
			b = f32Pool[r.Intn(len(f32Pool))]
		} else {
			b = uint32(r.Next())
		}
		f := math.Float32frombits(b)
		if f != f && !allowNaN {
			continue
		}
		return b
	}
}

func (r *Rng) f64(allowNaN bool) uint64 {
	for {
		var b uint64
		if r.P(60) {
			b = f64Pool[r.Intn(len(f64Pool))]
		} else {
			b = r.Next()
		}
		f := math.Float64frombits(b)
		if f != f && !allowNaN {
			continue
		}
		return b
	}
}

var zones = []*time.Location{time.UTC, time.FixedZone("CET", 3600), time.FixedZone("X", -5*3600-1800), time.FixedZone("", 0)}

func (r *Rng) timeVal() time.Time {
	switch r.Intn(8) {
	case 0:
		return time.Time{}
	case 1:
		return time.Unix(0, 0).UTC()
	case 2:
		return time.Unix(253402300799, 999999999).UTC()
	}
	sec := int64(r.Next() % 4102444800)
	ns := int64(r.Next() % 1000000000)
	if r.P(30) {
		ns = 0
	}
	return time.Unix(sec, ns).In(zones[r.Intn(len(zones))])
}

// Mode steers value generation.
type Mode struct {
	ZeroPct int // probability (in %) that a scalar is zero / a collection nil-or-empty / a pointer nil
	NaN     bool
}

// GenGo fills v with a random value of its type.
func (e *Exec) GenGo(r *Rng, v reflect.Value, m Mode, depth int) {
	t := v.Type()
	zero := r.P(m.ZeroPct)
	switch {
	case t == timeType:
		if !zero {
			v.Set(reflect.ValueOf(r.timeVal()))
		}
		return
	case t.Kind() == reflect.Slice && t.Elem().Kind() == reflect.Uint8:
		if zero {
			if r.P(50) {
				v.Set(reflect.MakeSlice(t, 0, 0))
			}
			return
		}
		v.Set(reflect.ValueOf([]byte(r.str())).Convert(t))
		return
	}
	switch t.Kind() {
	case reflect.Bool:
		v.SetBool(!zero && r.P(80))
	case reflect.String:
		if !zero {
			v.SetString(r.str())
		}
	case reflect.Int32:
		if !zero {
			v.SetInt(int64(int32(r.w32())))
		}
	case reflect.Uint32:
		if !zero {
			v.SetUint(uint64(r.w32()))
		}
	case reflect.Int64, reflect.Int:
		if !zero {
			v.SetInt(int64(r.w64()))
		}
	case reflect.Uint64, reflect.Uint:
		if !zero {
			v.SetUint(r.w64())
		}
	case reflect.Float32:
		if !zero {
			v.SetFloat(float64(math.Float32frombits(r.f32(m.NaN))))
		}
	case reflect.Float64:
		if !zero {
			v.SetFloat(math.Float64frombits(r.f64(m.NaN)))
		}
	case reflect.Ptr:
		if zero {
			return
		}
		p := reflect.New(t.Elem())
		e.GenGo(r, p.Elem(), m, depth+1)
		v.Set(p)
	case reflect.Slice:
		if zero {
			if r.P(40) {
				v.Set(reflect.MakeSlice(t, 0, 0))
			}
			return
		}
		n := 1 + r.Intn(3)
		if depth > 3 {
			n = 1
		}
		s := reflect.MakeSlice(t, n, n)
		for i := 0; i < n; i++ {
			e.GenGo(r, s.Index(i), m, depth+1)
		}
		v.Set(s)
	case reflect.Map:
		if zero {
			if r.P(40) {
				v.Set(reflect.MakeMap(t))
			}
			return
		}
		n := 1 + r.Intn(3)
		if depth > 3 {
			n = 1
		}
		mm := reflect.MakeMap(t)
		for i := 0; i < n; i++ {
			el := reflect.New(t.Elem()).Elem()
			e.GenGo(r, el, m, depth+1)
			mm.SetMapIndex(reflect.ValueOf(keyPool[r.Intn(len(keyPool))]).Convert(t.Key()), el)
		}
		v.Set(mm)
	case reflect.Interface:
		if zero {
			return
		}
		var cands []reflect.Type
		names := make([]string, 0, len(e.Reg.wrappers))
		for n := range e.Reg.wrappers {
			names = append(names, n)
		}
		sort.Strings(names)
		for _, n := range names {
			if reflect.PtrTo(e.Reg.wrappers[n]).Implements(t) {
				cands = append(cands, e.Reg.wrappers[n])
			}
		}
		if len(cands) == 0 {
			return
		}
		w := reflect.New(cands[r.Intn(len(cands))])
		e.GenGo(r, w.Elem().Field(0), m, depth+1)
		v.Set(w)
	case reflect.Struct:
		for i := 0; i < t.NumField(); i++ {
			if skipField(t.Field(i)) {
				continue
			}
			e.GenGo(r, v.Field(i), m, depth)
		}
	default:
		panic("GenGo: unsupported " + t.String())
	}
}

// PlanMode steers generation of Terraform values.
type PlanMode struct {
	NullPct, UnknownPct int
	// KeepObjects: objects, lists and maps are always known and non-null; NullPct / UnknownPct apply to leaves only
	KeepObjects bool
}

var durPool = []string{"0s", "1ns", "-1ns", "5m0s", "1h2m3s", "-2562047h47m16.854775808s", "2562047h47m16.854775807s"}

// GenTfValue makes a random tftypes.Value for the attr.Type (as Terraform could send it).
func GenTfValue(r *Rng, t attr.Type, m PlanMode, depth int) tftypes.Value {
	ctx := e0ctx
	tt := t.TerraformType(ctx)
	_, isObj := t.(types.ObjectType)
	_, isList := t.(types.ListType)
	_, isMap := t.(types.MapType)
	if !(m.KeepObjects && (isObj || isList || isMap)) {
		if r.P(m.UnknownPct) {
			return tftypes.NewValue(tt, tftypes.UnknownValue)
		}
		if r.P(m.NullPct) {
			return tftypes.NewValue(tt, nil)
		}
	}
	switch x := t.(type) {
	case types.ObjectType:
		vals := map[string]tftypes.Value{}
		for k, at := range x.AttrTypes {
			_ = k
			_ = at
		}
		ks := make([]string, 0, len(x.AttrTypes))
		for k := range x.AttrTypes {
			ks = append(ks, k)
		}
		sort.Strings(ks)
		for _, k := range ks {
			vals[k] = GenTfValue(r, x.AttrTypes[k], m, depth+1)
		}
		return tftypes.NewValue(tt, vals)
	case types.ListType:
		n := r.Intn(4)
		if depth > 3 && n > 1 {
			n = 1
		}
		vals := make([]tftypes.Value, n)
		em := m
		for i := range vals {
			vals[i] = GenTfValue(r, x.ElemType, em, depth+1)
		}
		return tftypes.NewValue(tt, vals)
	case types.MapType:
		n := r.Intn(4)
		if depth > 3 && n > 1 {
			n = 1
		}
		vals := map[string]tftypes.Value{}
		for i := 0; i < n; i++ {
			vals[keyPool[r.Intn(len(keyPool))]] = GenTfValue(r, x.ElemType, m, depth+1)
		}
		return tftypes.NewValue(tt, vals)
	case tfx.TimeType:
		return tftypes.NewValue(tt, r.timeVal().Truncate(time.Second).Format(time.RFC3339))
	case tfx.DurationType:
		if r.P(50) {
			return tftypes.NewValue(tt, durPool[r.Intn(len(durPool))])
		}
		return tftypes.NewValue(tt, time.Duration(int64(r.w64())).String())
	}
	switch t {
	case types.StringType:
		s := r.str()
		return tftypes.NewValue(tt, s)
	case types.BoolType:
		return tftypes.NewValue(tt, r.P(50))
	case types.Int64Type:
		// a value in the range of int32 most of the time (so that it fits every integer field), sometimes any int64
		var x int64
		switch r.Intn(4) {
		case 0:
			x = 0
		case 1:
			x = int64(r.Intn(1 << 31))
		default:
			x = int64(r.Intn(1000))
		}
		return tftypes.NewValue(tt, big.NewFloat(0).SetInt64(x))
	case types.Float64Type:
		// exactly representable as float32, so that it fits float and double fields alike
		f := float64(math.Float32frombits(r.f32(false)))
		if math.IsInf(f, 0) {
			f = 1.5
		}
		return tftypes.NewValue(tt, big.NewFloat(f))
	}
	panic(fmt.Sprintf("GenTfValue: unsupported type %T", t))
}

// addPayload returns a copy of v in which null / unknown nodes carry a payload.
func addPayload(r *Rng, v attr.Value) attr.Value {
	switch x := v.(type) {
	case types.String:
		if x.Null || x.Unknown {
			x.Value = "payload"
		}
		return x
	case types.Int64:
		if x.Null || x.Unknown {
			x.Value = 77
		}
		return x
	case types.Float64:
		if x.Null || x.Unknown {
			x.Value = 7.5
		}
		return x
	case types.Bool:
		if x.Null || x.Unknown {
			x.Value = true
		}
		return x
	case tfx.TimeValue:
		if x.Null || x.Unknown {
			x.Value = time.Unix(1700000000, 5).UTC()
		}
		return x
	case tfx.DurationValue:
		if x.Null || x.Unknown {
			x.Value = 90 * time.Second
		}
		return x
	case types.Object:
		if x.Null || x.Unknown {
			tv := GenTfValue(r, types.ObjectType{AttrTypes: x.AttrTypes}, PlanMode{NullPct: 10}, 3)
			if !tv.IsNull() {
				d, err := types.ObjectType{AttrTypes: x.AttrTypes}.ValueFromTerraform(e0ctx, tv)
				if err == nil {
					x.Attrs = d.(types.Object).Attrs
				}
			}
			return x
		}
		n := map[string]attr.Value{}
		for _, k := range sortedAttrKeys(x.Attrs) {
			n[k] = addPayload(r, x.Attrs[k])
		}
		x.Attrs = n
		return x
	case types.List:
		if x.Null || x.Unknown {
			tv := GenTfValue(r, types.ListType{ElemType: x.ElemType}, PlanMode{}, 3)
			d, err := types.ListType{ElemType: x.ElemType}.ValueFromTerraform(e0ctx, tv)
			if err == nil {
				x.Elems = d.(types.List).Elems
			}
			return x
		}
		n := make([]attr.Value, len(x.Elems))
		for i, y := range x.Elems {
			n[i] = addPayload(r, y)
		}
		x.Elems = n
		return x
	case types.Map:
		if x.Null || x.Unknown {
			tv := GenTfValue(r, types.MapType{ElemType: x.ElemType}, PlanMode{}, 3)
			d, err := types.MapType{ElemType: x.ElemType}.ValueFromTerraform(e0ctx, tv)
			if err == nil {
				x.Elems = d.(types.Map).Elems
			}
			return x
		}
		n := map[string]attr.Value{}
		for _, k := range sortedAttrKeys(x.Elems) {
			n[k] = addPayload(r, x.Elems[k])
		}
		x.Elems = n
		return x
	}
	return v
}

// wrongValue returns an attr.Value that has not the Go type of v.
func wrongValue(r *Rng, v attr.Value) attr.Value {
	cands := []attr.Value{nil, Foreign{Value: types.String{}, Tag: "foreign"}, types.String{Value: "wrong"}, types.Int64{Value: 3}, types.Bool{Value: true},
		types.List{ElemType: types.StringType, Elems: []attr.Value{types.String{Value: "w"}}},
		types.Map{ElemType: types.StringType, Elems: map[string]attr.Value{"w": types.String{Value: "w"}}},
		types.Object{AttrTypes: map[string]attr.Type{}, Attrs: map[string]attr.Value{}},
		types.Float64{Value: 1.5}}
	for {
		c := cands[r.Intn(len(cands))]
		if c == nil || v == nil || reflect.TypeOf(c) != reflect.TypeOf(v) {
			return c
		}
	}
}

// malform damages a conforming value: deletions, wrong-typed replacements, nil containers, at any depth.
func malform(r *Rng, v attr.Value, pct int) attr.Value {
	switch x := v.(type) {
	case types.Object:
		if x.Attrs == nil {
			return x
		}
		if r.P(pct / 3) {
			x.Attrs = nil
			return x
		}
		n := map[string]attr.Value{}
		ks := make([]string, 0, len(x.Attrs))
		for k := range x.Attrs {
			ks = append(ks, k)
		}
		sort.Strings(ks)
		for _, k := range ks {
			y := x.Attrs[k]
			switch {
			case r.P(pct):
				// deleted
			case r.P(pct):
				n[k] = wrongValue(r, y)
			default:
				n[k] = malform(r, y, pct)
			}
		}
		x.Attrs = n
		return x
	case types.List:
		if x.Elems == nil {
			return x
		}
		if r.P(pct / 3) {
			x.Elems = nil
			return x
		}
		n := make([]attr.Value, len(x.Elems))
		for i, y := range x.Elems {
			if r.P(pct) {
				n[i] = wrongValue(r, y)
			} else {
				n[i] = malform(r, y, pct)
			}
		}
		x.Elems = n
		return x
	case types.Map:
		if x.Elems == nil {
			return x
		}
		if r.P(pct / 3) {
			x.Elems = nil
			return x
		}
		n := map[string]attr.Value{}
		ks := make([]string, 0, len(x.Elems))
		for k := range x.Elems {
			ks = append(ks, k)
		}
		sort.Strings(ks)
		for _, k := range ks {
			if r.P(pct) {
				n[k] = wrongValue(r, x.Elems[k])
			} else {
				n[k] = malform(r, x.Elems[k], pct)
			}
		}
		x.Elems = n
		return x
	}
	return v
}

// malformAt applies exactly one malformation at the n-th site of the value tree (sites in a deterministic order:
// every attribute of every object – deleted when del, else wrong-typed – and every element of every list / map –
// wrong-typed). cnt counts the sites seen so far; call with n = -1 to count the sites.
func malformAt(r *Rng, v attr.Value, cnt *int, n int, del bool) attr.Value {
	hit := func() bool {
		*cnt++
		return *cnt-1 == n
	}
	switch x := v.(type) {
	case types.Object:
		if x.Attrs == nil {
			return x
		}
		m := map[string]attr.Value{}
		for _, k := range sortedAttrKeys(x.Attrs) {
			y := x.Attrs[k]
			if hit() {
				if !del {
					m[k] = wrongValue(r, y)
				}
				continue
			}
			m[k] = malformAt(r, y, cnt, n, del)
		}
		x.Attrs = m
		return x
	case types.List:
		if x.Elems == nil {
			return x
		}
		m := make([]attr.Value, len(x.Elems))
		for i, y := range x.Elems {
			if hit() {
				m[i] = wrongValue(r, y)
				continue
			}
			m[i] = malformAt(r, y, cnt, n, del)
		}
		x.Elems = m
		return x
	case types.Map:
		if x.Elems == nil {
			return x
		}
		m := map[string]attr.Value{}
		for _, k := range sortedAttrKeys(x.Elems) {
			if hit() {
				m[k] = wrongValue(r, x.Elems[k])
				continue
			}
			m[k] = malformAt(r, x.Elems[k], cnt, n, del)
		}
		x.Elems = m
		return x
	}
	return v
}

// dropTypes removes attribute types at any object level of the type.
func dropTypes(r *Rng, t attr.Type, pct int) attr.Type {
	switch x := t.(type) {
	case types.ObjectType:
		n := map[string]attr.Type{}
		ks := make([]string, 0, len(x.AttrTypes))
		for k := range x.AttrTypes {
			ks = append(ks, k)
		}
		sort.Strings(ks)
		for _, k := range ks {
			if r.P(pct) {
				continue
			}
			n[k] = dropTypes(r, x.AttrTypes[k], pct)
		}
		return types.ObjectType{AttrTypes: n}
	case types.ListType:
		return types.ListType{ElemType: dropTypes(r, x.ElemType, pct)}
	case types.MapType:
		return types.MapType{ElemType: dropTypes(r, x.ElemType, pct)}
	}
	return t
}

var e0ctx = contextBackground()

// GenOps prints op lines for every registered type. args: seed, scale.
func GenOps(e *Exec, args []string) {
	seed, _ := strconv.ParseUint(args[0], 10, 64)
	scale := 1
	if len(args) > 1 {
		scale, _ = strconv.Atoi(args[1])
	}
	var inj []interface{}
	if len(args) > 2 {
		_ = json.Unmarshal([]byte(args[2]), &inj)
	}
	if inj == nil {
		inj = []interface{}{}
	}
	var groups [][]string
	if len(args) > 3 {
		_ = json.Unmarshal([]byte(args[3]), &groups)
	}
	out := bufio.NewWriterSize(os.Stdout, 1<<20)
	defer out.Flush()
	id := 0
	emit := func(op J) {
		id++
		op["id"] = id
		b, err := json.Marshal(op)
		if err != nil {
			panic(err)
		}
		out.Write(b)
		out.WriteByte('\n')
	}
	for ti := range e.Reg.Types {
		t := &e.Reg.Types[ti]
		r := NewRng(seed*1000003 + uint64(ti)*7919 + 1)
		emit(J{"op": "schema", "type": t.Name, "tag": "schema"})
		s, _ := t.Schema(e.ctx)
		ot := s.AttributeType().(types.ObjectType)
		modes := []Mode{{ZeroPct: 100}, {ZeroPct: 0}, {ZeroPct: 30}, {ZeroPct: 60}, {ZeroPct: 15, NaN: true}}
		genGo := func(m Mode) interface{} {
			p := t.New()
			e.GenGo(r, reflect.ValueOf(p).Elem(), m, 0)
			return EncodeGo(reflect.ValueOf(p).Elem())
		}
		genPlan := func(pm PlanMode) (types.Object, bool) {
			for try := 0; try < 20; try++ {
				tv := GenTfValue(r, ot, pm, 0)
				if tv.IsNull() || !tv.IsKnown() {
					continue
				}
				v, err := ot.ValueFromTerraform(e.ctx, tv)
				if err != nil {
					continue
				}
				return exclusive(r, v, groups).(types.Object), true
			}
			return types.Object{}, false
		}
		// C03 / C20 / C19: struct -> empty object (with the framework's acceptance test); C04: and back.
		for i := 0; i < 6*scale; i++ {
			g := genGo(modes[i%len(modes)])
			emit(J{"op": "copyTo", "type": t.Name, "obj": g, "tf": "empty", "conform": inj, "tag": "to-empty"})
			emit(J{"op": "seq", "type": t.Name, "tf": "empty", "obj": "zero", "tag": "rt",
				"steps": []interface{}{J{"do": "to", "obj": g}, J{"do": "from"}}})
		}
		// C05 / C07: conforming objects into varying prior structs, with and without payload under null / unknown.
		pms := []PlanMode{{NullPct: 25, UnknownPct: 10}, {NullPct: 60, UnknownPct: 20}, {NullPct: 5, UnknownPct: 0}, {NullPct: 100}, {NullPct: 0, UnknownPct: 100}}
		for i := 0; i < 5*scale; i++ {
			o, ok := genPlan(pms[i%len(pms)])
			if !ok {
				continue
			}
			grp := fmt.Sprintf("%s-from-%d", t.Name, i)
			enc := EncodeTf(o)
			emit(J{"op": "copyFrom", "type": t.Name, "tf": enc, "prior": "zero", "tag": "from", "grp": grp})
			emit(J{"op": "copyFrom", "type": t.Name, "tf": enc, "prior": genGo(Mode{ZeroPct: 0}), "tag": "from", "grp": grp})
			emit(J{"op": "copyFrom", "type": t.Name, "tf": enc, "prior": genGo(Mode{ZeroPct: 40}), "tag": "from", "grp": grp})
			emit(J{"op": "copyFrom", "type": t.Name, "tf": EncodeTf(addPayload(r, o)), "prior": genGo(Mode{ZeroPct: 20}), "tag": "from-payload", "grp": grp})
			// C08: apply echo
			emit(J{"op": "seq", "type": t.Name, "tf": enc, "obj": "zero", "tag": "echo",
				"steps": []interface{}{J{"do": "from"}, J{"do": "to"}, J{"do": "from"}}})
			// C06 / C08 (CopyTo step): an arbitrary typed struct into a decoded plan / state object (null objects and
			// collections hold nil Attrs / Elems there, unknown values anywhere): no panic, no diagnostic, the result follows the struct
			emit(J{"op": "copyTo", "type": t.Name, "obj": genGo(Mode{ZeroPct: 15 * (i % 3)}), "tf": enc, "tag": "to-plan"})
			// ... and into a hand-made state object: known lists / maps whose Elems container is nil (`types.Map{ElemType: t}`),
			// known nested objects whose Attrs container is nil, at every depth
			emit(J{"op": "copyTo", "type": t.Name, "obj": genGo(Mode{ZeroPct: 10 * (i % 3)}), "tf": EncodeTf(nilContainers(o, 0)), "tag": "to-plan"})
			// C06: malformed variants
			emit(J{"op": "copyFrom", "type": t.Name, "tf": EncodeTf(malform(r, o, 15)), "prior": "zero", "tag": "from-malformed"})
			emit(J{"op": "copyFrom", "type": t.Name, "tf": EncodeTf(malform(r, o, 40)), "prior": genGo(Mode{ZeroPct: 30}), "tag": "from-malformed"})
		}
		// C08 / C05: one-hot plans – exactly one attribute of the root object unknown (resp. known), all others null:
		// a value that has nothing known next to it (e.g. the only planned attribute of a nullable embedded message)
		{
			ks := make([]string, 0, len(ot.AttrTypes))
			for k := range ot.AttrTypes {
				ks = append(ks, k)
			}
			sort.Strings(ks)
			budget := 10 * scale
			step := 1
			if len(ks) > budget {
				step = len(ks) / budget
			}
			for i, n := r.Intn(step), 0; i < len(ks) && n < budget+2; i, n = i+step, n+1 {
				for _, unknown := range []bool{true, false} {
					vals := map[string]tftypes.Value{}
					for _, k := range ks {
						at := ot.AttrTypes[k]
						switch {
						case k != ks[i]:
							vals[k] = tftypes.NewValue(at.TerraformType(e.ctx), nil)
						case unknown:
							vals[k] = tftypes.NewValue(at.TerraformType(e.ctx), tftypes.UnknownValue)
						default:
							vals[k] = GenTfValue(r, at, PlanMode{KeepObjects: true}, 1)
						}
					}
					v, err := ot.ValueFromTerraform(e.ctx, tftypes.NewValue(ot.TerraformType(e.ctx), vals))
					if err != nil {
						continue
					}
					enc := EncodeTf(exclusive(r, v, groups))
					emit(J{"op": "seq", "type": t.Name, "tf": enc, "obj": "zero", "tag": "echo", "grp": "onehot",
						"steps": []interface{}{J{"do": "from"}, J{"do": "to"}, J{"do": "from"}}})
					if n%3 == 0 {
						emit(J{"op": "copyFrom", "type": t.Name, "tf": enc, "prior": genGo(Mode{ZeroPct: 0}), "tag": "from", "grp": "onehot"})
					}
				}
			}
		}
		// C05 / C08: element matrices – one list / map attribute of the root is known and holds a known, an unknown and a
		// null element (in rotating order), every other attribute is null; against an empty and a populated prior struct
		{
			var cs []string
			for k, at := range ot.AttrTypes {
				switch at.(type) {
				case types.ListType, types.MapType:
					cs = append(cs, k)
				}
			}
			sort.Strings(cs)
			budget := 40 * scale
			step := 1
			if len(cs) > budget {
				step = len(cs) / budget
			}
			for i, n := 0, 0; i < len(cs) && n < budget; i, n = i+step, n+1 {
				at := ot.AttrTypes[cs[i]]
				var et attr.Type
				lt, isList := at.(types.ListType)
				if isList {
					et = lt.ElemType
				} else {
					et = at.(types.MapType).ElemType
				}
				kinds := [][]int{{0, 1, 2}, {1, 0}, {2, 1}, {1}}[n%4]
				var evs []tftypes.Value
				for _, kd := range kinds {
					switch kd {
					case 0:
						evs = append(evs, GenTfValue(r, et, PlanMode{KeepObjects: true}, 2))
					case 1:
						evs = append(evs, tftypes.NewValue(et.TerraformType(e.ctx), tftypes.UnknownValue))
					default:
						evs = append(evs, tftypes.NewValue(et.TerraformType(e.ctx), nil))
					}
				}
				vals := map[string]tftypes.Value{}
				for k, a := range ot.AttrTypes {
					vals[k] = tftypes.NewValue(a.TerraformType(e.ctx), nil)
				}
				if isList {
					vals[cs[i]] = tftypes.NewValue(at.TerraformType(e.ctx), evs)
				} else {
					mv := map[string]tftypes.Value{}
					for j, ev := range evs {
						mv[keyPool[j%len(keyPool)]] = ev
					}
					vals[cs[i]] = tftypes.NewValue(at.TerraformType(e.ctx), mv)
				}
				v, err := ot.ValueFromTerraform(e.ctx, tftypes.NewValue(ot.TerraformType(e.ctx), vals))
				if err != nil {
					continue
				}
				enc := EncodeTf(exclusive(r, v, groups))
				emit(J{"op": "copyFrom", "type": t.Name, "tf": enc, "prior": "zero", "tag": "from", "grp": "elems"})
				emit(J{"op": "copyFrom", "type": t.Name, "tf": enc, "prior": genGo(Mode{ZeroPct: 0}), "tag": "from", "grp": "elems"})
				emit(J{"op": "seq", "type": t.Name, "tf": enc, "obj": "zero", "tag": "echo", "grp": "elems",
					"steps": []interface{}{J{"do": "from"}, J{"do": "to"}, J{"do": "from"}}})
			}
		}
		// C06: exactly one malformation per object, walking through the sites (attributes and elements at every depth)
		if base, ok := genPlan(PlanMode{NullPct: 3, KeepObjects: true}); ok {
			total := 0
			malformAt(r, base, &total, -1, false)
			budget := 14 * scale
			step := 1
			if total > budget {
				step = total / budget
			}
			for site, k := r.Intn(step), 0; site < total && k < budget+2; site, k = site+step, k+1 {
				c := 0
				emit(J{"op": "copyFrom", "type": t.Name, "tf": EncodeTf(malformAt(r, base, &c, site, k%3 == 2)), "prior": "zero", "tag": "from-malformed", "grp": "site"})
			}
		}
		// C07 / C05: oneof matrices – at every object level that holds a oneof group: each branch (or none) known,
		// the others null or unknown, against an empty and a fully populated prior struct; and all leaves null under
		// known objects against a populated prior
		if base, ok := genPlan(PlanMode{}); ok {
			n := 0
			for _, v := range oneofMatrix(r, base, groups) {
				enc := EncodeTf(v)
				emit(J{"op": "copyFrom", "type": t.Name, "tf": enc, "prior": "zero", "tag": "from", "grp": "matrix"})
				emit(J{"op": "copyFrom", "type": t.Name, "tf": enc, "prior": genGo(Mode{ZeroPct: 0}), "tag": "from", "grp": "matrix"})
				n++
				if n >= 10*scale {
					break
				}
			}
		}
		for i := 0; i < 2*scale; i++ {
			if o, ok := genPlan(PlanMode{NullPct: 70 + 30*(i%2), UnknownPct: 30 * (i % 2), KeepObjects: true}); ok {
				emit(J{"op": "copyFrom", "type": t.Name, "tf": EncodeTf(o), "prior": genGo(Mode{ZeroPct: 0}), "tag": "from", "grp": "leafnull"})
			}
		}
		// C06 (CopyTo half): attribute types removed at any level
		for i := 0; i < 3*scale; i++ {
			dt := dropTypes(r, ot, 10+20*(i%3)).(types.ObjectType)
			emit(J{"op": "copyTo", "type": t.Name, "obj": genGo(Mode{ZeroPct: 10}), "tag": "to-malformed",
				"tf": EncodeTf(types.Object{AttrTypes: dt.AttrTypes})})
		}
		// C09: refresh sequences on one object
		for i := 0; i < 3*scale; i++ {
			n := 2 + r.Intn(4)
			steps := []interface{}{}
			for k := 0; k < n; k++ {
				g := genGo(modes[r.Intn(len(modes)-1)])
				steps = append(steps, J{"do": "to", "obj": g}, J{"do": "peek"})
				if r.P(50) {
					steps = append(steps, J{"do": "to"}, J{"do": "peek"}) // idempotence: same source again
				}
			}
			emit(J{"op": "seq", "type": t.Name, "tf": "empty", "obj": "zero", "tag": "refresh", "steps": steps})
		}
	}
}

// nilContainers returns a copy of v in which every known list / map has no Elems container and every known nested object no
// Attrs container (the top-level object keeps its attributes): what a state object written by hand looks like.
func nilContainers(v attr.Value, depth int) attr.Value {
	switch x := v.(type) {
	case types.Object:
		if x.Null || x.Unknown {
			return x
		}
		if depth > 0 && depth%2 == 0 {
			x.Attrs = nil
			return x
		}
		attrs := make(map[string]attr.Value, len(x.Attrs))
		for k, a := range x.Attrs {
			attrs[k] = nilContainers(a, depth+1)
		}
		x.Attrs = attrs
		return x
	case types.List:
		if !x.Null && !x.Unknown {
			x.Elems = nil
		}
		return x
	case types.Map:
		if !x.Null && !x.Unknown {
			x.Elems = nil
		}
		return x
	}
	return v
}

// exclusive keeps at most one attribute of every oneof group non-null (the quantifier of C07 / C08), at every depth.
func exclusive(r *Rng, v attr.Value, groups [][]string) attr.Value {
	switch x := v.(type) {
	case types.Object:
		if x.Attrs == nil {
			return x
		}
		n := map[string]attr.Value{}
		for _, k := range sortedAttrKeys(x.Attrs) {
			n[k] = exclusive(r, x.Attrs[k], groups)
		}
		for _, g := range groups {
			var live []string
			for _, name := range g {
				if a, ok := n[name]; ok && !a.IsNull() {
					live = append(live, name)
				}
			}
			if len(live) > 1 {
				keep := live[r.Intn(len(live))]
				for _, name := range live {
					if name == keep {
						continue
					}
					t := x.AttrTypes[name]
					if z, err := t.ValueFromTerraform(e0ctx, tftypes.NewValue(t.TerraformType(e0ctx), nil)); err == nil {
						n[name] = z
					}
				}
			}
		}
		x.Attrs = n
		return x
	case types.List:
		if x.Elems == nil {
			return x
		}
		n := make([]attr.Value, len(x.Elems))
		for i, y := range x.Elems {
			n[i] = exclusive(r, y, groups)
		}
		x.Elems = n
		return x
	case types.Map:
		if x.Elems == nil {
			return x
		}
		n := map[string]attr.Value{}
		for _, k := range sortedAttrKeys(x.Elems) {
			n[k] = exclusive(r, x.Elems[k], groups)
		}
		x.Elems = n
		return x
	}
	return v
}

func sortedAttrKeys(m map[string]attr.Value) []string {
	ks := make([]string, 0, len(m))
	for k := range m {
		ks = append(ks, k)
	}
	sort.Strings(ks)
	return ks
}

// nullOf returns the null (or unknown) value of an attribute's type.
func stateOf(t attr.Type, unknown bool) attr.Value {
	var raw interface{}
	if unknown {
		raw = tftypes.UnknownValue
	}
	z, err := t.ValueFromTerraform(e0ctx, tftypes.NewValue(t.TerraformType(e0ctx), raw))
	if err != nil {
		return nil
	}
	return z
}

// oneofMatrix derives from a fully known plan the variants in which, at one object level that holds attributes of a
// oneof group, exactly one branch (or none) is known and the others are null or unknown.
func oneofMatrix(r *Rng, base types.Object, groups [][]string) []types.Object {
	var out []types.Object
	type site struct {
		path  []string // attribute names / "#i" list indices / "@k" map keys leading to the object
		group []string
	}
	var sites []site
	var walk func(v attr.Value, path []string)
	walk = func(v attr.Value, path []string) {
		switch x := v.(type) {
		case types.Object:
			for _, g := range groups {
				var present []string
				for _, n := range g {
					if _, ok := x.Attrs[n]; ok {
						present = append(present, n)
					}
				}
				if len(present) >= 1 && len(present) == len(g) {
					sites = append(sites, site{append([]string{}, path...), present})
				}
			}
			for _, k := range sortedAttrKeys(x.Attrs) {
				walk(x.Attrs[k], append(path, k))
			}
		case types.List:
			for i, e := range x.Elems {
				if i > 0 {
					break
				}
				walk(e, append(path, "#0"))
			}
		case types.Map:
			ks := sortedAttrKeys(x.Elems)
			if len(ks) > 0 {
				walk(x.Elems[ks[0]], append(path, "@"+ks[0]))
			}
		}
	}
	walk(base, nil)
	var rebuild func(v attr.Value, path []string, f func(types.Object) types.Object) attr.Value
	rebuild = func(v attr.Value, path []string, f func(types.Object) types.Object) attr.Value {
		if len(path) == 0 {
			return f(v.(types.Object))
		}
		switch x := v.(type) {
		case types.Object:
			n := map[string]attr.Value{}
			for k, y := range x.Attrs {
				n[k] = y
			}
			n[path[0]] = rebuild(x.Attrs[path[0]], path[1:], f)
			x.Attrs = n
			return x
		case types.List:
			n := append([]attr.Value{}, x.Elems...)
			n[0] = rebuild(x.Elems[0], path[1:], f)
			x.Elems = n
			return x
		case types.Map:
			n := map[string]attr.Value{}
			for k, y := range x.Elems {
				n[k] = y
			}
			k := path[0][1:]
			n[k] = rebuild(x.Elems[k], path[1:], f)
			x.Elems = n
			return x
		}
		return v
	}
	for _, s := range sites {
		choices := append([]string{""}, s.group...)
		for ci, keep := range choices {
			unknown := (ci+len(out))%2 == 1
			s := s
			keep := keep
			v := rebuild(base, s.path, func(o types.Object) types.Object {
				n := map[string]attr.Value{}
				for k, y := range o.Attrs {
					n[k] = y
				}
				for _, name := range s.group {
					if name == keep {
						continue
					}
					if z := stateOf(o.AttrTypes[name], unknown); z != nil {
						n[name] = z
					}
				}
				o.Attrs = n
				return o
			})
			out = append(out, v.(types.Object))
		}
	}
	// shuffle deterministically so that a cap does not always cut the same sites
	for i := len(out) - 1; i > 0; i-- {
		j := r.Intn(i + 1)
		out[i], out[j] = out[j], out[i]
	}
	return out
}
