package driver

import (
	"encoding/hex"
	"fmt"
	"math"
	"strconv"
	"time"

	"github.com/hashicorp/terraform-plugin-framework/attr"
	"github.com/hashicorp/terraform-plugin-framework/types"

	"verifharness/tfx"
)

// Foreign is an attr.Value of a type the generated code never expects (malformed-input stream).
type Foreign struct {
	attr.Value
	Tag string
}

// EncodeTy renders an attr.Type canonically.
func EncodeTy(t attr.Type) interface{} {
	switch x := t.(type) {
	case nil:
		return nil
	case types.ListType:
		return J{"list": EncodeTy(x.ElemType)}
	case types.MapType:
		return J{"map": EncodeTy(x.ElemType)}
	case types.ObjectType:
		if x.AttrTypes == nil {
			return J{"obj": nil}
		}
		m := J{}
		for k, v := range x.AttrTypes {
			m[k] = EncodeTy(v)
		}
		return J{"obj": m}
	case tfx.TimeType:
		return "Time"
	case tfx.DurationType:
		return "Duration"
	}
	switch t {
	case types.StringType:
		return "String"
	case types.Int64Type:
		return "Int64"
	case types.Float64Type:
		return "Float64"
	case types.BoolType:
		return "Bool"
	case types.NumberType:
		return "Number"
	}
	return J{"other": fmt.Sprintf("%T", t)}
}

// DecodeTy is the inverse of EncodeTy.
func DecodeTy(j interface{}) attr.Type {
	switch x := j.(type) {
	case nil:
		return nil
	case string:
		switch x {
		case "String":
			return types.StringType
		case "Int64":
			return types.Int64Type
		case "Float64":
			return types.Float64Type
		case "Bool":
			return types.BoolType
		case "Number":
			return types.NumberType
		case "Time":
			return tfx.UseRFC3339Time()
		case "Duration":
			return tfx.DurationType{}
		}
	case map[string]interface{}:
		if e, ok := x["list"]; ok {
			return types.ListType{ElemType: DecodeTy(e)}
		}
		if e, ok := x["map"]; ok {
			return types.MapType{ElemType: DecodeTy(e)}
		}
		if e, ok := x["obj"]; ok {
			if e == nil {
				return types.ObjectType{}
			}
			m := map[string]attr.Type{}
			for k, v := range e.(map[string]interface{}) {
				m[k] = DecodeTy(v)
			}
			return types.ObjectType{AttrTypes: m}
		}
	}
	panic(fmt.Sprintf("DecodeTy: bad type %v", j))
}

func encAttrTypes(m map[string]attr.Type) interface{} {
	if m == nil {
		return nil
	}
	r := J{}
	for k, v := range m {
		r[k] = EncodeTy(v)
	}
	return r
}

func decAttrTypes(j interface{}) map[string]attr.Type {
	if j == nil {
		return nil
	}
	r := map[string]attr.Type{}
	for k, v := range j.(map[string]interface{}) {
		r[k] = DecodeTy(v)
	}
	return r
}

// EncodeTf renders an attr.Value canonically.
func EncodeTf(v attr.Value) interface{} {
	switch x := v.(type) {
	case nil:
		return J{"k": "nil"}
	case types.String:
		return J{"k": "String", "u": x.Unknown, "n": x.Null, "v": hex.EncodeToString([]byte(x.Value))}
	case types.Int64:
		return J{"k": "Int64", "u": x.Unknown, "n": x.Null, "v": strconv.FormatUint(uint64(x.Value), 10)}
	case types.Float64:
		return J{"k": "Float64", "u": x.Unknown, "n": x.Null, "v": strconv.FormatUint(math.Float64bits(x.Value), 10)}
	case types.Bool:
		return J{"k": "Bool", "u": x.Unknown, "n": x.Null, "v": x.Value}
	case tfx.TimeValue:
		return J{"k": "Time", "u": x.Unknown, "n": x.Null, "v": TimeToken(x.Value)}
	case tfx.DurationValue:
		return J{"k": "Duration", "u": x.Unknown, "n": x.Null, "v": strconv.FormatUint(uint64(x.Value), 10)}
	case types.List:
		var e interface{}
		if x.Elems != nil {
			l := make([]interface{}, len(x.Elems))
			for i := range l {
				l[i] = EncodeTf(x.Elems[i])
			}
			e = l
		}
		return J{"k": "List", "u": x.Unknown, "n": x.Null, "e": e, "ety": EncodeTy(x.ElemType)}
	case types.Map:
		var e interface{}
		if x.Elems != nil {
			m := J{}
			for k, y := range x.Elems {
				m[hex.EncodeToString([]byte(k))] = EncodeTf(y)
			}
			e = m
		}
		return J{"k": "Map", "u": x.Unknown, "n": x.Null, "e": e, "ety": EncodeTy(x.ElemType)}
	case types.Object:
		var a interface{}
		if x.Attrs != nil {
			m := J{}
			for k, y := range x.Attrs {
				m[k] = EncodeTf(y)
			}
			a = m
		}
		return J{"k": "Object", "u": x.Unknown, "n": x.Null, "a": a, "aty": encAttrTypes(x.AttrTypes)}
	case Foreign:
		return J{"k": "foreign", "tag": x.Tag}
	}
	return J{"k": "foreign", "tag": fmt.Sprintf("%T", v)}
}

// DecodeTf is the inverse of EncodeTf.
func DecodeTf(j interface{}) attr.Value {
	m := j.(map[string]interface{})
	b := func(k string) bool { x, _ := m[k].(bool); return x }
	switch m["k"].(string) {
	case "nil":
		return nil
	case "String":
		return types.String{Unknown: b("u"), Null: b("n"), Value: string(unhex(m["v"]))}
	case "Int64":
		return types.Int64{Unknown: b("u"), Null: b("n"), Value: int64(u64(m["v"]))}
	case "Float64":
		return types.Float64{Unknown: b("u"), Null: b("n"), Value: math.Float64frombits(u64(m["v"]))}
	case "Bool":
		return types.Bool{Unknown: b("u"), Null: b("n"), Value: b("v")}
	case "Time":
		return tfx.TimeValue{Unknown: b("u"), Null: b("n"), Value: ParseTimeToken(m["v"].(string)), Format: time.RFC3339}
	case "Duration":
		return tfx.DurationValue{Unknown: b("u"), Null: b("n"), Value: time.Duration(int64(u64(m["v"])))}
	case "List":
		l := types.List{Unknown: b("u"), Null: b("n"), ElemType: DecodeTy(m["ety"])}
		if m["e"] != nil {
			es := m["e"].([]interface{})
			l.Elems = make([]attr.Value, len(es))
			for i := range es {
				l.Elems[i] = DecodeTf(es[i])
			}
		}
		return l
	case "Map":
		l := types.Map{Unknown: b("u"), Null: b("n"), ElemType: DecodeTy(m["ety"])}
		if m["e"] != nil {
			l.Elems = map[string]attr.Value{}
			for k, y := range m["e"].(map[string]interface{}) {
				l.Elems[string(unhex(k))] = DecodeTf(y)
			}
		}
		return l
	case "Object":
		o := types.Object{Unknown: b("u"), Null: b("n"), AttrTypes: decAttrTypes(m["aty"])}
		if m["a"] != nil {
			o.Attrs = map[string]attr.Value{}
			for k, y := range m["a"].(map[string]interface{}) {
				o.Attrs[k] = DecodeTf(y)
			}
		}
		return o
	case "foreign":
		return Foreign{Value: types.String{}, Tag: m["tag"].(string)}
	}
	panic(fmt.Sprintf("DecodeTf: bad value %v", j))
}

// UnH inverts the harness hooks' encoding "H(x)" of a string attribute; anything else reads as "".
func UnH(a attr.Value) string {
	v, ok := a.(types.String)
	if !ok || v.Null || v.Unknown || len(v.Value) < 3 || v.Value[:2] != "H(" || v.Value[len(v.Value)-1] != ')' {
		return ""
	}
	return v.Value[2 : len(v.Value)-1]
}
