module verifharness

go 1.18


require (
	github.com/dave/jennifer v1.4.1
	github.com/gogo/protobuf v1.3.2
	github.com/gravitational/trace v1.2.1
	github.com/hashicorp/terraform-plugin-framework v0.10.0
	github.com/hashicorp/terraform-plugin-go v0.12.0
	github.com/sirupsen/logrus v1.9.0
	github.com/stoewer/go-strcase v1.2.0
	github.com/stretchr/testify v1.7.2
	golang.org/x/tools v0.1.7
	google.golang.org/protobuf v1.28.0
	gopkg.in/yaml.v3 v3.0.1
)

require (
	github.com/davecgh/go-spew v1.1.1 // indirect
	github.com/fatih/color v1.13.0 // indirect
	github.com/golang/protobuf v1.5.2 // indirect
	github.com/google/go-cmp v0.5.8 // indirect
	github.com/hashicorp/go-hclog v1.2.1 // indirect
	github.com/hashicorp/terraform-plugin-log v0.6.0 // indirect
	github.com/jonboulle/clockwork v0.3.0 // indirect
	github.com/kr/text v0.2.0 // indirect
	github.com/mattn/go-colorable v0.1.12 // indirect
	github.com/mattn/go-isatty v0.0.14 // indirect
	github.com/mitchellh/go-testing-interface v1.14.1 // indirect
	github.com/pmezard/go-difflib v1.0.0 // indirect
	github.com/vmihailenco/msgpack/v4 v4.3.12 // indirect
	github.com/vmihailenco/tagparser v0.1.1 // indirect
	golang.org/x/crypto v0.17.0 // indirect
	golang.org/x/mod v0.5.1 // indirect
	golang.org/x/net v0.17.0 // indirect
	golang.org/x/sys v0.15.0 // indirect
	golang.org/x/term v0.15.0 // indirect
	golang.org/x/xerrors v0.0.0-20200804184101-5ec99f83aff1 // indirect
	google.golang.org/appengine v1.6.7 // indirect
	gopkg.in/check.v1 v1.0.0-20201130134442-10cb98267c6c // indirect
)
