// Package run executes the real plugin binary and gogo's generator on a CodeGeneratorRequest.
package run

import (
	"bytes"
	"context"
	"fmt"
	"os"
	"os/exec"
	"time"

	gproto "github.com/gogo/protobuf/proto"
	plugin "github.com/gogo/protobuf/protoc-gen-gogo/plugin"
	"github.com/gogo/protobuf/vanity/command"
	"google.golang.org/protobuf/proto"
	"google.golang.org/protobuf/types/pluginpb"
)

// PluginResult is what one process run of the plugin produced.
type PluginResult struct {
	Exit   int
	Stdout []byte
	Stderr []byte
	Resp   *pluginpb.CodeGeneratorResponse // nil when stdout does not parse
	Err    string
}

// Env is the offline Go environment for every child process.
func Env() []string {
	return append(os.Environ(), "GOFLAGS=-mod=mod", "GOPROXY=off", "GOSUMDB=off", "GOTOOLCHAIN=local")
}

// BuildPlugin builds /repo's working tree into out.
func BuildPlugin(repo, out string) error {
	cmd := exec.Command("go", "build", "-tags", "verif", "-o", out, ".")
	cmd.Dir = repo
	cmd.Env = Env()
	b, err := cmd.CombinedOutput()
	if err != nil {
		return fmt.Errorf("go build of %s failed: %v\n%s", repo, err, b)
	}
	return nil
}

// RunPlugin runs the plugin binary on the request (working directory dir, where config files live).
func RunPlugin(bin, dir string, req *plugin.CodeGeneratorRequest) *PluginResult {
	data, err := gproto.Marshal(req)
	if err != nil {
		return &PluginResult{Exit: -1, Err: err.Error()}
	}
	// a run that exceeds its time limit on a loaded machine is repeated with a longer one before it counts as the plugin's answer
	var so, se bytes.Buffer
	for _, limit := range []time.Duration{60 * time.Second, 300 * time.Second} {
		so.Reset()
		se.Reset()
		ctx, cancel := context.WithTimeout(context.Background(), limit)
		cmd := exec.CommandContext(ctx, bin)
		cmd.Dir = dir
		cmd.Stdin = bytes.NewReader(data)
		cmd.Stdout = &so
		cmd.Stderr = &se
		err = cmd.Run()
		timedOut := ctx.Err() != nil
		cancel()
		if !timedOut {
			break
		}
	}
	res := &PluginResult{Stdout: so.Bytes(), Stderr: se.Bytes()}
	if err != nil {
		if ee, ok := err.(*exec.ExitError); ok {
			res.Exit = ee.ExitCode()
		} else {
			res.Exit = -1
			res.Err = err.Error()
		}
	}
	resp := &pluginpb.CodeGeneratorResponse{}
	if len(res.Stdout) > 0 || res.Exit == 0 {
		if err := proto.Unmarshal(res.Stdout, resp); err == nil {
			res.Resp = resp
		} else {
			res.Err = "stdout is not a CodeGeneratorResponse: " + err.Error()
		}
	}
	return res
}

// GogoChild is the body of the child process: stdin request -> gogo generator -> stdout response.
func GogoChild() {
	req := command.Read()
	resp := command.Generate(req)
	command.Write(resp)
}

// RunGogo runs gogo's generator (in a child process of this binary: it calls os.Exit on errors).
func RunGogo(self string, req *plugin.CodeGeneratorRequest) (string, error) {
	data, err := gproto.Marshal(req)
	if err != nil {
		return "", err
	}
	cmd := exec.Command(self, "gogo-child")
	cmd.Stdin = bytes.NewReader(data)
	var so, se bytes.Buffer
	cmd.Stdout = &so
	cmd.Stderr = &se
	if err := cmd.Run(); err != nil {
		return "", fmt.Errorf("gogo generator failed: %v: %s", err, se.String())
	}
	resp := &plugin.CodeGeneratorResponse{}
	if err := gproto.Unmarshal(so.Bytes(), resp); err != nil {
		return "", err
	}
	if resp.Error != nil {
		return "", fmt.Errorf("gogo generator error: %s", *resp.Error)
	}
	if len(resp.File) != 1 {
		return "", fmt.Errorf("gogo generator produced %d files", len(resp.File))
	}
	return resp.File[0].GetContent(), nil
}
