import PGT.Props.C04
import PGT.Proofs.SchemaTyped
/-
C04, continued – the round trip through the empty schema-typed object (`attrTypesOf m`) for every well-formed IR (`IRWFs`),
typed struct value (`ValOKs`) and the read-back side condition `RT3OKs` (`Proofs/SchemaTyped.lean`); `C04_full_schema_typed` has
the shape of `C04_full`.
-/
namespace PGT.Props.C04
open PGT PGT.Spec PGT.SchemaTyped

/-- **C04, schema-typed target**: the round trip through the schema-typed object is the identity in normal form; `RT3OKs`
(RoundTripEmbed.lean) is the read-back side (Go field names distinct, scalar rows round-trip, …) – no attribute types in it -/
theorem C04_schema_typed (ov : List (String × String)) (m : Msg) (obj : GoVal) (hwf : IRWFs m.fields)
    (hv : ValOKs m.fields obj) (hrt : RT3OKs m.fields obj) :
    ∃ r b, copyTo m obj (.obj false false none (some (attrTypesOf m))) = .ok r ∧ r.diags = [] ∧
      copyFrom ov m r.tf (.struct []) = .ok b ∧ b.diags = [] ∧ c04Check m obj b.obj = true := by
  intros; apply PGT.SchemaTyped.C04_schema_typed <;> assumption

/-- C04 in the shape of `Props.C04.C04_full` -/
theorem C04_full_schema_typed (ov : List (String × String)) (m : Msg) (obj : GoVal) (hwf : IRWFs m.fields)
    (hv : ValOKs m.fields obj) (hrt : RT3OKs m.fields obj) (r : ToResult) (b : FromResult)
    (h1 : copyTo m obj (.obj false false none (some (attrTypesOf m))) = .ok r)
    (h2 : copyFrom ov m r.tf (.struct []) = .ok b) :
    r.diags = [] ∧ b.diags = [] ∧ c04Check m obj b.obj = true := by
  intros; apply PGT.SchemaTyped.C04_full_schema_typed <;> assumption

end PGT.Props.C04
