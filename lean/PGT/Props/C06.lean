import PGT.Proofs.FromFlat
import PGT.Proofs.FromTotal
import PGT.Proofs.ToTotal
/-
C06 – Malformed input becomes diagnostics, never a panic.
Full statement: `C06_full_from` / `C06_full_to`. Proved for every field kind: the missing-attribute and wrong-type
branches of CopyFrom (`C06_missing`, `C06_wrong_type`) and the missing-type branch of CopyTo (`C06_to_missing`);
for scalar fields: totality for arbitrary attribute values (`C06_scalar_total`).
`C06_from_total`: CopyFrom never panics – for every IR, every object, every prior struct (finding F2 is repaired in /repo).
-/
namespace PGT.Props.C06
open PGT PGT.Spec

/-- the "never panics" clause of C06 for CopyFrom at full strength: every IR, every Terraform value, every prior
content of the target struct -/
def C06_full_from : Prop :=
  ∀ (ov : List (String × String)) (m : Msg) (tf : TfVal) (prior : List (String × GoVal)) (w : String),
    copyFrom ov m tf (.struct prior) ≠ .panic w

/-- **C06, CopyFrom never panics – proved at full strength** (mutual induction over the IR in `PGT/Proofs/FromTotal.lean`;
invariant: a field of a nullable embedded message is only written after the embedded message has been allocated). -/
theorem C06_from_total : C06_full_from := copyFrom_noPanic

/-- non-vacuity: a message with a list child of a nullable embedded message, read from an object whose list is known,
into a struct without the embedded message – the shape that panicked before finding F2 was repaired -/
theorem C06_from_total_example :
    (match copyFrom [] { info := { name := "Root" }, fields :=
        [{ info := { name := "L", nameSnake := "l", kind := .primitiveList, isRepeated := true, protoType := "string",
                     parentIsOptionalEmbed := true, parentIsOptionalEmbedFieldName := "Emb", parentIsOptionalEmbedFullType := "Emb",
                     tf := { valueType := "github.com/hashicorp/terraform-plugin-framework/types.List",
                             elemValueType := "github.com/hashicorp/terraform-plugin-framework/types.String",
                             valueCastToType := "string", valueCastFromType := "string", zeroValue := "\"\"" } } }] }
      (.obj false false (some [("l", .list false false (some [.prim .string false false (.str [104])]) (some (.prim .string)))]) none)
      (.struct []) with
     | .ok r => r.diags.isEmpty && (match r.obj.field? "Emb" with | some (.ptr (some _)) => true | _ => false)
     | _ => false) = true := by
  decide

/-- every attribute missing from the object produces exactly one error diagnostic that names the field's path, and
nothing is written – for every field kind but custom (whose hook is still called, see C17) -/
theorem C06_missing (rec : FromRec) (ov : List (String × String)) (info : FieldInfo) (mv : Option FieldInfo)
    (msg : Option MsgInfo) (attrs : Option (List (String × TfVal))) (st : FromSt)
    (hk : info.kind ≠ .custom) (hm : (attrs.getD []).lookup info.nameSnake = none) :
    copyFromFieldWith rec ov info mv msg attrs st = .ok (st.diag (.readMissing info.path)) := by
  unfold copyFromFieldWith
  cases hkind : info.kind <;> first | exact absurd hkind hk | simp only [hm]

/-- an attribute of the wrong Go type (including a nil interface value) produces a conversion diagnostic -/
theorem C06_wrong_type (rec : FromRec) (ov : List (String × String)) (info : FieldInfo) (mv : Option FieldInfo)
    (msg : Option MsgInfo) (attrs : Option (List (String × TfVal))) (st : FromSt) (a : TfVal)
    (hk : info.kind ≠ .custom) (ha : (attrs.getD []).lookup info.nameSnake = some a)
    (hw : a.vkind ≠ vkindOf info.tf.valueType ∨ a.vkind = .unknown) :
    copyFromFieldWith rec ov info mv msg attrs st = .ok (st.diag (.readConv info.path info.tf.valueType)) := by
  unfold copyFromFieldWith
  have hcond : (a.vkind != vkindOf info.tf.valueType || a.vkind == .unknown) = true := by
    rcases hw with h | h
    · simp [h]
    · simp [h]
  simp only [ha, hcond]
  cases hkind : info.kind <;> first | (exact absurd hkind hk) | simp

/-- nil interface values and foreign values are of no expected type -/
theorem C06_nil_is_wrong : TfVal.nilv.vkind = .unknown ∧ ∀ t, (TfVal.foreign t).vkind = .unknown := by
  simp [TfVal.vkind]

/-- symmetric half: an attribute whose type is missing from the target is reported and skipped -/
theorem C06_to_missing (rec : ToRec) (info : FieldInfo) (msg : Option MsgInfo) (se : Bool) (obj : GoVal)
    (atys : Option (List (String × TfTy))) (st : ToSt) (h : (atys.getD []).lookup info.nameSnake = none) :
    copyToFieldWith rec info msg se obj atys st = .ok (st.diag (.writeMissing info.path)) := by
  unfold copyToFieldWith
  simp [h]

/-- a scalar field block never panics, whatever the object holds and whatever the target struct is -/
theorem C06_scalar_total (ov : List (String × String)) (f : Field) (k : PrimK) (hp : PlainScalar f.info k)
    (hvt : f.info.tf.valueType = f.info.tf.elemValueType) (attrs : Option (List (String × TfVal))) (st : FromSt) (w : String) :
    copyFromField ov f attrs st ≠ .panic w := by
  rw [copyFromField_plain ov f k hp hvt]
  split
  · simp
  · split
    · split
      · split <;> simp
      · simp
    · simp
  · simp

/-- **C06, CopyTo never panics for a non-nil source and target – proved for every IR** (mutual induction,
`PGT/Proofs/ToTotal.lean`): any struct value, any sub-family of the attribute types at any depth (missing types become
diagnostics, `C06_to_missing`), on a target that holds no values yet. `TysOK` asks only what the emitted code takes for
granted: pairwise distinct attribute names, and for the list / map types that *are* present an element type (an
object type for lists / maps of messages) – the two places where the emitted code dereferences or asserts without a
check. -/
theorem C06_to_total (m : Msg) (obj : GoVal) (atys : Option (List (String × TfTy))) (h : TysOK m.fields atys) (w : String) :
    copyTo m obj (.obj false false none atys) ≠ .panic w :=
  copyTo_noPanic m obj false false atys h w

/-- non-vacuity: a message with a string and a list of messages; the target lacks the type of the string attribute
and of one attribute of the element objects -/
def exToFields : List Field :=
  [{ info := { name := "S", nameSnake := "s", kind := .primitive, protoType := "string", path := "M.S",
               tf := { elemValueType := "github.com/hashicorp/terraform-plugin-framework/types.String", valueCastToType := "string",
                       valueCastFromType := "string", zeroValue := "\"\"" } } },
   { info := { name := "L", nameSnake := "l", kind := .objectList, isRepeated := true, isNullable := true, path := "M.L" },
     msg := some { name := "Inner" },
     sub := [{ info := { name := "A", nameSnake := "a", kind := .primitive, protoType := "string", path := "M.L.A",
                         tf := { elemValueType := "github.com/hashicorp/terraform-plugin-framework/types.String", valueCastToType := "string",
                                 valueCastFromType := "string", zeroValue := "\"\"" } } }] }]

theorem C06_to_total_example_hyp : TysOK exToFields (some [("l", .list (some (.obj (some []))))]) := by
  simp [exToFields, TysOK, TyOK, List.lookup]

theorem C06_to_total_example_runs :
    (match copyTo { info := { name := "M" }, fields := exToFields }
        (.struct [("S", .sc (.str [120])), ("L", .slice (some [.ptr (some (.struct [("A", .sc (.str [121]))]))]))])
        (.obj false false none (some [("l", .list (some (.obj (some []))))])) with
     | .ok r => r.diags == [.writeMissing "M.S", .writeMissing "M.L.A"]
     | _ => false) = true := by
  decide

end PGT.Props.C06
