import PGT.Proofs.FromDiags
import PGT.Proofs.FromFlat
import PGT.Proofs.FromTotal
import PGT.Proofs.ToTotal
/-
C06 – Malformed input becomes diagnostics, never a panic.
Full statement: `C06_full_from` / `C06_full_to`. Proved for every field kind: the missing-attribute and wrong-type
branches of CopyFrom (`C06_missing`, `C06_wrong_type`) and the missing-type branch of CopyTo (`C06_to_missing`);
for scalar fields: totality for arbitrary attribute values (`C06_scalar_total`).
`C06_from_total`: CopyFrom never panics – for every IR, every object, every prior struct (finding F2 is repaired in /repo).
-/
namespace PGT.Props.C06
open PGT PGT.Spec

/-- the "never panics" clause of C06 for CopyFrom at full strength: every IR, every Terraform value, every prior
content of the target struct -/
def C06_full_from : Prop :=
  ∀ (ov : List (String × String)) (m : Msg) (tf : TfVal) (prior : List (String × GoVal)) (w : String),
    copyFrom ov m tf (.struct prior) ≠ .panic w

/-- **C06, CopyFrom never panics – proved at full strength** (mutual induction over the IR in `PGT/Proofs/FromTotal.lean`;
invariant: a field of a nullable embedded message is only written after the embedded message has been allocated). -/
theorem C06_from_total : C06_full_from := copyFrom_noPanic

/-- non-vacuity: a message with a list child of a nullable embedded message, read from an object whose list is known,
into a struct without the embedded message – the shape that panicked before finding F2 was repaired -/
theorem C06_from_total_example :
    (match copyFrom [] { info := { name := "Root" }, fields :=
        [{ info := { name := "L", nameSnake := "l", kind := .primitiveList, isRepeated := true, protoType := "string",
                     parentIsOptionalEmbed := true, parentIsOptionalEmbedFieldName := "Emb", parentIsOptionalEmbedFullType := "Emb",
                     tf := { valueType := "github.com/hashicorp/terraform-plugin-framework/types.List",
                             elemValueType := "github.com/hashicorp/terraform-plugin-framework/types.String",
                             valueCastToType := "string", valueCastFromType := "string", zeroValue := "\"\"" } } }] }
      (.obj false false (some [("l", .list false false (some [.prim .string false false (.str [104])]) (some (.prim .string)))]) none)
      (.struct []) with
     | .ok r => r.diags.isEmpty && (match r.obj.field? "Emb" with | some (.ptr (some _)) => true | _ => false)
     | _ => false) = true := by
  decide

/-- every attribute missing from the object produces exactly one error diagnostic that names the field's path, and
nothing is written – for every field kind but custom (whose hook is still called, see C17) -/
theorem C06_missing (rec : FromRec) (ov : List (String × String)) (info : FieldInfo) (mv : Option FieldInfo)
    (msg : Option MsgInfo) (attrs : Option (List (String × TfVal))) (st : FromSt)
    (hk : info.kind ≠ .custom) (hm : (attrs.getD []).lookup info.nameSnake = none) :
    copyFromFieldWith rec ov info mv msg attrs st = .ok (st.diag (.readMissing info.path)) := by
  unfold copyFromFieldWith
  cases hkind : info.kind <;> first | exact absurd hkind hk | simp only [hm]

/-- an attribute of the wrong Go type (including a nil interface value) produces a conversion diagnostic -/
theorem C06_wrong_type (rec : FromRec) (ov : List (String × String)) (info : FieldInfo) (mv : Option FieldInfo)
    (msg : Option MsgInfo) (attrs : Option (List (String × TfVal))) (st : FromSt) (a : TfVal)
    (hk : info.kind ≠ .custom) (ha : (attrs.getD []).lookup info.nameSnake = some a)
    (hw : a.vkind ≠ vkindOf info.tf.valueType ∨ a.vkind = .unknown) :
    copyFromFieldWith rec ov info mv msg attrs st = .ok (st.diag (.readConv info.path info.tf.valueType)) := by
  unfold copyFromFieldWith
  have hcond : (a.vkind != vkindOf info.tf.valueType || a.vkind == .unknown) = true := by
    rcases hw with h | h
    · simp [h]
    · simp [h]
  simp only [ha, hcond]
  cases hkind : info.kind <;> first | (exact absurd hkind hk) | simp

/-- nil interface values and foreign values are of no expected type -/
theorem C06_nil_is_wrong : TfVal.nilv.vkind = .unknown ∧ ∀ t, (TfVal.foreign t).vkind = .unknown := by
  simp [TfVal.vkind]

/-- symmetric half: an attribute whose type is missing from the target is reported and skipped -/
theorem C06_to_missing (rec : ToRec) (info : FieldInfo) (msg : Option MsgInfo) (se : Bool) (obj : GoVal)
    (atys : Option (List (String × TfTy))) (st : ToSt) (h : (atys.getD []).lookup info.nameSnake = none) :
    copyToFieldWith rec info msg se obj atys st = .ok (st.diag (.writeMissing info.path)) := by
  unfold copyToFieldWith
  simp [h]

/-- a scalar field block never panics, whatever the object holds and whatever the target struct is -/
theorem C06_scalar_total (ov : List (String × String)) (f : Field) (k : PrimK) (hp : PlainScalar f.info k)
    (hvt : f.info.tf.valueType = f.info.tf.elemValueType) (attrs : Option (List (String × TfVal))) (st : FromSt) (w : String) :
    copyFromField ov f attrs st ≠ .panic w := by
  rw [copyFromField_plain ov f k hp hvt]
  split
  · simp
  · split
    · split
      · split <;> simp
      · simp
    · simp
  · simp

/-- **C06, CopyTo never panics for a non-nil source and target – proved for every IR** (mutual induction,
`PGT/Proofs/ToTotal.lean`): any struct value, any sub-family of the attribute types at any depth (missing types become
diagnostics, `C06_to_missing`), on a target that holds no values yet. `TysOK` asks only what the emitted code takes for
granted: pairwise distinct attribute names, and for the list / map types that *are* present an element type (an
object type for lists / maps of messages) – the two places where the emitted code dereferences or asserts without a
check. -/
theorem C06_to_total (m : Msg) (obj : GoVal) (atys : Option (List (String × TfTy))) (h : TysOK m.fields atys) (w : String) :
    copyTo m obj (.obj false false none atys) ≠ .panic w :=
  copyTo_noPanic m obj false false atys h w

/-- non-vacuity: a message with a string and a list of messages; the target lacks the type of the string attribute
and of one attribute of the element objects -/
def exToFields : List Field :=
  [{ info := { name := "S", nameSnake := "s", kind := .primitive, protoType := "string", path := "M.S",
               tf := { elemValueType := "github.com/hashicorp/terraform-plugin-framework/types.String", valueCastToType := "string",
                       valueCastFromType := "string", zeroValue := "\"\"" } } },
   { info := { name := "L", nameSnake := "l", kind := .objectList, isRepeated := true, isNullable := true, path := "M.L" },
     msg := some { name := "Inner" },
     sub := [{ info := { name := "A", nameSnake := "a", kind := .primitive, protoType := "string", path := "M.L.A",
                         tf := { elemValueType := "github.com/hashicorp/terraform-plugin-framework/types.String", valueCastToType := "string",
                                 valueCastFromType := "string", zeroValue := "\"\"" } } }] }]

theorem C06_to_total_example_hyp : TysOK exToFields (some [("l", .list (some (.obj (some []))))]) := by
  simp [exToFields, TysOK, TyOK, List.lookup]

theorem C06_to_total_example_runs :
    (match copyTo { info := { name := "M" }, fields := exToFields }
        (.struct [("S", .sc (.str [120])), ("L", .slice (some [.ptr (some (.struct [("A", .sc (.str [121]))]))]))])
        (.obj false false none (some [("l", .list (some (.obj (some []))))])) with
     | .ok r => r.diags == [.writeMissing "M.S", .writeMissing "M.L.A"]
     | _ => false) = true := by
  decide

-- ------------------------------------------------------------------------------------------------------
-- the diagnostics of CopyFrom at every depth (proofs: `Proofs/FromDiags.lean`, no hypothesis on the IR, the Terraform value
-- or the prior state): the diagnostics and the hook log are an append-only writer log; what a call appends is EXACTLY the
-- census `fromDiagsFields` (in order); `SiteAt` = a malformed site (missing attribute, wrong Go type, wrong / nil element)
-- reached through known non-null objects, list elements and map values – each one has its diagnostic in the result; the
-- executable census used on the implementation (`Spec.c06Fields`) is sound and complete w.r.t. the model (`VFOKs`: a list
-- field carries no map-value record of a different element type – true of every IR `Build.lean` constructs).

/-- **writer law, all fields of a message**: prepending `d` / `h` to the initial diagnostics / hook log prepends them to
the result's and changes nothing else – same struct, same ok / panic / stuck status with the same message -/
theorem C06_from_writer (ov : List (String × String)) : ∀ (fs : List Field) (attrs : Option (List (String × TfVal)))
    (st : FromSt) (d : List Diag) (h : List HookCall),
    copyFromFields ov fs attrs (shiftF d h st) = (copyFromFields ov fs attrs st).mapO (shiftF d h) := by
  intros; apply PGT.copyFromFields_writer <;> assumption

/-- **APPEND-ONLY, all fields of a message**: the result's diagnostics / hook log are the initial ones followed by what
the run appended, and what is appended (and the struct) does not depend on the initial diagnostics / hook log -/
theorem C06_from_append_only (ov : List (String × String)) (fs : List Field) (attrs : Option (List (String × TfVal)))
    (st st' : FromSt) (h : copyFromFields ov fs attrs st = .ok st') :
    ∃ ds hs, st'.diags = st.diags ++ ds ∧ st'.hooks = st.hooks ++ hs ∧
      ∀ d k, copyFromFields ov fs attrs { obj := st.obj, diags := d, hooks := k } =
        .ok { obj := st'.obj, diags := d ++ ds, hooks := k ++ hs } := by
  intros; apply PGT.copyFromFields_append <;> assumption

/-- **`Copy<T>FromTerraform` reports exactly the census**: the source is an object and the diagnostics returned are
`fromDiagsFields` of its attributes -/
theorem C06_from_diags_exact (ov : List (String × String)) (m : Msg) (tf : TfVal) (obj : GoVal) (r : FromResult)
    (h : copyFrom ov m tf obj = .ok r) :
    ∃ u n as tys, tf = .obj u n as tys ∧ r.diags = fromDiagsFields ov m.fields (as.getD []) := by
  intros; apply PGT.copyFrom_diags <;> assumption

/-- **SITE ⇒ DIAGNOSTIC, ANY DEPTH**: whenever the field blocks of a message run to completion, the diagnostic of every
malformed site – at this level or at any nesting depth – is among the resulting diagnostics -/
theorem C06_site_diag (ov : List (String × String)) (fs : List Field) (attrs : Option (List (String × TfVal)))
    (st st' : FromSt) (d : Diag) (hs : SiteAt ov fs (attrs.getD []) d) (h : copyFromFields ov fs attrs st = .ok st') :
    d ∈ st'.diags := by
  intros; apply PGT.siteAt_diag <;> assumption

/-- **SITE ⇒ DIAGNOSTIC, top level, missing attribute** (every kind, custom included) -/
theorem C06_missing_at_top (ov : List (String × String)) (fs : List Field) (attrs : Option (List (String × TfVal)))
    (st st' : FromSt) (f : Field) (hf : f ∈ fs) (hp : f.info.isPlaceholder = false)
    (hl : (attrs.getD []).lookup f.info.nameSnake = none) (h : copyFromFields ov fs attrs st = .ok st') :
    .readMissing f.info.path ∈ st'.diags := by
  intros; apply PGT.missing_diag <;> assumption

/-- **C06, CopyFrom side, for the whole converter**: for every IR, every Terraform value and every prior struct,
`Copy<T>FromTerraform` never panics, and when it returns, the diagnostics are exactly the census of the source's
attributes – in particular the diagnostic of every malformed site at any depth is reported, and each site is
reported although other sites before it were (conversion of the rest continues). -/
theorem C06_from_sites (ov : List (String × String)) (m : Msg) (tf : TfVal) (prior : List (String × GoVal)) :
    (∀ w, copyFrom ov m tf (.struct prior) ≠ .panic w) ∧
    ∀ r, copyFrom ov m tf (.struct prior) = .ok r →
      ∃ u n as tys, tf = .obj u n as tys ∧ r.diags = fromDiagsFields ov m.fields (as.getD []) ∧
        ∀ d, SiteAt ov m.fields (as.getD []) d → d ∈ r.diags := by
  intros; apply PGT.copyFrom_sites <;> assumption

/-- **soundness and completeness of the executable census w.r.t. the model**: every successful run of
`Copy<T>FromTerraform` passes the check `Spec.c06FromCheck` the driver evaluates on the real generated code – the
diagnostics contain the top-level census, and their (kind, path) keys are exactly `Spec.c06Fields` at every depth -/
theorem C06_from_check_holds (ov : List (String × String)) (m : Msg) (tf : TfVal) (obj : GoVal) (r : FromResult)
    (hvf : VFOKs m.fields) (h : copyFrom ov m tf obj = .ok r) : Spec.c06FromCheck m tf false r.diags = true := by
  intros; apply PGT.copyFrom_c06FromCheck <;> assumption

/-- soundness of the executable census, element-wise: every (kind, path) the census `Spec.c06Fields` lists is the key
of a diagnostic the run reports -/
theorem C06_census_sound (ov : List (String × String)) (fs : List Field) (attrs : Option (List (String × TfVal)))
    (st st' : FromSt) (hvf : VFOKs fs) (h : copyFromFields ov fs attrs st = .ok st') (k : String × String)
    (hk : k ∈ Spec.c06Fields fs (attrs.getD [])) : ∃ d ∈ st'.diags, Spec.diagKey d = some k := by
  intros; apply PGT.c06Fields_sound <;> assumption

/-- … and conversely every read diagnostic the run appends has its key in the census -/
theorem C06_census_complete (ov : List (String × String)) (fs : List Field) (attrs : Option (List (String × TfVal)))
    (st st' : FromSt) (hvf : VFOKs fs) (h : copyFromFields ov fs attrs st = .ok st') :
    st'.diags.filterMap Spec.diagKey = st.diags.filterMap Spec.diagKey ++ Spec.c06Fields fs (attrs.getD []) := by
  intros; apply PGT.c06Fields_complete <;> assumption

end PGT.Props.C06
