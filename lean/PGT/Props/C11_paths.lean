import PGT.Props.C11
import PGT.Proofs.PathUnique
import PGT.Proofs.ExclusionPrune
/-
C11, continued (proofs: `Proofs/PathUnique.lean`): the path of an occurrence is the root name followed by the proto field names
on the way (embedded fields keep the parent's path; a map's value shares the map field's keys); paths of different occurrences
differ when no name contains a dot, so an entry keyed by a full path addresses at most one occurrence; a configuration that
differs only in entries under key `p` builds the same IR for every subtree in which no occurrence has key `p` (either key
form) – for exclusion, the flag sets and the option maps alike; and the message that does contain addressed fields is built
from exactly the remaining fields.
-/
namespace PGT.Props.C11
open PGT PGT.Proofs.PathUnique PGT.Proofs.BuildErrors

theorem C11_path_formula (ctx : MsgCtx) (f : FieldD) :
    (keysOf ctx f).path = if f.embed then ctx.path else ctx.path ++ "." ++ f.name := by
  intros; apply PGT.Proofs.PathUnique.keysOf_path <;> assumption

theorem C11_typeName_formula (ctx : MsgCtx) (f : FieldD) : (keysOf ctx f).typeName = ctx.desc.name ++ "." ++ f.name := by
  intros; apply PGT.Proofs.PathUnique.keysOf_typeName <;> assumption

/-- **Path formula** for field occurrences: the `Keys.path` of the occurrence of `f` reached from the root message `root`
through the fields `fs` is `root.name ++ "." ++ n1 ++ … ++ "." ++ nk`, the `ni` being the names of the non-embedded
fields among `fs ++ [f]`. -/
theorem C11_occurrence_path {req : Request} {c0 c : MsgCtx} {fs : List FieldD} (h : Walk req c0 fs c) (f : FieldD) :
    (keysOf c f).path = pathOf c0.path (segs (fs ++ [f])) := by
  intros; apply PGT.Proofs.PathUnique.occurrence_path <;> assumption

/-- **A full path selects at most one occurrence of the tree**: with dot-free, pairwise distinct field names and no
embedded fields, two occurrences reached from the same root that have the same `Keys.path` are the same occurrence - same
way from the root, same message context, same declared field. -/
theorem C11_path_selects_at_most_one {req : Request} {root : MsgD}
    (hdf : NamesDotFree req root = true) (hne : NoEmbed req root = true) (hnd : NamesDistinct req root = true)
    {fs gs : List FieldD} {c c' : MsgCtx} {f g : FieldD}
    (h1 : Walk req (rootCtx root) fs c) (hf : f ∈ c.desc.fields)
    (h2 : Walk req (rootCtx root) gs c') (hg : g ∈ c'.desc.fields)
    (h : (keysOf c f).path = (keysOf c' g).path) : fs = gs ∧ c = c' ∧ f = g := by
  intros; apply PGT.Proofs.PathUnique.path_selects_at_most_one <;> assumption

/-- **An option entry keyed by a full path addresses at most one occurrence of the tree**: two enumerated occurrences of
the tree below the root with the same path have the same key pair (they are the same occurrence, `path_selects_at_most_one`). -/
theorem C11_path_addresses_at_most_one {req : Request} {root : MsgD}
    (hdf : NamesDotFree req root = true) (hne : NoEmbed req root = true) (hnd : NamesDistinct req root = true)
    (n : Nat) (k1 k2 : Keys) (h1 : k1 ∈ ctxKeys n req (rootCtx root)) (h2 : k2 ∈ ctxKeys n req (rootCtx root))
    (h : k1.path = k2.path) : k1 = k2 := by
  intros; apply PGT.Proofs.PathUnique.path_addresses_at_most_one <;> assumption

/-- the `Message.field` key determines the message name and the field name (dot-free field names) -/
theorem C11_typeName_key_inj (c c' : MsgCtx) (f g : FieldD) (hf : dotFree f.name = true) (hg : dotFree g.name = true)
    (h : (keysOf c f).typeName = (keysOf c' g).typeName) : c.desc.name = c'.desc.name ∧ f.name = g.name := by
  intros; apply PGT.Proofs.PathUnique.typeName_key_inj <;> assumption

/-- **Main theorem (C11): untouched unless addressed.** If `cfg'` differs from `cfg` only in entries stored under the option
key `p` - in `exclude_fields`, `computed_fields`, `required_fields`, `sensitive_fields`, `name_overrides`, `validators`,
`plan_modifiers`, `custom_types`, by adding, removing or changing them - and no field occurrence of the tree below
`desc` is addressed by `p` (neither by its path nor by `Message.field`; decidable, `keyFree`), then the two
configurations build the same IR: same nodes, same options, same errors, for every fuel. -/
theorem C11_untouched_unless_addressed (p : String) (cfg cfg' : Config) (hd : DiffersOnlyAt p cfg cfg')
    (req : Request) (fuel : Nat) (desc : MsgD) (isRoot : Bool) (path : String)
    (hfree : keyFree p (ctxKeys fuel req (ctxOf desc isRoot path)) = true) :
    buildMessage fuel (viewOf cfg') req desc isRoot path = buildMessage fuel (viewOf cfg) req desc isRoot path := by
  intros; apply PGT.Proofs.PathUnique.untouched_unless_addressed <;> assumption

/-- … and for a selected root type, with the fuel the generator model uses -/
theorem C11_untouched_unless_addressed_root (p : String) (cfg cfg' : Config) (hd : DiffersOnlyAt p cfg cfg')
    (htypes : cfg'.types = cfg.types) (req : Request) (desc : MsgD)
    (hfree : keyFree p (ctxKeys (defaultFuel req) req (rootCtx desc)) = true) :
    buildRoot cfg' req desc = buildRoot cfg req desc := by
  intros; apply PGT.Proofs.PathUnique.untouched_unless_addressed_root <;> assumption

/-- **Surgical exclusion**: one more entry `p` in `exclude_fields` leaves every tree without an occurrence addressed by `p`
untouched -/
theorem C11_exclusion_untouched (cfg : Config) (p : String) (req : Request) (fuel : Nat) (desc : MsgD) (isRoot : Bool)
    (path : String) (hfree : keyFree p (ctxKeys fuel req (ctxOf desc isRoot path)) = true) :
    buildMessage fuel (viewOf { cfg with excludeFields := p :: cfg.excludeFields }) req desc isRoot path =
    buildMessage fuel (viewOf cfg) req desc isRoot path := by
  intros; apply PGT.Proofs.PathUnique.exclusion_untouched <;> assumption

/-- **Surgical exclusion, one level (configuration level)**: `cfg'` = `cfg` plus `p` in `exclude_fields`. -/
theorem C11_exclusion_surgical (cfg : Config) (p : String) (req : Request) (n : Nat) (desc : MsgD) (isRoot : Bool) (path : String)
    (hfree : ∀ f ∈ desc.fields, keyed p (keysOf (ctxOf desc isRoot path) f) = false →
      keyFree p (occKeys (n + 1) req (keysOf (ctxOf desc isRoot path) f) f.typeName (f.card == .map)) = true) :
    buildMessage (n + 2) (viewOf { cfg with excludeFields := p :: cfg.excludeFields }) req desc isRoot path =
      msgStep (viewOf cfg) desc isRoot path
        (collectFields ((desc.fields.filter fun f => !keyed p (keysOf (ctxOf desc isRoot path) f)).map
          fun f => fieldCall (n + 1) (viewOf cfg) req (ctxOf desc isRoot path) f)) := by
  intros; apply PGT.Proofs.PathUnique.exclusion_surgical <;> assumption

/-- adding `p` to `exclude_fields` has exactly this effect on the view: the exclusion test additionally answers `true` for
the occurrences addressed by `p`; every other lookup of every occurrence is literally unchanged -/
theorem C11_exclude_view (cfg : Config) (p : String) :
    viewOf { cfg with excludeFields := p :: cfg.excludeFields } =
    { viewOf cfg with excluded := fun k => keyed p k || (viewOf cfg).excluded k } := by
  intros; apply PGT.Proofs.PathUnique.viewOf_exclude_cons <;> assumption

-- exclusion is surgical on the IR, node by node, and for the converters (proofs: `Proofs/ExclusionPrune.lean`): with `p` added to
-- exclude_fields the build of a root gives `prune p m` – the IR without the nodes whose path is `p`, at every depth, nothing else
-- changed (trees without embedded fields, `p` addressing by path; both shown necessary by counterexamples there) –, the schema has no
-- entry for the excluded attribute, CopyTo / CopyFrom of the pruned IR agree with the unpruned ones outside the excluded attribute / field.
section
open PGT.Proofs.ExclusionPrune
/-- the generator's entry point for one selected root -/
theorem C11_exclusion_prunes_root (cfg : Config) (p : String) (req : Request) (desc : MsgD) (m : Msg)
    (hne : NoEmbed req desc = true)
    (htn : typeFree p (ctxKeys (defaultFuel req) req (rootCtx desc)) = true)
    (h : buildRoot cfg req desc = .ok (some m)) :
    buildRoot { cfg with excludeFields := p :: cfg.excludeFields } req desc = .ok (some (prune p m)) := by
  intros; apply PGT.Proofs.ExclusionPrune.exclusion_prunes_root <;> assumption

/-- **C11, converters, excluded field at any depth.** `cfg'` = `cfg` plus the path `p` in `exclude_fields`; no embedded
fields in the tree; `p` addresses by path only; the root builds to `m` without the exclusion. Then it builds to
`prune p m` with it, and - attribute names pairwise distinct and no nested message emptied, along the way
(`distinctNames`, `deepOkFs`: decidable on `m`) - both converters of `prune p m` succeed whenever those of `m` do, with
results that agree except under the excluded attribute / in the excluded Go field. -/
theorem C11_exclusion_surgical_deep (cfg : Config) (p : String) (req : Request) (desc : MsgD) (m : Msg)
    (hne : NoEmbed req desc = true)
    (htn : typeFree p (ctxKeys (defaultFuel req) req (rootCtx desc)) = true)
    (hb : buildRoot cfg req desc = .ok (some m)) :
    buildRoot { cfg with excludeFields := p :: cfg.excludeFields } req desc = .ok (some (prune p m)) ∧
    (distinctNames m.fields = true → deepOkFs p m.fields = true → ∀ obj tf r1, copyTo m obj tf = .ok r1 →
      ∃ r2, copyTo (prune p m) obj tf = .ok r2 ∧ OffV (allDroppedAttrs p m.fields) r1.tf r2.tf) ∧
    (∀ ov tf obj r1, copyFrom ov m tf obj = .ok r1 →
      ∃ r2, copyFrom ov (prune p m) tf obj = .ok r2 ∧ OffG (allDroppedGo p m.fields) r1.obj r2.obj) := by
  intros; apply PGT.Proofs.ExclusionPrune.exclusion_surgical_deep <;> assumption

/-- **the excluded field has no attribute in the schema** (any depth: `fs` is the field list that contains it) -/
theorem C11_schema_excluded_absent (p : String) (fs : List Field) (hs : attrsSeparate p fs = true) :
    ∀ k ∈ droppedAttrs p fs, (schemaAttrs (pruneFs p fs)).lookup k = none := by
  intros; apply PGT.Proofs.ExclusionPrune.schema_excluded_absent <;> assumption

/-- **CopyTo blocks of a pruned field list** (any depth: `fs` is the field list of the message that contains the excluded
field): if the blocks of `fs` succeed from `st`, so do the blocks of `pruneFs p fs`; the attribute of the excluded field
is not touched (it holds what the target held before), every other attribute gets the same value. -/
theorem C11_copyTo_prune_level (p : String) (fs : List Field) (hl : levelOnly p fs = true) (hs : attrsSeparate p fs = true)
    (obj : GoVal) (atys : Option (List (String × TfTy))) (st s1 : ToSt) (h : copyToFields fs obj atys st = .ok s1) :
    ∃ s2, copyToFields (pruneFs p fs) obj atys st = .ok s2 ∧
      (∀ key, key ∉ droppedAttrs p fs → s2.attrs.lookup key = s1.attrs.lookup key) ∧
      (∀ key, key ∈ droppedAttrs p fs → s2.attrs.lookup key = st.attrs.lookup key) := by
  intros; apply PGT.Proofs.ExclusionPrune.copyToFields_prune <;> assumption

/-- **CopyFrom blocks of a pruned field list** (no children of nullable embedded messages - as in every IR built from a
tree without embedded fields, `built_plain`): if the blocks of `fs` succeed, so do those of `pruneFs p fs`, with the same
value in every Go field other than the one the excluded field's block assigns (the field, or the holder of its oneof
group); a Go field that no surviving block assigns keeps the value of the target. -/
theorem C11_copyFrom_prune_level (ov : List (String × String)) (p : String) (fs : List Field) (hl : levelOnly p fs = true)
    (hne : ∀ f ∈ fs, f.info.parentIsOptionalEmbed = false)
    (attrs : Option (List (String × TfVal))) (st s1 : FromSt) (h : copyFromFields ov fs attrs st = .ok s1) :
    ∃ s2, copyFromFields ov (pruneFs p fs) attrs st = .ok s2 ∧
      (∀ name, name ∉ droppedGo p fs → s2.obj.field? name = s1.obj.field? name) ∧ (IsStruct s2.obj ↔ IsStruct s1.obj) ∧
      (IsStruct st.obj → ∀ name, (∀ g ∈ fs, dropped p g.info = false → name ∉ writeKeys g.info) →
        s2.obj.field? name = st.obj.field? name) := by
  intros; apply PGT.Proofs.ExclusionPrune.copyFromFields_prune <;> assumption

end

end PGT.Props.C11
