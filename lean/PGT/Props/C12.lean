import PGT.Model.Schema
/-
C12 – Only selected types are emitted, independent of the rest of the request (IR-level part; byte identity of
the function text is established on the real output, see DESIGN §7).
-/
namespace PGT.Props.C12
open PGT

/-- a message that is not listed in `types` produces nothing -/
theorem C12_not_selected (cfg : Config) (req : Request) (d : MsgD) (h : cfg.types.contains d.name = false) :
    buildRoot cfg req d = .ok none := by
  unfold buildRoot
  rw [h]; rfl

/-- everything the front end asks the configuration while it builds a selected type is independent of the
`types` list: the IR of a type does not change when other types are selected or deselected -/
theorem C12_view_independent_of_types (cfg : Config) (ts : List String) :
    viewOf { cfg with types := ts } = viewOf cfg := rfl

theorem C12_independent (cfg : Config) (ts : List String) (req : Request) (d : MsgD)
    (h1 : cfg.types.contains d.name = true) (h2 : ts.contains d.name = true) :
    buildRoot { cfg with types := ts } req d = buildRoot cfg req d := by
  simp only [buildRoot, h1, h2, C12_view_independent_of_types]

/-- the emitted function names are exactly three per root that is selected and builds -/
theorem C12_emitted (c : Case) (cfg : Config) (h : readConfig c.yamlState c.yaml c.cli = .ok cfg) (f p : String)
    (fs ws : List String) (he : emit c = .response f p fs ws) :
    fs = ((buildRoots cfg c.request).1.map (·.info.name)).map ("GenSchema" ++ ·) ++
        ((buildRoots cfg c.request).1.map (·.info.name)).flatMap fun n => ["Copy" ++ n ++ "FromTerraform", "Copy" ++ n ++ "ToTerraform"] := by
  rw [emit, h] at he
  simp only [PluginOutcome.response.injEq] at he
  exact he.2.2.1.symm

/-- every built root comes from a message of the request whose name is listed in `types` -/
theorem C12_roots_selected (cfg : Config) (req : Request) (m : Msg) (d : MsgD)
    (h : buildRoot cfg req d = .ok (some m)) : cfg.types.contains d.name = true := by
  unfold buildRoot at h
  cases hc : cfg.types.contains d.name with
  | true => rfl
  | false => rw [hc] at h; simp at h

end PGT.Props.C12
