import PGT.Proofs.FromFlat
/-
C05 – Null and unknown Terraform values reset the target to zero or nil.
Full statement: `C05_full`. Proved: the scalar template for all attribute values and all prior structs
(`C05_scalar_reset`, `C05_scalar_payload_independent`, `C05_scalar_prior_independent`).
Known counterexamples of the unchanged code to the full statement: findings F2, F3, F4, F7 (DESIGN §14).
-/
namespace PGT.Props.C05
open PGT PGT.Spec

def C05_full : Prop :=
  ∀ (ov : List (String × String)) (m : Msg) (tf : TfVal) (prior : GoVal), ∃ r, copyFrom ov m tf prior = .ok r ∧
    c05Check m tf false r.diags r.obj = true

/-- a null or unknown scalar attribute leaves the zero value in the field – whatever payload the value carries and
whatever the target struct held before -/
theorem C05_scalar_reset (ov : List (String × String)) (f : Field) (k : PrimK) (hp : PlainScalar f.info k)
    (hvt : f.info.tf.valueType = f.info.tf.elemValueType) (attrs : List (String × TfVal)) (st : FromSt)
    (unk null : Bool) (p : Sc) (ha : attrs.lookup f.info.nameSnake = some (.prim k unk null p))
    (hnu : null = true ∨ unk = true) :
    copyFromField ov f (some attrs) st =
      .ok { st with obj := st.obj.setField f.info.name (.sc (zeroOfRep f.info.rep)) } := by
  rw [copyFromField_plain ov f k hp hvt]
  simp only [Option.getD, ha]
  rcases hnu with rfl | rfl <;> simp

/-- the result never depends on the payload carried by a null or unknown value -/
theorem C05_scalar_payload_independent (ov : List (String × String)) (f : Field) (k : PrimK) (hp : PlainScalar f.info k)
    (hvt : f.info.tf.valueType = f.info.tf.elemValueType) (rest : List (String × TfVal)) (st : FromSt)
    (unk null : Bool) (p p' : Sc) (hnu : null = true ∨ unk = true) :
    copyFromField ov f (some ((f.info.nameSnake, .prim k unk null p) :: rest)) st =
    copyFromField ov f (some ((f.info.nameSnake, .prim k unk null p') :: rest)) st := by
  rw [C05_scalar_reset ov f k hp hvt _ st unk null p (by simp [List.lookup]) hnu,
      C05_scalar_reset ov f k hp hvt _ st unk null p' (by simp [List.lookup]) hnu]

/-- the written value never depends on what the target held before: two priors that agree outside the field
give results that agree everywhere -/
theorem C05_scalar_prior_independent (ov : List (String × String)) (f : Field) (k : PrimK) (hp : PlainScalar f.info k)
    (hvt : f.info.tf.valueType = f.info.tf.elemValueType) (attrs : List (String × TfVal)) (fs : List (String × GoVal))
    (x y : GoVal) (ds : List Diag) (hs : List HookCall) (unk null : Bool) (p : Sc)
    (ha : attrs.lookup f.info.nameSnake = some (.prim k unk null p)) :
    copyFromField ov f (some attrs) { obj := .struct ((f.info.name, x) :: fs), diags := ds, hooks := hs } =
    copyFromField ov f (some attrs) { obj := .struct ((f.info.name, y) :: fs), diags := ds, hooks := hs } := by
  rw [copyFromField_plain ov f k hp hvt, copyFromField_plain ov f k hp hvt]
  simp only [Option.getD, ha]
  simp [GoVal.setField, setKey]

/-- fields that are not described by the schema (excluded fields) are left untouched by a scalar field block -/
theorem C05_other_fields_untouched (ov : List (String × String)) (f : Field) (k : PrimK) (hp : PlainScalar f.info k)
    (hvt : f.info.tf.valueType = f.info.tf.elemValueType) (attrs : Option (List (String × TfVal))) (st st' : FromSt)
    (fs : List (String × GoVal)) (hobj : st.obj = .struct fs)
    (h : copyFromField ov f attrs st = .ok st') (other : String) (hne : other ≠ f.info.name) :
    st'.obj.field? other = st.obj.field? other := by
  rw [copyFromField_plain ov f k hp hvt] at h
  have key : ∀ v, (GoVal.setField st.obj f.info.name v).field? other = st.obj.field? other := by
    intro v
    rw [hobj]
    simp [GoVal.setField, GoVal.field?, lookup_setKey_other _ _ _ hne]
  split at h
  · injection h with h; subst h; rfl
  · split at h
    · split at h
      · split at h
        · injection h with h; subst h; exact key _
        · cases h
      · injection h with h; subst h; exact key _
    · injection h with h; subst h; rfl
  · injection h with h; subst h; rfl

end PGT.Props.C05
