import PGT.Proofs.FromUniformAll
import PGT.Proofs.FromFlat
import PGT.Proofs.FromUniform
import PGT.Proofs.FromConforms
/-
C05 – Null and unknown Terraform values reset the target to zero or nil.
Full statement: `C05_full`. Proved: the scalar template for all attribute values and all prior structs
(`C05_scalar_reset`, `C05_scalar_payload_independent`, `C05_scalar_prior_independent`).
Known counterexamples of the unchanged code to the full statement: findings F2, F3, F4, F7 (DESIGN §14).
-/
namespace PGT.Props.C05
open PGT PGT.Spec

def C05_full : Prop :=
  ∀ (ov : List (String × String)) (m : Msg) (tf : TfVal) (prior : GoVal), ∃ r, copyFrom ov m tf prior = .ok r ∧
    c05Check m tf false r.diags r.obj = true

/-- a null or unknown scalar attribute leaves the zero value in the field – whatever payload the value carries and
whatever the target struct held before -/
theorem C05_scalar_reset (ov : List (String × String)) (f : Field) (k : PrimK) (hp : PlainScalar f.info k)
    (hvt : f.info.tf.valueType = f.info.tf.elemValueType) (attrs : List (String × TfVal)) (st : FromSt)
    (unk null : Bool) (p : Sc) (ha : attrs.lookup f.info.nameSnake = some (.prim k unk null p))
    (hnu : null = true ∨ unk = true) :
    copyFromField ov f (some attrs) st =
      .ok { st with obj := st.obj.setField f.info.name (.sc (zeroOfRep f.info.rep)) } := by
  rw [copyFromField_plain ov f k hp hvt]
  simp only [Option.getD, ha]
  rcases hnu with rfl | rfl <;> simp

/-- the result never depends on the payload carried by a null or unknown value -/
theorem C05_scalar_payload_independent (ov : List (String × String)) (f : Field) (k : PrimK) (hp : PlainScalar f.info k)
    (hvt : f.info.tf.valueType = f.info.tf.elemValueType) (rest : List (String × TfVal)) (st : FromSt)
    (unk null : Bool) (p p' : Sc) (hnu : null = true ∨ unk = true) :
    copyFromField ov f (some ((f.info.nameSnake, .prim k unk null p) :: rest)) st =
    copyFromField ov f (some ((f.info.nameSnake, .prim k unk null p') :: rest)) st := by
  rw [C05_scalar_reset ov f k hp hvt _ st unk null p (by simp [List.lookup]) hnu,
      C05_scalar_reset ov f k hp hvt _ st unk null p' (by simp [List.lookup]) hnu]

/-- the written value never depends on what the target held before: two priors that agree outside the field
give results that agree everywhere -/
theorem C05_scalar_prior_independent (ov : List (String × String)) (f : Field) (k : PrimK) (hp : PlainScalar f.info k)
    (hvt : f.info.tf.valueType = f.info.tf.elemValueType) (attrs : List (String × TfVal)) (fs : List (String × GoVal))
    (x y : GoVal) (ds : List Diag) (hs : List HookCall) (unk null : Bool) (p : Sc)
    (ha : attrs.lookup f.info.nameSnake = some (.prim k unk null p)) :
    copyFromField ov f (some attrs) { obj := .struct ((f.info.name, x) :: fs), diags := ds, hooks := hs } =
    copyFromField ov f (some attrs) { obj := .struct ((f.info.name, y) :: fs), diags := ds, hooks := hs } := by
  rw [copyFromField_plain ov f k hp hvt, copyFromField_plain ov f k hp hvt]
  simp only [Option.getD, ha]
  simp [GoVal.setField, setKey]

/-- fields that are not described by the schema (excluded fields) are left untouched by a scalar field block -/
theorem C05_other_fields_untouched (ov : List (String × String)) (f : Field) (k : PrimK) (hp : PlainScalar f.info k)
    (hvt : f.info.tf.valueType = f.info.tf.elemValueType) (attrs : Option (List (String × TfVal))) (st st' : FromSt)
    (fs : List (String × GoVal)) (hobj : st.obj = .struct fs)
    (h : copyFromField ov f attrs st = .ok st') (other : String) (hne : other ≠ f.info.name) :
    st'.obj.field? other = st.obj.field? other := by
  rw [copyFromField_plain ov f k hp hvt] at h
  have key : ∀ v, (GoVal.setField st.obj f.info.name v).field? other = st.obj.field? other := by
    intro v
    rw [hobj]
    simp [GoVal.setField, GoVal.field?, lookup_setKey_other _ _ _ hne]
  split at h
  · injection h with h; subst h; rfl
  · split at h
    · split at h
      · split at h
        · injection h with h; subst h; exact key _
        · cases h
      · injection h with h; subst h; exact key _
    · injection h with h; subst h; rfl
  · injection h with h; subst h; rfl

-- ====================================================================================================
-- every field kind, every Terraform value, every prior content of the target

/-- **C05 "whatever the target struct held before the call", for every Terraform value.** For a message whose own
fields are neither oneof branches nor children of a nullable embedded message (nested messages may be anything): the
call is the application of one list of field assignments `ws` – determined by the Terraform value alone – to the prior
content; diagnostics and hook calls do not depend on the prior content either. Holds for conforming and for malformed
objects alike. (`copyFrom_uniform`, `PGT/Proofs/FromUniform.lean`.) -/
theorem C05_uniform (ov : List (String × String)) (m : Msg) (tf : TfVal)
    (hpl : ∀ f ∈ m.fields, f.info.oneOfName = "" ∧ f.info.parentIsOptionalEmbed = false) :
    (∃ ws d h, (∀ w ∈ ws, w.1 ∈ m.info.oneOfNames ++ m.fields.map (·.info.name)) ∧
        ∀ p, copyFrom ov m tf (.struct p) = .ok { obj := applyWrites ws (.struct p), diags := d, hooks := h }) ∨
    (∃ msg, ∀ p, copyFrom ov m tf (.struct p) = .stuck msg) ∨ (∃ msg, ∀ p, copyFrom ov m tf (.struct p) = .panic msg) :=
  copyFrom_uniform ov m tf hpl

/-- fields not described by the schema (excluded fields, any other Go field) are left untouched -/
theorem C05_excluded_untouched (ov : List (String × String)) (m : Msg) (tf : TfVal)
    (hpl : ∀ f ∈ m.fields, f.info.oneOfName = "" ∧ f.info.parentIsOptionalEmbed = false)
    (p : List (String × GoVal)) (r : FromResult) (h : copyFrom ov m tf (.struct p) = .ok r)
    (name : String) (hn : name ∉ m.info.oneOfNames ++ m.fields.map (·.info.name)) :
    r.obj.field? name = (GoVal.struct p).field? name := by
  rcases copyFrom_uniform ov m tf hpl with ⟨ws, d, hh, hin, hrun⟩ | ⟨msg, hrun⟩ | ⟨msg, hrun⟩
  · rw [hrun p] at h
    injection h with h
    subst h
    apply applyWrites_other
    intro hmem
    obtain ⟨w, hw, rfl⟩ := List.mem_map.mp hmem
    exact hn (hin w hw)
  · rw [hrun p] at h; cases h
  · rw [hrun p] at h; cases h

/-- two calls with the same Terraform value and different prior contents: same diagnostics, and every field that the
call assigns holds the same value afterwards; every other field keeps what its own target held -/
theorem C05_prior_independent (ov : List (String × String)) (m : Msg) (tf : TfVal)
    (hpl : ∀ f ∈ m.fields, f.info.oneOfName = "" ∧ f.info.parentIsOptionalEmbed = false)
    (p p' : List (String × GoVal)) (r : FromResult) (h : copyFrom ov m tf (.struct p) = .ok r) :
    ∃ (r' : FromResult) (written : List String), copyFrom ov m tf (.struct p') = .ok r' ∧ r'.diags = r.diags ∧ r'.hooks = r.hooks ∧
      (∀ name ∈ written, r'.obj.field? name = r.obj.field? name) ∧
      (∀ name, name ∉ written → r.obj.field? name = (GoVal.struct p).field? name ∧
                                r'.obj.field? name = (GoVal.struct p').field? name) := by
  rcases copyFrom_uniform ov m tf hpl with ⟨ws, d, hh, _, hrun⟩ | ⟨msg, hrun⟩ | ⟨msg, hrun⟩
  · rw [hrun p] at h
    injection h with h
    subst h
    refine ⟨_, ws.map (·.1), hrun p', rfl, rfl, ?_, ?_⟩
    · intro name hname
      exact applyWrites_same ws _ _ name trivial trivial hname
    · intro name hname
      exact ⟨applyWrites_other ws _ name hname, applyWrites_other ws _ name hname⟩
  · rw [hrun p] at h; cases h
  · rw [hrun p] at h; cases h

/-- **null / unknown ⇒ zero, every kind.** A null or unknown attribute of the right Go type resets the field – scalar,
pointer scalar, nested message, list, map – to its zero value (nil for pointers, empty for slices and maps), whatever
payload the value carries and whatever the target held; the block is the same function at every nesting depth. -/
theorem C05_null_resets (rec : FromRec) (ov : List (String × String)) (info : FieldInfo) (mv : Option FieldInfo)
    (msg : Option MsgInfo) (attrs : Option (List (String × TfVal))) (st : FromSt) (a : TfVal)
    (ho : info.oneOfName = "") (he : info.parentIsOptionalEmbed = false) (hc : info.kind ≠ .custom)
    (hl : (attrs.getD []).lookup info.nameSnake = some a)
    (hkind : a.vkind = vkindOf info.tf.valueType ∧ a.vkind ≠ .unknown)
    (hshape : match info.kind with
      | .primitive => ∃ k, a.vkind = .prim k
      | .object => a.vkind = .obj
      | .primitiveList | .objectList => a.vkind = .list
      | .primitiveMap | .objectMap => a.vkind = .map
      | .custom => False)
    (hnull : a.isKnown = false) :
    copyFromFieldWith rec ov info mv msg attrs st = .ok { st with obj := st.obj.setField info.name (zeroWrite info) } :=
  fieldWith_null_resets rec ov info mv msg attrs st a ho he hc hl hkind hshape hnull

/-- non-vacuity: a null list that carries two elements (the former finding F4) resets the field to the empty slice -/
theorem C05_null_resets_example :
    (match copyFrom [] { info := { name := "M" }, fields :=
        [{ info := { name := "L", nameSnake := "l", kind := .primitiveList, isRepeated := true, protoType := "string",
                     tf := { valueType := "github.com/hashicorp/terraform-plugin-framework/types.List",
                             elemValueType := "github.com/hashicorp/terraform-plugin-framework/types.String",
                             valueCastToType := "string", valueCastFromType := "string", zeroValue := "\"\"" } } }] }
      (.obj false false (some [("l", .list false true (some [.prim .string false false (.str [97]), .prim .string false false (.str [98])]) none)]) none)
      (.struct [("L", .slice (some [.sc (.str [120])]))]) with
     | .ok r => r.diags.isEmpty && (match r.obj.field? "L" with | some (.slice (some [])) => true | _ => false)
     | _ => false) = true := by
  decide

/-- **C05, "returns no error diagnostic" – every message, every template, every depth.** For any object that conforms to the
schema (`ConformsAttrs`: every attribute of every visited object present and of the Go type the emitted assertion expects; null
and unknown allowed at every level – attributes, nested objects, lists, maps, their elements –, any payload under them; known
scalars castable) and any prior content of the target, CopyFrom succeeds and returns no diagnostic. Oneof branches, children
of nullable embedded messages and custom types included. (`PGT/Proofs/FromConforms.lean`, mutual induction.) -/
theorem C05_no_diagnostics (ov : List (String × String)) (m : Msg) (u n : Bool) (attrs : Option (List (String × TfVal)))
    (atys : Option (List (String × TfTy))) (prior : List (String × GoVal)) (h : ConformsAttrs m.fields (attrs.getD [])) :
    ∃ r, copyFrom ov m (.obj u n attrs atys) (.struct prior) = .ok r ∧ r.diags = [] :=
  copyFrom_conforming_quiet ov m u n attrs atys prior h

/-- non-vacuity: a string and a list of strings; the object holds an unknown string with a payload and a known list with a
null element -/
def cfFields : List Field :=
  [{ info := { name := "S", nameSnake := "s", kind := .primitive, protoType := "string",
               tf := { valueType := "github.com/hashicorp/terraform-plugin-framework/types.String",
                       elemValueType := "github.com/hashicorp/terraform-plugin-framework/types.String",
                       valueCastToType := "string", valueCastFromType := "string", zeroValue := "\"\"" } } },
   { info := { name := "L", nameSnake := "l", kind := .primitiveList, isRepeated := true, protoType := "string",
               tf := { valueType := "github.com/hashicorp/terraform-plugin-framework/types.List",
                       elemValueType := "github.com/hashicorp/terraform-plugin-framework/types.String",
                       valueCastToType := "string", valueCastFromType := "string", zeroValue := "\"\"" } } }]
def cfAttrs : List (String × TfVal) :=
  [("s", .prim .string true false (.str [120])),
   ("l", .list false false (some [.prim .string false true (.str []), .prim .string false false (.str [121])]) none)]

theorem C05_no_diagnostics_example : ConformsAttrs cfFields cfAttrs := by
  simp only [cfFields, ConformsAttrs, Conforms, cfAttrs, List.lookup]
  refine ⟨Or.inr ⟨_, rfl, .string, true, false, .str [120], rfl, by decide, by simp [known]⟩,
    Or.inr ⟨_, rfl, false, false, _, none, rfl, by decide, ?_⟩, trivial⟩
  intro _ e he
  simp only [Option.getD, List.mem_cons, List.mem_nil_iff, or_false] at he
  rcases he with rfl | rfl
  · exact ⟨.string, false, true, .str [], rfl, by decide, by simp [known]⟩
  · exact ⟨.string, false, false, .str [121], rfl, by decide, fun _ => ⟨.str [121], by decide⟩⟩

-- ------------------------------------------------------------------------------------------------------
-- prior independence for EVERY message, oneof branches and children of nullable embedded messages included (proofs:
-- `Proofs/FromUniformAll.lean`): two calls on the same Terraform value with different prior structs succeed together, append the same
-- diagnostics and hook calls, leave the same holders, agree on every Go field a block writes, and agree below a nullable embedded
-- parent in the normal form of C04 (literally when the priors agree on whether the parent is allocated – the conjecture "literally
-- when a child attribute is known" is refuted there: a null sibling before the known child leaves nil vs an empty slice).
section
open PGT.PriorIndep PGT.OrderIndep
/-- **C05, every message: the result of `Copy<T>FromTerraform` is determined by the Terraform value alone** – oneof
branches and children of nullable embedded messages included.  For every IR that satisfies the decidable side conditions
`SideOK`, every Terraform value (conforming or not) and any two prior structs (a parent pointer that is set points to a
struct): the two calls succeed together, and after successful calls `PriorIndepRes` holds. -/
theorem C05_prior_independent_all (ov : List (String × String)) (m : Msg) (tf : TfVal) (p1 p2 : List (String × GoVal))
    (hside : SideOK m) (hw1 : PriorWF m p1) (hw2 : PriorWF m p2) :
    ((∃ r, copyFrom ov m tf (.struct p1) = .ok r) ↔ (∃ r, copyFrom ov m tf (.struct p2) = .ok r)) ∧
    ∀ r1 r2, copyFrom ov m tf (.struct p1) = .ok r1 → copyFrom ov m tf (.struct p2) = .ok r2 →
      PriorIndepRes m (attrsOf tf) p1 p2 r1 r2 := by
  intros; apply PGT.PriorIndep.copyFrom_prior_independent_all <;> assumption

/-- **C05 in terms of the normal form of the property**: if moreover the Go names are distinct (`NamesOK`) and every field
is covered by the Terraform object, the results on two priors are equal in the normal form `Spec.nfEqFields` on the fields
of `m` (stated against the self-comparison of one result: `nfEqFields` is reflexive on well-shaped structs only) -/
theorem C05_prior_independent_nfEq (ov : List (String × String)) (m : Msg) (tf : TfVal) (p1 p2 : List (String × GoVal))
    (hside : SideOK m) (hw1 : PriorWF m p1) (hw2 : PriorWF m p2) (hn : NamesOK m.fields)
    (hcov : ∀ g ∈ m.fields, Covered m (attrsOf tf) g.info)
    (r1 r2 : FromResult) (e1 : copyFrom ov m tf (.struct p1) = .ok r1) (e2 : copyFrom ov m tf (.struct p2) = .ok r2) :
    nfEqFields m.fields r1.obj r2.obj = nfEqFields m.fields r1.obj r1.obj ∧
    nfEqFields m.fields r2.obj r1.obj = nfEqFields m.fields r1.obj r1.obj ∧
    nfEqFields m.fields r2.obj r2.obj = nfEqFields m.fields r1.obj r1.obj := by
  exact PGT.PriorIndep.copyFrom_prior_independent_nfEq ov m tf p1 p2 hside hw1 hw2 hn hcov r1 r2 e1 e2

/-- **Build guarantees `GroupsListed`** -/
theorem C05_built_groups_listed (fuel : Nat) (cfg : CfgView) (req : Request) (desc : MsgD) (isRoot : Bool) (path : String)
    (m : Msg) (h : buildMessage fuel cfg req desc isRoot path = .ok m) : GroupsListed m := by
  intros; apply PGT.PriorIndep.buildMessage_groupsListed <;> assumption

end

end PGT.Props.C05
