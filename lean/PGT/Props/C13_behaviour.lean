import PGT.Props.C13
import PGT.Proofs.PackageIndep
import PGT.Proofs.PackageSideOK
/-
C13, continued (proofs: `Proofs/PackageIndep.lean`): the converters and the schema factor through an erasure of the Go type
strings (`eraseMsg`: Go types blanked, oneof wrapper types cut to their last segment, cast types kept only when they denote a
builtin representation); two package layouts build IRs with equal erasure under the decidable side condition `SideOK` (pointer-ness
and builtin-ness of every field's Go type agree – false for a struct package called `time`: `C13_time_package_witness`); hence the
same CopyTo / CopyFrom outcomes and the same schema for the same descriptor and inputs.
-/
namespace PGT.Props.C13
open PGT PGT.PackageIndep

/-- **CopyTo factors through the erasure** -/
theorem C13_copyTo_erase (m : Msg) (obj : GoVal) (tf : TfVal) : copyTo (eraseMsg m) obj tf = copyTo m obj tf := by
  intros; apply PGT.PackageIndep.copyTo_erase <;> assumption

/-- **CopyFrom factors through the erasure** -/
theorem C13_copyFrom_erase (ov : List (String × String)) (m : Msg) (tf : TfVal) (obj : GoVal) :
    copyFrom ov (eraseMsg m) tf obj = copyFrom ov m tf obj := by
  intros; apply PGT.PackageIndep.copyFrom_erase <;> assumption

/-- **the schema factors through the erasure** -/
theorem C13_schema_erase (m : Msg) : schemaOf (eraseMsg m) = schemaOf m := by
  intros; apply PGT.PackageIndep.schemaOf_erase <;> assumption

/-- Corollary: IRs with the same erasure have the same converters and the same schema -/
theorem C13_same_erasure_same_behaviour (m m' : Msg) (h : eraseMsg m = eraseMsg m') :
    (∀ obj tf, copyTo m obj tf = copyTo m' obj tf) ∧
    (∀ ov tf obj, copyFrom ov m tf obj = copyFrom ov m' tf obj) ∧
    schemaOf m = schemaOf m' := by
  intros; apply PGT.PackageIndep.same_erasure_same_behaviour <;> assumption

/-- **the front end**: the two layouts build IRs with the same erasure, or fail with the same error -/
theorem C13_build_repkg (V : CfgView) (p : String) (o : List (String × String)) (req : Request) (desc : MsgD)
    (hside : SideOK (repkg V p o) V req desc) (fuel : Nat) (isRoot : Bool) (path : String) :
    emap eraseMsg (buildMessage fuel (repkg V p o) req desc isRoot path)
      = emap eraseMsg (buildMessage fuel V req desc isRoot path) := by
  intros; apply PGT.PackageIndep.buildMessage_repkg <;> assumption

/-- **C13**: same descriptor, same inputs ⇒ the two layouts fail with the same error, or both succeed and the three
generated functions behave identically: `CopyTo` and `CopyFrom` give the same outcome (value, diagnostics, hook
calls, panics) for every input, and `GenSchema` returns the same schema. -/
theorem C13_behaves_same (cfg : Config) (p t : String) (o : List (String × String)) (req : Request) (desc : MsgD)
    (hside : SideOK (viewOf (relayout cfg p t o)) (viewOf cfg) req desc) (fuel : Nat) (isRoot : Bool) (path : String) :
    (∀ e, buildMessage fuel (viewOf cfg) req desc isRoot path = .error e →
        buildMessage fuel (viewOf (relayout cfg p t o)) req desc isRoot path = .error e) ∧
    (∀ m, buildMessage fuel (viewOf cfg) req desc isRoot path = .ok m →
      ∃ m', buildMessage fuel (viewOf (relayout cfg p t o)) req desc isRoot path = .ok m' ∧
        eraseMsg m' = eraseMsg m ∧
        (∀ obj tf, copyTo m' obj tf = copyTo m obj tf) ∧
        (∀ ov tf obj, copyFrom ov m' tf obj = copyFrom ov m tf obj) ∧
        schemaOf m' = schemaOf m ∧ attrTypesOf m' = attrTypesOf m) := by
  intros; apply PGT.PackageIndep.C13_behaves_same <;> assumption

/-- **C13 for root messages** (`buildRoot`, the function `Plugin.build` calls): the two layouts skip / fail / succeed
together, and when they succeed the three generated functions agree. The emitted `CopyFrom` of each layout prints
element types with its own override table: the last clause says they agree under `ovAgreeFields`. -/
theorem C13_behaves_same_root (cfg : Config) (p t : String) (o : List (String × String)) (req : Request) (desc : MsgD)
    (hside : SideOK (viewOf (relayout cfg p t o)) (viewOf cfg) req desc) :
    (∀ e, buildRoot cfg req desc = .error e → buildRoot (relayout cfg p t o) req desc = .error e) ∧
    (buildRoot cfg req desc = .ok none → buildRoot (relayout cfg p t o) req desc = .ok none) ∧
    (∀ m, buildRoot cfg req desc = .ok (some m) →
      ∃ m', buildRoot (relayout cfg p t o) req desc = .ok (some m') ∧
        eraseMsg m' = eraseMsg m ∧
        (∀ obj tf, copyTo m' obj tf = copyTo m obj tf) ∧
        (∀ ov tf obj, copyFrom ov m' tf obj = copyFrom ov m tf obj) ∧
        schemaOf m' = schemaOf m ∧
        (ovAgreeFields o cfg.importPathOverrides m.fields = true →
          ∀ tf obj, copyFrom o m' tf obj = copyFrom cfg.importPathOverrides m tf obj)) := by
  intros; apply PGT.PackageIndep.C13_behaves_same_root <;> assumption

/-- The side condition is not vacuous: an enum (or cast type) called `Time` generated into a package whose qualifier is
`time` becomes `time.Time`, which the emitted cast reads as the std type. -/
theorem C13_time_package_witness :
    ¬ TyRel (prependPackageNameIfMissing [] "Time" "time") (prependPackageNameIfMissing [] "Time" "") := by
  intros; apply PGT.PackageIndep.TyRel_witness <;> assumption

-- the side condition holds for every sane descriptor (identifier-like names; struct package not called `time`):
-- string-level reasoning about typAndMod / prependPackageNameIfMissing / gogoGoType (`Proofs/PackageSideOK.lean`)
section
open PGT.PackageSideOK
/-- **`SideOK_sane_full`**: the side condition of `C13_behaves_same` holds for every sane descriptor -/
theorem C13_sideOK_sane : SideOK_sane_full := by
  intros; apply PGT.PackageSideOK.sideOK_sane <;> assumption

/-- **C13 for every sane descriptor**, without side condition -/
theorem C13_behaves_same_sane : C13_behaves_same_full := by
  intros; apply PGT.PackageSideOK.C13_behaves_same_sane <;> assumption

end

end PGT.Props.C13
