import PGT.Props.C04_schema
import PGT.Proofs.BuiltWF
/-
C04, continued – for the IRs the front end builds (`Proofs/BuiltWF.lean`; see `Props/C03_built.lean` for the invariant, the gap
`gapFreeBs` and its witnesses).
-/
namespace PGT.Props.C04
open PGT PGT.Spec PGT.SchemaTyped PGT.Proofs.BuildErrors PGT.Proofs.PathUnique PGT.Proofs.ExclusionPrune PGT.Proofs.BuiltWF

/-- **C04 for every root the generator builds** (`RT3OKs`: the read-back side, RoundTripEmbed) -/
theorem C04_built_root (ov : List (String × String)) (cfg : Config) (req : Request) (desc : MsgD) (m : Msg)
    (hb : buildRoot cfg req desc = .ok (some m))
    (hc : ConfigTypesAgree (viewOf cfg)) (hg : gapFreeBs m.fields = true) (hn : namesOKsB m.fields = true)
    (obj : GoVal) (hv : ValOKs m.fields obj) (hrt : RT3OKs m.fields obj) :
    ∃ r b, copyTo m obj (.obj false false none (some (attrTypesOf m))) = .ok r ∧ r.diags = [] ∧
      copyFrom ov m r.tf (.struct []) = .ok b ∧ b.diags = [] ∧ c04Check m obj b.obj = true := by
  intros; apply PGT.Proofs.BuiltWF.C04_built_root <;> assumption

end PGT.Props.C04
