import PGT.Props.C12
import PGT.Proofs.FuelEnough
/-
C12, continued (proofs: `Proofs/RequestIndep.lean`, `Proofs/FuelEnough.lean`): "unaffected by unrelated messages in the file or
unrelated dependency files in the request". The build reads the request only through `findMessage` (and the fuel bound of the model
through the number of messages); a request extended by messages / dependency files whose names do not clash resolves every old name
as before; for an ACYCLIC request (`Acyclic`, decidable) the fuel bound of the model is never visible (`C12_fuel_enough`), so the IR
of every old root is literally unchanged – also when the new messages are selected too (`C12_buildRoots_extend_old_roots_acyclic`).
Without acyclicity the statement keeps the alternative "the old build ran into the model's recursion limit".
-/
namespace PGT.Props.C12
open PGT PGT.Proofs.RequestIndep PGT.Proofs.FuelEnough PGT.Proofs.BuildErrors

/-- `buildMessage` reads the request through `findMessage` only (not the file names, packages, enums, nor the position of a
message in the request) -/
theorem C12_build_reads_only_findMessage (cfg : CfgView) (req req' : Request)
    (h : ∀ x, req'.findMessage x = req.findMessage x) (fuel : Nat) (desc : MsgD) (isRoot : Bool) (path : String) :
    buildMessage fuel cfg req' desc isRoot path = buildMessage fuel cfg req desc isRoot path := by
  intros; apply PGT.Proofs.RequestIndep.build_reads_only_findMessage <;> assumption

/-- **Congruence in the request.** Two requests that resolve every reachable message type name in the same way build the
same IR - same fields, same errors - for every fuel. -/
theorem C12_build_req_congr (cfg : CfgView) (req req' : Request) : ∀ n : Nat,
    (∀ desc isRoot path, (∀ x ∈ msgNames n req desc, req'.findMessage x = req.findMessage x) →
        buildMessage n cfg req' desc isRoot path = buildMessage n cfg req desc isRoot path) ∧
    (∀ ctx f keys goType isMap isRep hasComment, (∀ x ∈ occNames n req f isMap, req'.findMessage x = req.findMessage x) →
        buildFieldCore n cfg req' ctx f keys goType isMap isRep hasComment =
        buildFieldCore n cfg req ctx f keys goType isMap isRep hasComment) := by
  intros; apply PGT.Proofs.RequestIndep.build_req_congr <;> assumption

/-- **Extension, all cases.** Under no-clash the result of `buildRoot` for a message of the old request is unchanged by
the extension - same IR, same error, or "not selected" - unless the old result is the fuel bound (the extended request has
more default fuel) or an unknown-message error for one of the added names (a dangling reference the extension resolves). -/
theorem C12_extend_buildRoot (cfg : Config) (req : Request) (xs : List MsgD) (ds : List FileD)
    (hc : noClash req xs ds = true) (desc : MsgD) :
    buildRoot cfg (extend req xs ds) desc = buildRoot cfg req desc ∨
    buildRoot cfg req desc = .error .recursionLimit ∨
    ∃ x ∈ newNames xs ds, buildRoot cfg req desc = .error (.unknownMessage x) := by
  intros; apply PGT.Proofs.RequestIndep.extend_buildRoot <;> assumption

/-- successful case: the IR of a selected type is the same in the extended request -/
theorem C12_extend_buildRoot_ok (cfg : Config) (req : Request) (xs : List MsgD) (ds : List FileD)
    (hc : noClash req xs ds = true) (desc : MsgD) (r : Option Msg) (h : buildRoot cfg req desc = .ok r) :
    buildRoot cfg (extend req xs ds) desc = .ok r := by
  intros; apply PGT.Proofs.RequestIndep.extend_buildRoot_ok <;> assumption

/-- **C12, request part (extras not selected).** Extending the request by messages and dependency files that do not clash
with existing names and are not listed in `types` changes nothing: same roots, same IRs, same order, same failures -
provided no old root fails with the fuel bound or with a dangling reference to an added name. -/
theorem C12_buildRoots_extend_unselected (cfg : Config) (req : Request) (xs : List MsgD) (ds : List FileD)
    (hc : noClash req xs ds = true) (hsel : ∀ m ∈ newMsgs xs ds, cfg.types.contains m.name = false)
    (hs : rootsStable cfg req xs ds = true) :
    buildRoots cfg (extend req xs ds) = buildRoots cfg req := by
  intros; apply PGT.Proofs.RequestIndep.buildRoots_extend_unselected <;> assumption

/-- **C12, request part (extras selected).** If the added messages are selected too (new `types` list `ts'` that agrees with
the old one on the old message names), the roots that come from messages of the old request are exactly the old roots:
same IRs, same order (also under `sort`). -/
theorem C12_buildRoots_extend_old_roots (cfg : Config) (ts' : List String) (req : Request) (xs : List MsgD) (ds : List FileD)
    (hc : noClash req xs ds = true)
    (hts : ∀ d ∈ allMsgs req, ts'.contains d.name = cfg.types.contains d.name)
    (hs : rootsStable cfg req xs ds = true) :
    (buildRoots { cfg with types := ts' } (extend req xs ds)).1.filter (isOld req) = (buildRoots cfg req).1 := by
  intros; apply PGT.Proofs.RequestIndep.buildRoots_extend_old_roots <;> assumption

/-- **Fuel sufficiency.** On an acyclic request, the build of every message of the request gives the same result - IR or
error - with the default fuel and with any larger fuel: the fuel bound of the model is not visible. -/
theorem C12_fuel_enough (cfg : CfgView) (req : Request) (hac : Acyclic req = true) (d : MsgD) (hd : d ∈ allMsgs req)
    (k : Nat) (isRoot : Bool) (path : String) :
    buildMessage (defaultFuel req + k) cfg req d isRoot path = buildMessage (defaultFuel req) cfg req d isRoot path := by
  intros; apply PGT.Proofs.FuelEnough.fuel_enough <;> assumption

theorem C12_acyclic_no_recursion_limit (cfg : Config) (req : Request) (hac : Acyclic req = true) (d : MsgD) (hd : d ∈ allMsgs req) :
    buildRoot cfg req d ≠ .error .recursionLimit := by
  intros; apply PGT.Proofs.FuelEnough.buildRoot_ne_rl <;> assumption

/-- the statement `RequestIndep.extend_buildRoot_full`, which is false in general, holds for the messages of an acyclic
request: if no reachable name is the name of an added message, `buildRoot` is unchanged (no-clash is not needed) -/
theorem C12_extend_unreferenced_acyclic (cfg : Config) (req : Request) (xs : List MsgD) (ds : List FileD)
    (hac : Acyclic req = true) (desc : MsgD) (hd : desc ∈ allMsgs req)
    (h : ∀ x ∈ msgNames (defaultFuel req) req desc, x ∉ newNames xs ds) :
    buildRoot cfg (extend req xs ds) desc = buildRoot cfg req desc := by
  intros; apply PGT.Proofs.FuelEnough.extend_buildRoot_unreferenced_acyclic <;> assumption

/-- **C12, request part, acyclic request, extras not selected**: same roots, same IRs, same order, same failures -/
theorem C12_buildRoots_extend_unselected_acyclic (cfg : Config) (req : Request) (xs : List MsgD) (ds : List FileD)
    (hac : Acyclic req = true) (hc : noClash req xs ds = true)
    (hsel : ∀ m ∈ newMsgs xs ds, cfg.types.contains m.name = false) (hn : noDangling cfg req xs ds = true) :
    buildRoots cfg (extend req xs ds) = buildRoots cfg req := by
  intros; apply PGT.Proofs.FuelEnough.buildRoots_extend_unselected_acyclic <;> assumption

/-- **C12, request part, acyclic request, extras selected**: the roots with old names are the old roots -/
theorem C12_buildRoots_extend_old_roots_acyclic (cfg : Config) (ts' : List String) (req : Request) (xs : List MsgD)
    (ds : List FileD) (hac : Acyclic req = true) (hc : noClash req xs ds = true)
    (hts : ∀ d ∈ allMsgs req, ts'.contains d.name = cfg.types.contains d.name)
    (hn : noDangling cfg req xs ds = true) :
    (buildRoots { cfg with types := ts' } (extend req xs ds)).1.filter (isOld req) = (buildRoots cfg req).1 := by
  intros; apply PGT.Proofs.FuelEnough.buildRoots_extend_old_roots_acyclic <;> assumption

end PGT.Props.C12
