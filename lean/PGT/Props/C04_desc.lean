import PGT.Props.C04_builtrt
import PGT.Proofs.DescOK
/-
C04 (and the Booleans shared with C03 / C05), continued – DESCRIPTOR-level conditions (proofs: `Proofs/DescOK.lean`): the Booleans
`namesOKsB`, `branchOKsB`, `ptrOKsB`, `sepOKsB`, `hygieneB`, so far evaluated on the built IR, follow from decidable Booleans on the
request and the configuration (`C04_root_booleans`): the fields of a built message are, up to the name parts, a sub-permutation of a list
computed on the descriptor with embedded messages flattened (`C04_flat_all`), so pairwise conditions on names transfer
(`C04_built_namesOKsB`, also path-aware with `name_overrides`: `C04_built_namesOKsB_path`; `C04_built_sepOKsB`,
`C04_built_hygieneB`), and the branch / pointer conditions are evaluated with `GetTerraformType` on descriptor and configuration
(`C04_built_branchOKsB`, `C04_built_ptrOKsB`; readable sufficient form: `C04_built_branchOKsB_readable`). Headline:
`C04_desc_root_typed` – for every descriptor and configuration passing the Booleans, every root the generator builds and every
typed struct value, the round trip is the identity in normal form. The witnesses of BuiltRT / BuiltFrom are rejected by exactly
their own Boolean (`C04_desc_witnesses_rejected`). Sufficient, not necessary.
-/
namespace PGT.Props.C04
open PGT PGT.Spec PGT.SchemaTyped PGT.Proofs.BuildErrors PGT.Proofs.PathUnique PGT.Proofs.ExclusionPrune PGT.Proofs.BuiltWF PGT.Proofs.BuiltRT PGT.Proofs.BuiltFrom PGT.Proofs.DescOK
open PGT.PriorIndep PGT.OrderIndep PGT.Props

/-- **THE LINK, by induction over the fuel**: the names of the fields of a built message are, up to order and omission
(sorting, exclusion), those computed on the descriptor -/
theorem C04_flat_all (ws : Bool) (V : CfgView) (req : Request) (hno : ws = true → NoNameOverride V) : ∀ n : Nat,
    (∀ desc isRoot path m, buildMessage n V req desc isRoot path = .ok m →
        (m.fields.map (fun x => keyOf ws x.info)).Subperm (flatPre ws V req n desc)) ∧
    (∀ ctx f r, fieldCall n V req ctx f = .ok r →
        (r.map (fun x => keyOf ws x.info)).Subperm (blockPre ws V req n ctx.desc f)) := by
  intros; apply PGT.Proofs.DescOK.flat_all <;> assumption

theorem C04_built_namesOKsB (V : CfgView) (req : Request) (hno : NoNameOverride V) (n : Nat) (desc : MsgD) (isRoot : Bool)
    (path : String) (m : Msg) (h : buildMessage n V req desc isRoot path = .ok m)
    (hd : snakeDescOKb V req n desc = true) : namesOKsB m.fields = true := by
  intros; apply PGT.Proofs.DescOK.built_namesOKsB <;> assumption

theorem C04_built_namesOKsB_path (V : CfgView) (req : Request) (n : Nat) (desc : MsgD) (m : Msg)
    (h : buildMessage n V req desc true "" = .ok m) (hd : snakePathDescOKb V req n desc = true) :
    namesOKsB m.fields = true := by
  intros; apply PGT.Proofs.DescOK.built_namesOKsB_path <;> assumption

theorem C04_built_sepOKsB (V : CfgView) (req : Request) (n : Nat) (desc : MsgD) (isRoot : Bool)
    (path : String) (m : Msg) (h : buildMessage n V req desc isRoot path = .ok m)
    (hd : sepDescOKb V req n desc = true) : sepOKsB m.fields = true := by
  intros; apply PGT.Proofs.DescOK.built_sepOKsB <;> assumption

theorem C04_built_hygieneB (V : CfgView) (req : Request) (n : Nat) (desc : MsgD) (isRoot : Bool)
    (path : String) (m : Msg) (h : buildMessage n V req desc isRoot path = .ok m)
    (hd : hygDescB V req n desc = true) : hygieneB m = true := by
  intros; apply PGT.Proofs.DescOK.built_hygieneB <;> assumption

theorem C04_built_branchOKsB (V : CfgView) (req : Request) (n : Nat) (desc : MsgD) (isRoot : Bool) (path : String) (m : Msg)
    (h : buildMessage n V req desc isRoot path = .ok m) (hd : branchDescOKb V req desc = true) :
    branchOKsB m.fields = true := by
  intros; apply PGT.Proofs.DescOK.built_branchOKsB <;> assumption

theorem C04_built_ptrOKsB (V : CfgView) (req : Request) (n : Nat) (desc : MsgD) (isRoot : Bool) (path : String) (m : Msg)
    (h : buildMessage n V req desc isRoot path = .ok m) (hd : ptrDescOKb V req desc = true) :
    ptrOKsB m.fields = true := by
  intros; apply PGT.Proofs.DescOK.built_ptrOKsB <;> assumption

/-- **`branchOKsB` from the readable condition on the request alone, for every configuration** -/
theorem C04_built_branchOKsB_readable (V : CfgView) (req : Request) (n : Nat) (desc : MsgD) (isRoot : Bool) (path : String) (m : Msg)
    (h : buildMessage n V req desc isRoot path = .ok m) (hd : branchReadableDescOKb req desc = true) :
    branchOKsB m.fields = true := by
  intros; apply PGT.Proofs.DescOK.built_branchOKsB_readable <;> assumption

/-- **the IR Booleans of a built root from the descriptor Booleans** (exclusions, custom types, embedded messages, sorting
allowed; `name_overrides` only matter for the attribute names) -/
theorem C04_root_booleans (cfg : Config) (req : Request) (desc : MsgD) (m : Msg) (hb : buildRoot cfg req desc = .ok (some m)) :
    (cfg.nameOverrides = [] → attrNamesDescOKb cfg req desc = true → namesOKsB m.fields = true) ∧
    (goNamesDescOKb cfg req desc = true → sepOKsB m.fields = true ∧ hygieneB m = true) ∧
    (branchPtrDescOKb cfg req desc = true → branchOKsB m.fields = true ∧ ptrOKsB m.fields = true) := by
  intros; apply PGT.Proofs.DescOK.root_booleans <;> assumption

/-- **C04 from the descriptor**: `BuiltRT.C04_built_root_typed` with `gapFreeBs`, `namesOKsB`, `rtBs` replaced by conditions on
request and configuration -/
theorem C04_desc_root_typed (ov : List (String × String)) (cfg : Config) (req : Request) (desc : MsgD) (m : Msg)
    (hb : buildRoot cfg req desc = .ok (some m))
    (hc : ConfigTypesAgree (viewOf cfg)) (hcc : ConfigCastsAgree (viewOf cfg))
    (hx : cfg.excludeFields = []) (hcu : cfg.customTypes = []) (hov : cfg.nameOverrides = [])
    (hreq : reqOKb req desc = true) (hn : namesDescOKb cfg req desc = true) (hbp : branchPtrDescOKb cfg req desc = true)
    (obj : GoVal) (hv : ValOKs m.fields obj) (hrv : RTVals m.fields obj) :
    ∃ r b, copyTo m obj (.obj false false none (some (attrTypesOf m))) = .ok r ∧ r.diags = [] ∧
      copyFrom ov m r.tf (.struct []) = .ok b ∧ b.diags = [] ∧ c04Check m obj b.obj = true := by
  intros; apply PGT.Proofs.DescOK.C04_desc_root_typed <;> assumption

/-- **C04 from the descriptor, every configuration without exclusions / configured custom types** (`name_overrides` allowed) -/
theorem C04_desc_root_typed_overrides (ov : List (String × String)) (cfg : Config) (req : Request) (desc : MsgD) (m : Msg)
    (hb : buildRoot cfg req desc = .ok (some m))
    (hc : ConfigTypesAgree (viewOf cfg)) (hcc : ConfigCastsAgree (viewOf cfg))
    (hx : cfg.excludeFields = []) (hcu : cfg.customTypes = [])
    (hreq : reqOKb req desc = true) (hn : attrNamesPathDescOKb cfg req desc = true)
    (hg : goNamesDescOKb cfg req desc = true) (hbp : branchPtrDescOKb cfg req desc = true)
    (obj : GoVal) (hv : ValOKs m.fields obj) (hrv : RTVals m.fields obj) :
    ∃ r b, copyTo m obj (.obj false false none (some (attrTypesOf m))) = .ok r ∧ r.diags = [] ∧
      copyFrom ov m r.tf (.struct []) = .ok b ∧ b.diags = [] ∧ c04Check m obj b.obj = true := by
  intros; apply PGT.Proofs.DescOK.C04_desc_root_typed_overrides <;> assumption

/-- … for every message `buildRoots` emits -/
theorem C04_desc_roots_typed (ov : List (String × String)) (cfg : Config) (req : Request) (m : Msg)
    (hm : m ∈ (buildRoots cfg req).1)
    (hc : ConfigTypesAgree (viewOf cfg)) (hcc : ConfigCastsAgree (viewOf cfg))
    (hx : cfg.excludeFields = []) (hcu : cfg.customTypes = []) (hov : cfg.nameOverrides = [])
    (hall : ∀ d ∈ req.allFiles.flatMap (·.messages),
      reqOKb req d = true ∧ namesDescOKb cfg req d = true ∧ branchPtrDescOKb cfg req d = true)
    (obj : GoVal) (hv : ValOKs m.fields obj) (hrv : RTVals m.fields obj) :
    ∃ r b, copyTo m obj (.obj false false none (some (attrTypesOf m))) = .ok r ∧ r.diags = [] ∧
      copyFrom ov m r.tf (.struct []) = .ok b ∧ b.diags = [] ∧ c04Check m obj b.obj = true := by
  intros; apply PGT.Proofs.DescOK.C04_desc_roots_typed <;> assumption

theorem C04_desc_witnesses_rejected : type_of% PGT.Proofs.DescOK.Witness.builtRT_rejected := PGT.Proofs.DescOK.Witness.builtRT_rejected
theorem C04_desc_hygiene_witnesses_rejected : type_of% PGT.Proofs.DescOK.Witness.builtFrom_rejected := PGT.Proofs.DescOK.Witness.builtFrom_rejected
theorem C04_desc_attrNames_full_false : type_of% PGT.Proofs.DescOK.Witness.attrNames_full_false := PGT.Proofs.DescOK.Witness.attrNames_full_false
theorem C04_desc_sanity : type_of% @PGT.Proofs.DescOK.Sanity.C04_desc_sanity := @PGT.Proofs.DescOK.Sanity.C04_desc_sanity

end PGT.Props.C04
