import PGT.Model.Schema
/-
C11 – Field-addressed options hit exactly the addressed fields; exclusion is surgical.
-/
namespace PGT.Props.C11
open PGT

/-- two configuration views agree on everything that is asked about the field occurrence with keys `k` -/
structure AgreeAt (V V' : CfgView) (k : Keys) : Prop where
  excluded : V.excluded k = V'.excluded k
  computed : V.computed k = V'.computed k
  required : V.required k = V'.required k
  sensitive : V.sensitive k = V'.sensitive k
  nameOverride : V.nameOverride k = V'.nameOverride k
  validators : V.validators k = V'.validators k
  planModifiers : V.planModifiers k = V'.planModifiers k
  customType : V.customType k = V'.customType k
  switch : V.useStateForUnknownByDefault = V'.useStateForUnknownByDefault
  suffix : V.suffix = V'.suffix

/-- name, plan modifiers, custom-type decision and suffix of a field depend on the configuration only through the
entries at the field's own two keys -/
theorem C11_local (V V' : CfgView) (f : FieldD) (k : Keys) (h : AgreeAt V V' k) :
    snakeOf V f k = snakeOf V' f k ∧ planModsOf V k = planModsOf V' k ∧
    isCustomOf V f k = isCustomOf V' f k ∧ suffixOf V f k = suffixOf V' f k := by
  refine ⟨?_, ?_, ?_, ?_⟩
  · simp [snakeOf, h.nameOverride]
  · simp [planModsOf, h.planModifiers, h.switch, h.computed]
  · simp [isCustomOf, h.customType]
  · simp [suffixOf, isCustomOf, h.customType, h.suffix]

/-- an entry under a key that is neither the path nor `Message.Field` of an occurrence does not affect it:
adding `key` to a flag list changes the flag of exactly the occurrences whose path or type name is `key` -/
theorem C11_flag_other_key (set : List String) (key : String) (k : Keys) (h1 : k.path ≠ key) (h2 : k.typeName ≠ key) :
    flagValue (key :: set) k = flagValue set k := by
  have hk : lookupKeyExprs "GetFlagValue" = ["c.GetNameWithTypeName()", "c.GetPath()"] := by decide
  simp [flagValue, hk, Keys.eval, h1, h2]

/-- … and it does set the flag of the addressed occurrences, under either key form -/
theorem C11_flag_addressed (set : List String) (k : Keys) :
    flagValue (k.path :: set) k = true ∧ flagValue (k.typeName :: set) k = true := by
  have hk : lookupKeyExprs "GetFlagValue" = ["c.GetNameWithTypeName()", "c.GetPath()"] := by decide
  constructor <;> simp [flagValue, hk, Keys.eval]

/-- map-valued options: an entry under another key is invisible -/
theorem C11_lookup_other_key {α} (fn : String) (m : List (String × α)) (key : String) (v : α) (k : Keys)
    (h1 : k.path ≠ key) (h2 : k.typeName ≠ key) :
    firstLookup fn ((key, v) :: m) k = firstLookup fn m k := by
  unfold firstLookup
  congr 1
  funext e
  cases he : k.eval e with
  | none => rfl
  | some key' =>
    have hne : key' ≠ key := by
      unfold Keys.eval at he
      split at he
      · injection he with he; subst he; exact h1
      · split at he
        · injection he with he; subst he; exact h2
        · simp at he
    have hb : (key' == key) = false := by simpa using hne
    simp [List.lookup, hb]

/-- exclusion is tested before anything else is computed for the field: an excluded field has no IR node at all -/
theorem C11_excluded_no_ir (fuel : Nat) (cfg : CfgView) (req : Request) (ctx : MsgCtx) (f : FieldD) (keys : Keys)
    (goType : String) (isMap isRep hasComment : Bool) (h : cfg.excluded keys = true) :
    buildFieldCore (fuel + 1) cfg req ctx f keys goType isMap isRep hasComment = .ok [] := by
  unfold buildFieldCore
  simp [h]

/-- the path of a field occurrence is the parent's path extended by the proto field name; the `Message.Field` key
does not depend on where the message occurs -/
theorem C11_keys (ctx ctx' : MsgCtx) (f : FieldD) (h : ctx.desc = ctx'.desc) :
    (keysOf ctx f).typeName = (keysOf ctx' f).typeName ∧
    (f.embed = false → (keysOf ctx f).path = ctx.path ++ "." ++ f.name) := by
  simp [keysOf, h]
  intro he; simp [he]

end PGT.Props.C11
