import PGT.Props.C09
import PGT.Proofs.BuiltFrom
/-
C09, continued – refresh sequences and idempotence for every root the generator BUILDS (proofs: `Proofs/BuiltFrom.lean`): `ToOKs`
on the schema's own types reduces to gap-freedom, distinct names and typing of the struct values (`C09_built_root_toOKs`), and for a
built IR `ShapedAttrs` is equivalent to its value part `ShapedVAttrs`.
-/
namespace PGT.Props.C09
open PGT PGT.Spec PGT.SchemaTyped PGT.Proofs.BuildErrors PGT.Proofs.PathUnique PGT.Proofs.ExclusionPrune PGT.Proofs.BuiltWF PGT.Proofs.BuiltFrom
open PGT.PriorIndep PGT.OrderIndep

/-- `ToOKs` against the schema's attribute types, for built roots: no gap, distinct attribute names, a typed struct value -/
theorem C09_built_root_toOKs (cfg : Config) (req : Request) (desc : MsgD) (m : Msg) (hb : buildRoot cfg req desc = .ok (some m))
    (hc : ConfigTypesAgree (viewOf cfg)) (hg : gapFreeBs m.fields = true) (hn : namesOKsB m.fields = true)
    (v : GoVal) (hv : ValOKs m.fields v) : ToOKs m.fields v (attrTypesOf m) := by
  intros; apply PGT.Proofs.BuiltFrom.built_root_toOKs <;> assumption

/-- for every built message: `ShapedAttrs` ⇔ its value part -/
theorem C09_built_shapedAttrs_iff (fuel : Nat) (V : CfgView) (req : Request) (desc : MsgD) (isRoot : Bool) (path : String)
    (m : Msg) (h : buildMessage fuel V req desc isRoot path = .ok m) (hc : ConfigTypesAgree V)
    (attrs : List (String × TfVal)) (atys : List (String × TfTy)) :
    ShapedAttrs m.fields attrs atys ↔ ShapedVAttrs m.fields attrs atys := by
  intros; apply PGT.Proofs.BuiltFrom.built_shapedAttrs_iff <;> assumption

/-- **C09, one refresh step, for every root the generator builds**: any typed struct value (`ValOKs`) into any target
whose existing attribute values are shaped for the IR (`ShapedVAttrs`, the value part of `ShapedAttrs`, against the schema's
attribute types): no diagnostic,
the result follows the source and is a target again -/
theorem C09_built_root_step (cfg : Config) (req : Request) (desc : MsgD) (m : Msg) (hb : buildRoot cfg req desc = .ok (some m))
    (hc : ConfigTypesAgree (viewOf cfg)) (hg : gapFreeBs m.fields = true) (hn : namesOKsB m.fields = true)
    (v : GoVal) (hv : ValOKs m.fields v) (u n : Bool) (as : Option (List (String × TfVal)))
    (hs : ShapedVAttrs m.fields (as.getD []) (attrTypesOf m)) :
    ∃ r as', copyTo m v (.obj u n as (some (attrTypesOf m))) = .ok r ∧ r.diags = [] ∧
      r.tf = .obj false false (some as') (some (attrTypesOf m)) ∧
      followsFields m.fields v (as.getD []) as' = true ∧ Props.C09.Target m.fields (attrTypesOf m) r.tf := by
  intros; apply PGT.Proofs.BuiltFrom.C09_built_root_step <;> assumption

/-- **C09 over arbitrary sequences of calls, for every root the generator builds**: starting from the empty schema-typed
object, every call of a sequence of typed struct values succeeds without diagnostics and the final object is a target -/
theorem C09_built_root_sequence (cfg : Config) (req : Request) (desc : MsgD) (m : Msg)
    (hb : buildRoot cfg req desc = .ok (some m))
    (hc : ConfigTypesAgree (viewOf cfg)) (hg : gapFreeBs m.fields = true) (hn : namesOKsB m.fields = true)
    (vs : List GoVal) (hvs : ∀ v ∈ vs, ValOKs m.fields v) :
    ∃ o', Props.C09.runSeq m vs (.obj false false none (some (attrTypesOf m))) = .ok o' ∧
      Props.C09.Target m.fields (attrTypesOf m) o' := by
  intros; apply PGT.Proofs.BuiltFrom.C09_built_root_sequence <;> assumption

/-- … from any target, and the last call leaves an object that follows its source -/
theorem C09_built_root_sequence_last (cfg : Config) (req : Request) (desc : MsgD) (m : Msg)
    (hb : buildRoot cfg req desc = .ok (some m))
    (hc : ConfigTypesAgree (viewOf cfg)) (hg : gapFreeBs m.fields = true) (hn : namesOKsB m.fields = true)
    (vs : List GoVal) (vlast : GoVal) (hvs : ∀ v ∈ vs, ValOKs m.fields v) (hl : ValOKs m.fields vlast)
    (o : TfVal) (ho : Props.C09.Target m.fields (attrTypesOf m) o) :
    ∃ omid r as as', Props.C09.runSeq m vs o = .ok omid ∧ copyTo m vlast omid = .ok r ∧ r.diags = [] ∧
      r.tf = .obj false false (some as') (some (attrTypesOf m)) ∧ followsFields m.fields vlast as as' = true := by
  intros; apply PGT.Proofs.BuiltFrom.C09_built_root_sequence_last <;> assumption

/-- **C09, idempotence, for every root the generator builds**: after an in-place `CopyTo` of a typed struct value into a
shaped target, the same call on the result returns the same object, without diagnostics -/
theorem C09_built_root_idempotent (cfg : Config) (req : Request) (desc : MsgD) (m : Msg)
    (hb : buildRoot cfg req desc = .ok (some m))
    (hc : ConfigTypesAgree (viewOf cfg)) (hg : gapFreeBs m.fields = true) (hn : namesOKsB m.fields = true)
    (v : GoVal) (hv : ValOKs m.fields v) (u n : Bool) (as : Option (List (String × TfVal)))
    (hs : ShapedVAttrs m.fields (as.getD []) (attrTypesOf m)) (r : ToResult)
    (h : copyTo m v (.obj u n as (some (attrTypesOf m))) = .ok r) :
    ∃ r', copyTo m v r.tf = .ok r' ∧ r'.tf = r.tf ∧ r'.diags = [] := by
  intros; apply PGT.Proofs.BuiltFrom.C09_built_root_idempotent <;> assumption

theorem C09_built_roots_sequence (cfg : Config) (req : Request) (m : Msg) (hm : m ∈ (buildRoots cfg req).1)
    (hc : ConfigTypesAgree (viewOf cfg)) (hg : gapFreeBs m.fields = true) (hn : namesOKsB m.fields = true)
    (vs : List GoVal) (hvs : ∀ v ∈ vs, ValOKs m.fields v) :
    ∃ o', Props.C09.runSeq m vs (.obj false false none (some (attrTypesOf m))) = .ok o' ∧
      Props.C09.Target m.fields (attrTypesOf m) o' := by
  intros; apply PGT.Proofs.BuiltFrom.C09_built_roots_sequence <;> assumption

theorem C09_built_roots_idempotent (cfg : Config) (req : Request) (m : Msg) (hm : m ∈ (buildRoots cfg req).1)
    (hc : ConfigTypesAgree (viewOf cfg)) (hg : gapFreeBs m.fields = true) (hn : namesOKsB m.fields = true)
    (v : GoVal) (hv : ValOKs m.fields v) (u n : Bool) (as : Option (List (String × TfVal)))
    (hs : ShapedVAttrs m.fields (as.getD []) (attrTypesOf m)) (r : ToResult)
    (h : copyTo m v (.obj u n as (some (attrTypesOf m))) = .ok r) :
    ∃ r', copyTo m v r.tf = .ok r' ∧ r'.tf = r.tf ∧ r'.diags = [] := by
  intros; apply PGT.Proofs.BuiltFrom.C09_built_roots_idempotent <;> assumption

end PGT.Props.C09
