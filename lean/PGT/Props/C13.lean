import PGT.Model.Schema
import PGT.Generated.Builtins
/-
C13 – Separate-package generation behaves like same-package generation (IR-level part).
-/
namespace PGT.Props.C13
open PGT

/-- without a default package name no Go type string is touched -/
theorem C13_same_package (ov : List (String × String)) (t : String) :
    prependPackageNameIfMissing ov t "" = t := by
  simp [prependPackageNameIfMissing]

/-- **the list of predeclared type names is the one in the source** (table T6, regenerated from `Imports.isBuiltinType` on
every run): `int` and `uint` without a size are in it like the sized ones -/
theorem C13_builtin_table : Generated.builtinTypes = builtinTypeNames := by decide

/-- **the qualification rule of the source is the one the model transcribes** (table T6, regenerated on every run): a type that
already carries a qualifier – ANY qualifier, also one that equals the last element of the struct package's path –, an empty
package name or a predeclared type is left alone; everything else is qualified with the struct package. -/
theorem C13_prepend_src : Generated.srcPrependPackageNameIfMissing =
    "{ typ, mod := i.typAndMod(t) if strings.Contains(i.typBeforeBracket(typ), \".\") || pkg == \"\" || i.isBuiltinType(typ) { return t } return i.appendQual(pkg+\".\"+typ, mod) }" := rfl

/-- builtin types are never qualified -/
theorem C13_builtin (ov : List (String × String)) (t pkg : String) (h : isBuiltinType (typAndMod t).1 = true) :
    prependPackageNameIfMissing ov t pkg = t := by
  simp [prependPackageNameIfMissing, h]

/-- the semantics of the emitted converters never reads a Go type string except for casts whose target is a
builtin name; a qualified (non-builtin) name denotes the representation gogo gives the proto type: qualification
does not change the representation of a field -/
theorem C13_rep_independent (f : FieldInfo) (q : String) (h : repOfGoType f.tf.valueCastFromType = none)
    (hq : repOfGoType q = none) :
    ({ f with tf := { f.tf with valueCastFromType := q } } : FieldInfo).rep = f.rep := by
  simp [FieldInfo.rep, h, hq]

/-- root types stay addressable by their bare name in `types`, whatever the default package is -/
theorem C13_root_path (fuel : Nat) (V : CfgView) (req : Request) (d : MsgD) (m : Msg)
    (h : buildMessage fuel V req d true "" = .ok m) : m.info.path = d.name ∧ m.info.name = d.name := by
  cases fuel with
  | zero => simp [buildMessage] at h
  | succ n =>
    unfold buildMessage at h
    simp only at h
    split at h
    · simp at h
    · simp at h
      subst h
      simp

example : prependPackageNameIfMissing [] "[]*Foo" "example.com/x/types" = "[]*example_com_x_types.Foo" := by decide
example : prependPackageNameIfMissing [] "map[string]int32" "example.com/x/types" = "map[string]int32" := by decide
example : prependPackageNameIfMissing [("types", "example.com/y")] "Foo" "types" = "example_com_y.Foo" := by decide

end PGT.Props.C13
