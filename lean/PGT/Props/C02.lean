import PGT.Model.Schema
import PGT.Model.Spec
/-
C02 – Each field maps to one attribute, named and typed as documented, everywhere.
-/
namespace PGT.Props.C02
open PGT

/-- The documented naming rule (README "Schema field naming", property text): `name_overrides` entry by full path,
else by `Message.Field`, else the first element of the json tag unless it is "-" or empty, else snake_case. -/
def specName (c : Config) (f : FieldD) (keys : Keys) : String :=
  match c.nameOverrides.lookup keys.path with
  | some v => v
  | none =>
    match c.nameOverrides.lookup keys.typeName with
    | some v => v
    | none =>
      match f.jsonTag with
      | none => String.ofList (snakeCase f.name.toList)
      | some t =>
        let first := ((splitOnChar ',' t.toList).head?.getD [])
        if first == ['-'] || first == [] then String.ofList (snakeCase f.name.toList) else String.ofList first

theorem C02_name_keys : lookupKeyExprs "GetNameSnake" = ["c.GetPath()", "c.GetNameWithTypeName()"] := by decide

theorem jsonName_some (t : Str) :
    jsonName (some t) = (if ((splitOnChar ',' t).head?.getD []) = ['-'] then [] else ((splitOnChar ',' t).head?.getD [])) := by
  unfold jsonName
  split
  · simp_all
  · rename_i t' ht
    injection ht with ht; subst ht
    split
    · rename_i h; simp [h]
    · rename_i j rest h
      simp [h]

/-- the attribute name the generator computes is the documented one, for every field, configuration and key pair -/
theorem C02_names (c : Config) (f : FieldD) (keys : Keys) :
    snakeOf (viewOf c) f keys = specName c f keys := by
  unfold snakeOf specName viewOf firstLookup
  simp only [C02_name_keys, List.findSome?, Keys.eval]
  simp only [show ("c.GetPath()" == "c.GetPath()") = true from rfl, if_true,
             show ("c.GetNameWithTypeName()" == "c.GetPath()") = false from by decide,
             show ("c.GetNameWithTypeName()" == "c.GetNameWithTypeName()") = true from rfl]
  cases h1 : List.lookup keys.path c.nameOverrides with
  | some v => simp
  | none =>
    simp
    cases h2 : List.lookup keys.typeName c.nameOverrides with
    | some v => simp
    | none =>
      simp
      cases ht : f.jsonTag with
      | none => simp [jsonName]
      | some t =>
        simp only [Option.map, jsonName_some]
        generalize ((splitOnChar ',' t.toList).head?.getD []) = X
        by_cases hd : X = ['-'] <;> by_cases he : X = [] <;> simp_all

/-- the Terraform type of a singular scalar / enum field of proto type `t` according to the regenerated table -/
def tfKindOf (t : String) : Option VKind :=
  let f : FieldD := { name := "F", type := t, typeName := if t == "enum" then "E" else "" }
  match getTerraformType (viewOf {}) f false false (if t == "enum" then "E" else scalarGoType t) "P.F" with
  | .ok tf => some (tkindOf tf.elemType)
  | .error _ => none

/-- The documented type table: integers and enums ↦ Int64, float/double ↦ Float64, bool ↦ Bool,
string and bytes ↦ String (finite table, decided on the regenerated `Generated.typeRows`). -/
theorem C02_type_table :
    (["int32", "int64", "uint32", "uint64", "sint32", "sint64", "fixed32", "fixed64", "sfixed32", "sfixed64", "enum"].all
        fun t => tfKindOf t == some (.prim .int64)) = true ∧
    (["float", "double"].all fun t => tfKindOf t == some (.prim .float64)) = true ∧
    tfKindOf "bool" = some (.prim .bool) ∧
    (["string", "bytes"].all fun t => tfKindOf t == some (.prim .string)) = true := by
  decide

/-- repeated ↦ List, string-keyed map ↦ Map wrapping (the post-processing of `GetTerraformType` is the standard one) -/
theorem C02_wrapping : Generated.postProcessingStandard = true := by decide

/-- Single / List / Map nested attributes (or plain typed attributes) by `Kind` -/
theorem C02_nesting (f : Field) :
    ∃ r o c s d ty nest attrs v p x, (schemaField f).2 = .mk r o c s d ty nest attrs v p x ∧
      nest = (match f.info.kind with
              | .object => "single" | .objectList => "list" | .objectMap => "map" | _ => "none") := by
  obtain ⟨info, mapVal, msg, sub⟩ := f
  cases hk : info.kind <;> simp [schemaField, hk]

/-- the key of the schema entry is the attribute name of the IR field -/
theorem C02_schema_key (f : Field) : (schemaField f).1 = f.info.nameSnake := by
  obtain ⟨info, mapVal, msg, sub⟩ := f
  simp [schemaField]

example : specName { nameOverrides := [("M.F", "x")] } { name := "FooBar", type := "string", jsonTag := some "a,omitempty" }
    { path := "R.M.F", typeName := "M.F" } = "x" := by decide
example : specName {} { name := "FooBar", type := "string", jsonTag := some "-" } { path := "R.F", typeName := "M.F" } = "foo_bar" := by decide

end PGT.Props.C02
