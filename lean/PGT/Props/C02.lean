import PGT.Proofs.ToCongr
import PGT.Model.Schema
import PGT.Model.Spec
/-
C02 – Each field maps to one attribute, named and typed as documented, everywhere.
-/
namespace PGT.Props.C02
open PGT

/-- The documented naming rule (README "Schema field naming", property text): `name_overrides` entry by full path,
else by `Message.Field`, else the first element of the json tag unless it is "-" or empty, else snake_case. -/
def specName (c : Config) (f : FieldD) (keys : Keys) : String :=
  match c.nameOverrides.lookup keys.path with
  | some v => v
  | none =>
    match c.nameOverrides.lookup keys.typeName with
    | some v => v
    | none =>
      match f.jsonTag with
      | none => String.ofList (snakeCase f.name.toList)
      | some t =>
        let first := ((splitOnChar ',' t.toList).head?.getD [])
        if first == ['-'] || first == [] then String.ofList (snakeCase f.name.toList) else String.ofList first

theorem C02_name_keys : lookupKeyExprs "GetNameSnake" = ["c.GetPath()", "c.GetNameWithTypeName()"] := by decide

theorem jsonName_some (t : Str) :
    jsonName (some t) = (if ((splitOnChar ',' t).head?.getD []) = ['-'] then [] else ((splitOnChar ',' t).head?.getD [])) := by
  unfold jsonName
  split
  · simp_all
  · rename_i t' ht
    injection ht with ht; subst ht
    split
    · rename_i h; simp [h]
    · rename_i j rest h
      simp [h]

/-- the attribute name the generator computes is the documented one, for every field, configuration and key pair -/
theorem C02_names (c : Config) (f : FieldD) (keys : Keys) :
    snakeOf (viewOf c) f keys = specName c f keys := by
  unfold snakeOf specName viewOf firstLookup
  simp only [C02_name_keys, List.findSome?, Keys.eval]
  simp only [show ("c.GetPath()" == "c.GetPath()") = true from rfl, if_true,
             show ("c.GetNameWithTypeName()" == "c.GetPath()") = false from by decide,
             show ("c.GetNameWithTypeName()" == "c.GetNameWithTypeName()") = true from rfl]
  cases h1 : List.lookup keys.path c.nameOverrides with
  | some v => simp
  | none =>
    simp
    cases h2 : List.lookup keys.typeName c.nameOverrides with
    | some v => simp
    | none =>
      simp
      cases ht : f.jsonTag with
      | none => simp [jsonName]
      | some t =>
        simp only [Option.map, jsonName_some]
        generalize ((splitOnChar ',' t.toList).head?.getD []) = X
        by_cases hd : X = ['-'] <;> by_cases he : X = [] <;> simp_all

/-- the Terraform type of a singular scalar / enum field of proto type `t` according to the regenerated table -/
def tfKindOf (t : String) : Option VKind :=
  let f : FieldD := { name := "F", type := t, typeName := if t == "enum" then "E" else "" }
  match getTerraformType (viewOf {}) f false false (if t == "enum" then "E" else scalarGoType t) "P.F" with
  | .ok tf => some (tkindOf tf.elemType)
  | .error _ => none

/-- The documented type table: integers and enums ↦ Int64, float/double ↦ Float64, bool ↦ Bool,
string and bytes ↦ String (finite table, decided on the regenerated `Generated.typeRows`). -/
theorem C02_type_table :
    (["int32", "int64", "uint32", "uint64", "sint32", "sint64", "fixed32", "fixed64", "sfixed32", "sfixed64", "enum"].all
        fun t => tfKindOf t == some (.prim .int64)) = true ∧
    (["float", "double"].all fun t => tfKindOf t == some (.prim .float64)) = true ∧
    tfKindOf "bool" = some (.prim .bool) ∧
    (["string", "bytes"].all fun t => tfKindOf t == some (.prim .string)) = true := by
  decide

/-- repeated ↦ List, string-keyed map ↦ Map wrapping (the post-processing of `GetTerraformType` is the standard one) -/
theorem C02_wrapping : Generated.postProcessingStandard = true := by decide

/-- Single / List / Map nested attributes (or plain typed attributes) by `Kind` -/
theorem C02_nesting (f : Field) :
    ∃ r o c s d ty nest attrs v p x, (schemaField f).2 = .mk r o c s d ty nest attrs v p x ∧
      nest = (match f.info.kind with
              | .object => "single" | .objectList => "list" | .objectMap => "map" | _ => "none") := by
  obtain ⟨info, mapVal, msg, sub⟩ := f
  cases hk : info.kind <;> simp [schemaField, hk]

/-- the key of the schema entry is the attribute name of the IR field -/
theorem C02_schema_key (f : Field) : (schemaField f).1 = f.info.nameSnake := by
  obtain ⟨info, mapVal, msg, sub⟩ := f
  simp [schemaField]

example : specName { nameOverrides := [("M.F", "x")] } { name := "FooBar", type := "string", jsonTag := some "a,omitempty" }
    { path := "R.M.F", typeName := "M.F" } = "x" := by decide
example : specName {} { name := "FooBar", type := "string", jsonTag := some "-" } { path := "R.F", typeName := "M.F" } = "foo_bar" := by decide

-- ------------------------------------------------------------------------------------------------------
-- "writing a distinctive value into one field changes exactly that attribute" as theorems about CopyTo for every IR, every
-- pair of source structs and every start state (proofs: `Proofs/ToCongr.lean`): a field's block looks at the struct only
-- through `fieldView`; it assigns at most its own attribute; two runs on structs that agree in the view of every field but
-- the one named `f0` produce attribute maps that agree everywhere but at `f0`'s attribute.

/-- **a field block reads the struct only through its own field**: two structs that give the same view of `f`
(`fieldView`) are indistinguishable to the block of `f` - same result state, diagnostics, hook log, same panic / stuck;
no condition on any other field, none on the nested messages (they are reached through the value read). -/
theorem C02_to_congr (f : Field) (obj obj' : GoVal) (atys : Option (List (String × TfTy))) (st : ToSt)
    (h : fieldView f.info obj = fieldView f.info obj') :
    copyToField f obj atys st = copyToField f obj' atys st := by
  intros; apply copyToField_congr <;> assumption

/-- the blocks of a field list write only the attributes named by the list -/
theorem C02_to_frame : ∀ (fs : List Field) (obj : GoVal) (atys : Option (List (String × TfTy))) (st st' : ToSt),
    copyToFields fs obj atys st = .ok st' →
    ∀ key, (∀ f ∈ fs, key ≠ f.info.nameSnake) → st'.attrs.lookup key = st.attrs.lookup key := by
  intros; apply copyToFields_frame <;> assumption

/-- **changing one field of the source changes at most that field's attribute**: if `obj` and `obj'` give the same view
(`fieldView`) of every field of `fs` whose attribute name differs from `f0`'s, then the attribute maps the two runs
produce from the same start state agree on every key other than `f0`'s attribute name.  (Diagnostics / hooks may
differ.)  All inputs; pairwise distinctness of the attribute names is NOT needed. -/
theorem C02_to_changes_only (fs : List Field) (f0 : Field) (obj obj' : GoVal)
    (atys : Option (List (String × TfTy))) (st s1 s2 : ToSt)
    (hagree : ∀ f ∈ fs, f.info.nameSnake ≠ f0.info.nameSnake → fieldView f.info obj = fieldView f.info obj')
    (h1 : copyToFields fs obj atys st = .ok s1) (h2 : copyToFields fs obj' atys st = .ok s2) :
    ∀ key, key ≠ f0.info.nameSnake → s1.attrs.lookup key = s2.attrs.lookup key := by
  intros; apply copyToFields_changes_only <;> assumption

/-- the whole converter: on the same target, two sources that differ only in the view of `f0` give objects that agree
on every attribute other than `f0`'s -/
theorem C02_copyTo_changes_only (m : Msg) (f0 : Field) (obj obj' : GoVal) (tf : TfVal) (r1 r2 : ToResult)
    (hagree : ∀ f ∈ m.fields, f.info.nameSnake ≠ f0.info.nameSnake → fieldView f.info obj = fieldView f.info obj')
    (h1 : copyTo m obj tf = .ok r1) (h2 : copyTo m obj' tf = .ok r2) :
    ∃ as1 as2 atys, r1.tf = .obj false false (some as1) atys ∧ r2.tf = .obj false false (some as2) atys ∧
      ∀ key, key ≠ f0.info.nameSnake → as1.lookup key = as2.lookup key := by
  intros; apply copyTo_changes_only <;> assumption

/-- **writing a value into one Go field changes at most the attributes of the fields that mention it**: if every field
of `fs` that mentions the Go name `n` (as its own name, oneof holder or nullable embedded parent) has the attribute name
of `f0`, then `obj.<n> = x` changes at most the attribute of `f0`. -/
theorem C02_to_setField_changes_only (fs : List Field) (f0 : Field) (obj : GoVal) (n : String) (x : GoVal)
    (atys : Option (List (String × TfTy))) (st s1 s2 : ToSt)
    (hfs : ∀ f ∈ fs, f.info.nameSnake ≠ f0.info.nameSnake →
      f.info.name ≠ n ∧ f.info.oneOfName ≠ n ∧ f.info.parentIsOptionalEmbedFieldName ≠ n)
    (h1 : copyToFields fs obj atys st = .ok s1) (h2 : copyToFields fs (obj.setField n x) atys st = .ok s2) :
    ∀ key, key ≠ f0.info.nameSnake → s1.attrs.lookup key = s2.attrs.lookup key := by
  intros; apply copyToFields_setField_changes_only <;> assumption


end PGT.Props.C02
