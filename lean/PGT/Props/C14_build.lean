import PGT.Props.C14
/-
C14 (continuation) – order independence lifted from the configuration VIEW to what the generator builds and declares:
two configurations whose set-valued lists / duplicate-key-free maps are permutations of each other (same `sort`,
same scalar options) build the same IR for every top-level message, the same list of roots in the same order, the
same list of failed roots – for every request, every nesting depth (the build reads the configuration through
`viewOf` and `types.contains` only).
-/
namespace PGT.Props.C14
open PGT

/-- the hypotheses of `C14_view_perm`, bundled, plus the root selection `types` -/
structure ConfigPerm (c c' : Config) : Prop where
  he : c.excludeFields.Perm c'.excludeFields
  hc : c.computedFields.Perm c'.computedFields
  hr : c.requiredFields.Perm c'.requiredFields
  hs : c.sensitiveFields.Perm c'.sensitiveFields
  hno : c.nameOverrides.Perm c'.nameOverrides
  hnoN : (c.nameOverrides.map (·.1)).Nodup
  hv : c.validators.Perm c'.validators
  hvN : (c.validators.map (·.1)).Nodup
  hp : c.planModifiers.Perm c'.planModifiers
  hpN : (c.planModifiers.map (·.1)).Nodup
  hct : c.customTypes.Perm c'.customTypes
  hctN : (c.customTypes.map (·.1)).Nodup
  hsu : c.suffixes.Perm c'.suffixes
  hsuN : (c.suffixes.map (·.1)).Nodup
  hi : c.injectedFields.Perm c'.injectedFields
  hiN : (c.injectedFields.map (·.1)).Nodup
  hrest : c.importPathOverrides = c'.importPathOverrides ∧ c.defaultPackageName = c'.defaultPackageName ∧
      c.durationCustomType = c'.durationCustomType ∧ c.sort = c'.sort ∧
      c.useStateForUnknownByDefault = c'.useStateForUnknownByDefault ∧ c.timeType = c'.timeType ∧
      c.durationType = c'.durationType
  htypes : c.types.Perm c'.types

theorem ConfigPerm.view {c c' : Config} (h : ConfigPerm c c') : viewOf c = viewOf c' :=
  C14_view_perm c c' h.he h.hc h.hr h.hs h.hno h.hnoN h.hv h.hvN h.hp h.hpN h.hct h.hctN h.hsu h.hsuN h.hi h.hiN h.hrest

/-- every top-level message builds to the same IR (or the same error, or is skipped alike), for every request -/
theorem C14_buildRoot_perm {c c' : Config} (h : ConfigPerm c c') (req : Request) (desc : MsgD) :
    buildRoot c req desc = buildRoot c' req desc := by
  unfold buildRoot
  rw [h.view, C14_types_perm h.htypes desc.name]

/-- the list of built roots (in emission order, sorted or not) and the list of failed roots coincide -/
theorem C14_buildRoots_perm {c c' : Config} (h : ConfigPerm c c') (req : Request) :
    buildRoots c req = buildRoots c' req := by
  have hb : (fun d : MsgD => (d.name, buildRoot c req d)) = fun d => (d.name, buildRoot c' req d) := by
    funext d; rw [C14_buildRoot_perm h req d]
  have hsort : c.sort = c'.sort := h.hrest.2.2.2.1
  unfold buildRoots
  simp only [hb, hsort]

/-- the declaration-level response: two runs on the same request whose configurations (as read from YAML + command line)
are permutations of each other and name the same target package answer alike -/
theorem C14_emit_perm (k k' : Case) (cfg cfg' : Config)
    (hk : readConfig k.yamlState k.yaml k.cli = .ok cfg) (hk' : readConfig k'.yamlState k'.yaml k'.cli = .ok cfg')
    (h : ConfigPerm cfg cfg') (ht : cfg.targetPackageName = cfg'.targetPackageName) (hreq : k.request = k'.request) :
    emit k = emit k' := by
  unfold emit
  rw [hk, hk', hreq]
  simp only [C14_buildRoots_perm h k'.request, ht]

/-- non-vacuity: two orders of the same configuration, a request with a nested message -/
example :
    ConfigPerm { types := ["A", "B"], excludeFields := ["A.b", "C.d"], computedFields := ["A.x", "B.y"] }
               { types := ["B", "A"], excludeFields := ["C.d", "A.b"], computedFields := ["B.y", "A.x"] } := by
  constructor <;> simp [List.Perm.swap]

end PGT.Props.C14
