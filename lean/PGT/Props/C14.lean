import PGT.Model.Schema
import PGT.Generated.MapRanges
/-
C14 – Output is a deterministic function of descriptor and configuration.
A Lean function is deterministic by construction; the content here is (a) the regenerated fact that package main
never ranges over a map (which licenses modelling the configuration maps by lookup only) and (b) order
independence: everything the front end asks the configuration is invariant under permutations of the set-valued
lists and of the duplicate-key-free maps.
-/
namespace PGT.Props.C14
open PGT

/-- package main contains no `range` over a map-typed expression (translator T4, type-checked source) -/
theorem C14_no_map_range : Generated.mapRanges = [] := by decide

theorem contains_perm {l l' : List String} (h : l.Perm l') (k : String) : l.contains k = l'.contains k := by
  rw [Bool.eq_iff_iff]
  simp [h.mem_iff]

/-- membership tests do not see the order of a `+`-separated list or a YAML sequence -/
theorem C14_flag_perm {l l' : List String} (h : l.Perm l') (k : Keys) : flagValue l k = flagValue l' k := by
  unfold flagValue
  congr 1
  funext e
  cases k.eval e with
  | none => rfl
  | some key => simp [h.mem_iff]

/-- first-match lookup in a map without duplicate keys does not see the order of its entries -/
theorem lookup_perm {α} {l l' : List (String × α)} (h : l.Perm l') (hn : (l.map (·.1)).Nodup) (k : String) :
    l.lookup k = l'.lookup k := by
  induction h with
  | nil => rfl
  | cons x h ih =>
    obtain ⟨a, b⟩ := x
    simp only [List.map_cons, List.nodup_cons] at hn
    simp only [List.lookup]
    cases hk : (k == a) <;> simp [ih hn.2]
  | swap x y l =>
    obtain ⟨a, b⟩ := x
    obtain ⟨c, d⟩ := y
    simp only [List.map_cons, List.nodup_cons, List.mem_cons, not_or] at hn
    simp only [List.lookup]
    cases hka : (k == a) <;> cases hkc : (k == c) <;> simp
    · have h1 : k = a := by simpa using hka
      have h2 : k = c := by simpa using hkc
      exact absurd (h2 ▸ h1 ▸ rfl : c = a) (fun e => hn.1.1 e)
  | trans h1 h2 ih1 ih2 =>
    rw [ih1 hn]
    apply ih2
    exact (h1.map (·.1)).nodup_iff.mp hn

theorem C14_lookup_perm {α} {l l' : List (String × α)} (h : l.Perm l') (hn : (l.map (·.1)).Nodup) (fn : String) (k : Keys) :
    firstLookup fn l k = firstLookup fn l' k := by
  unfold firstLookup
  congr 1
  funext e
  cases k.eval e with
  | none => rfl
  | some key => simp [lookup_perm h hn key]

/-- Order independence of everything the generator asks the configuration: permuting the entries of the four
flag lists and of the (duplicate-key-free) option maps leaves the configuration view – hence the IR and the
emitted declarations – unchanged. Validator / plan-modifier *values* are sequences and are not permuted. -/
theorem C14_view_perm (c c' : Config)
    (he : c.excludeFields.Perm c'.excludeFields) (hc : c.computedFields.Perm c'.computedFields)
    (hr : c.requiredFields.Perm c'.requiredFields) (hs : c.sensitiveFields.Perm c'.sensitiveFields)
    (hno : c.nameOverrides.Perm c'.nameOverrides) (hnoN : (c.nameOverrides.map (·.1)).Nodup)
    (hv : c.validators.Perm c'.validators) (hvN : (c.validators.map (·.1)).Nodup)
    (hp : c.planModifiers.Perm c'.planModifiers) (hpN : (c.planModifiers.map (·.1)).Nodup)
    (hct : c.customTypes.Perm c'.customTypes) (hctN : (c.customTypes.map (·.1)).Nodup)
    (hsu : c.suffixes.Perm c'.suffixes) (hsuN : (c.suffixes.map (·.1)).Nodup)
    (hi : c.injectedFields.Perm c'.injectedFields) (hiN : (c.injectedFields.map (·.1)).Nodup)
    (hrest : c.importPathOverrides = c'.importPathOverrides ∧ c.defaultPackageName = c'.defaultPackageName ∧
      c.durationCustomType = c'.durationCustomType ∧ c.sort = c'.sort ∧
      c.useStateForUnknownByDefault = c'.useStateForUnknownByDefault ∧ c.timeType = c'.timeType ∧
      c.durationType = c'.durationType) :
    viewOf c = viewOf c' := by
  obtain ⟨h1, h2, h3, h4, h5, h6, h7⟩ := hrest
  unfold viewOf
  congr 1
  · funext k; exact C14_flag_perm he k
  · funext k; exact C14_flag_perm hc k
  · funext k; exact C14_flag_perm hr k
  · funext k; exact C14_flag_perm hs k
  · funext k; exact C14_lookup_perm hno hnoN _ k
  · funext k; exact C14_lookup_perm hv hvN _ k
  · funext k; exact C14_lookup_perm hp hpN _ k
  · funext k; exact C14_lookup_perm hct hctN _ k
  · funext t; exact lookup_perm hsu hsuN t
  · funext p; rw [lookup_perm hi hiN p]

/-- the selection of root types is a membership test as well -/
theorem C14_types_perm {ts ts' : List String} (h : ts.Perm ts') (n : String) : ts.contains n = ts'.contains n :=
  contains_perm h n

example : viewOf { excludeFields := ["A.b", "C.d"] } = viewOf { excludeFields := ["C.d", "A.b"] } := by
  apply C14_view_perm <;> simp [List.Perm.swap]

end PGT.Props.C14
