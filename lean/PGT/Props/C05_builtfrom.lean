import PGT.Props.C05_built
import PGT.Proofs.BuiltFrom
/-
C05, continued – prior independence and quiet reads for every root the generator BUILDS (proofs: `Proofs/BuiltFrom.lean`). The
IR-side hypotheses of `C05_prior_independent_all` reduce to ONE decidable Boolean on the built IR, `hygieneB` (six conjuncts about
Go names: no empty holder name, no field / parent pointer named like a holder, no field or group named like a parent pointer, children
of one parent with one Go name are one field; `C05_hygiene_iff`; each conjunct fails on some built IR: `C05_hygiene_gap_*`), the
children's shape being guaranteed by the build (`C05_built_sideOK`) and the IR side of `Covered` by `GroupsListed` and gap-freedom
(`C05_built_covered`). `C05_built_root_no_diagnostics` needs no Boolean at all: for a built IR the typing judgement `Conforms`
is equivalent to its value part `ConformsV`.
-/
namespace PGT.Props.C05
open PGT PGT.Spec PGT.SchemaTyped PGT.Proofs.BuildErrors PGT.Proofs.PathUnique PGT.Proofs.ExclusionPrune PGT.Proofs.BuiltWF PGT.Proofs.BuiltFrom
open PGT.PriorIndep PGT.OrderIndep

theorem C05_hygiene_iff (m : Msg) : hygieneB m = true ↔ Hygiene m := by
  intros; apply PGT.Proofs.BuiltFrom.hygiene_iff <;> assumption

/-- **`SideOK` (FromUniformAll) = shape of the children (guaranteed by the build) + name hygiene** -/
theorem C05_sideOK_of_hygiene (m : Msg) (H : Hygiene m)
    (hs : ∀ c ∈ m.fields, c.info.parentIsOptionalEmbed = true → shapeOKb c.info = true) : SideOK m := by
  intros; apply PGT.Proofs.BuiltFrom.sideOK_of_hygiene <;> assumption

/-- **`SideOK` for every built message**: the shape part is guaranteed, the rest is name hygiene -/
theorem C05_built_sideOK (fuel : Nat) (V : CfgView) (req : Request) (desc : MsgD) (isRoot : Bool) (path : String) (m : Msg)
    (h : buildMessage fuel V req desc isRoot path = .ok m) (hc : ConfigTypesAgree V) (hh : hygieneB m = true) : SideOK m := by
  intros; apply PGT.Proofs.BuiltFrom.built_sideOK <;> assumption

/-- **`Covered` for built messages without gap**: the IR side (groups listed, the placeholder is a scalar, a oneof name sits
on a branch outside nullable embedded messages) is discharged; what remains is `LiveAll`, on the Terraform value -/
theorem C05_built_covered (fuel : Nat) (V : CfgView) (req : Request) (desc : MsgD) (isRoot : Bool) (path : String) (m : Msg)
    (h : buildMessage fuel V req desc isRoot path = .ok m) (hg : gapFreeBs m.fields = true)
    (attrs : Option (List (String × TfVal))) (hl : LiveAll m attrs) : ∀ f ∈ m.fields, Covered m attrs f.info := by
  intros; apply PGT.Proofs.BuiltFrom.built_covered <;> assumption

/-- **C05 for every root the generator builds: the result of `Copy<T>FromTerraform` is determined by the Terraform value alone.**
Hypotheses: the root is built; the configured time / duration types agree; name hygiene (`hygieneB`, a Boolean on the built
IR); typing of the two prior structs (`PriorWF`: a parent pointer that is set points to a struct). Every Terraform value,
conforming or not. Conclusion: the calls succeed together, and two successful calls satisfy `PriorIndepRes`; the groups of all
branches among the root's own fields are listed (`GroupsListed`), so `PriorIndepRes.holders` covers them. -/
theorem C05_built_root_prior_independent (ov : List (String × String)) (cfg : Config) (req : Request) (desc : MsgD) (m : Msg)
    (hb : buildRoot cfg req desc = .ok (some m)) (hc : ConfigTypesAgree (viewOf cfg)) (hh : hygieneB m = true)
    (tf : TfVal) (p1 p2 : List (String × GoVal)) (hw1 : PriorWF m p1) (hw2 : PriorWF m p2) :
    ((∃ r, copyFrom ov m tf (.struct p1) = .ok r) ↔ (∃ r, copyFrom ov m tf (.struct p2) = .ok r)) ∧
    (∀ r1 r2, copyFrom ov m tf (.struct p1) = .ok r1 → copyFrom ov m tf (.struct p2) = .ok r2 →
      PriorIndepRes m (attrsOf tf) p1 p2 r1 r2) ∧
    GroupsListed m := by
  intros; apply PGT.Proofs.BuiltFrom.C05_built_root_prior_independent <;> assumption

/-- … and the holder of the group of every branch among the root's own fields holds the same value after the two calls -/
theorem C05_built_root_holders : type_of% @PGT.Proofs.BuiltFrom.C05_built_root_holders := @PGT.Proofs.BuiltFrom.C05_built_root_holders

/-- **C05 for built roots, in the normal form of the property** (`Spec.nfEqFields`): moreover the IR has no gap and the
attributes of the Terraform object pass the type assertions (`LiveAll`; implied by `ConformsAttrs`) -/
theorem C05_built_root_prior_independent_nfEq : type_of% @PGT.Proofs.BuiltFrom.C05_built_root_prior_independent_nfEq := @PGT.Proofs.BuiltFrom.C05_built_root_prior_independent_nfEq

/-- **C05 for built roots, all clauses together, from an object that conforms in its value part**: both calls succeed
without diagnostics, `PriorIndepRes`, and the results are equal in the normal form -/
theorem C05_built_root_prior_independent_conforming (ov : List (String × String)) (cfg : Config) (req : Request) (desc : MsgD)
    (m : Msg) (hb : buildRoot cfg req desc = .ok (some m)) (hc : ConfigTypesAgree (viewOf cfg))
    (hg : gapFreeBs m.fields = true) (hh : hygieneB m = true)
    (u n : Bool) (attrs : Option (List (String × TfVal))) (atys : Option (List (String × TfTy)))
    (hcv : ConformsVAttrs m.fields (attrs.getD [])) (p1 p2 : List (String × GoVal)) (hw1 : PriorWF m p1) (hw2 : PriorWF m p2) :
    ∃ r1 r2, copyFrom ov m (.obj u n attrs atys) (.struct p1) = .ok r1 ∧ copyFrom ov m (.obj u n attrs atys) (.struct p2) = .ok r2 ∧
      r1.diags = [] ∧ r2.diags = [] ∧ PriorIndepRes m attrs p1 p2 r1 r2 ∧
      nfEqFields m.fields r1.obj r2.obj = nfEqFields m.fields r1.obj r1.obj ∧
      nfEqFields m.fields r2.obj r1.obj = nfEqFields m.fields r1.obj r1.obj ∧
      nfEqFields m.fields r2.obj r2.obj = nfEqFields m.fields r1.obj r1.obj := by
  intros; apply PGT.Proofs.BuiltFrom.C05_built_root_prior_independent_conforming <;> assumption

/-- for every built message: `ConformsAttrs` ⇔ its value part -/
theorem C05_built_conformsAttrs_iff (fuel : Nat) (V : CfgView) (req : Request) (desc : MsgD) (isRoot : Bool) (path : String)
    (m : Msg) (h : buildMessage fuel V req desc isRoot path = .ok m) (hc : ConfigTypesAgree V)
    (attrs : List (String × TfVal)) : ConformsAttrs m.fields attrs ↔ ConformsVAttrs m.fields attrs := by
  intros; apply PGT.Proofs.BuiltFrom.built_conformsAttrs_iff <;> assumption

/-- **C05, "returns no error diagnostic", for every root the generator builds.** Hypotheses: the root is built; the
configured time / duration types agree; the Terraform object conforms in its VALUE part (`ConformsVAttrs`: every attribute
present with the shape of the type the schema declares, null / unknown allowed at every level, known scalars castable).
No Boolean on the IR is needed. Every prior struct. -/
theorem C05_built_root_no_diagnostics (ov : List (String × String)) (cfg : Config) (req : Request) (desc : MsgD) (m : Msg)
    (hb : buildRoot cfg req desc = .ok (some m)) (hc : ConfigTypesAgree (viewOf cfg))
    (u n : Bool) (attrs : Option (List (String × TfVal))) (atys : Option (List (String × TfTy)))
    (prior : List (String × GoVal)) (h : ConformsVAttrs m.fields (attrs.getD [])) :
    ∃ r, copyFrom ov m (.obj u n attrs atys) (.struct prior) = .ok r ∧ r.diags = [] := by
  intros; apply PGT.Proofs.BuiltFrom.C05_built_root_no_diagnostics <;> assumption

theorem C05_built_roots_prior_independent (ov : List (String × String)) (cfg : Config) (req : Request) (m : Msg)
    (hm : m ∈ (buildRoots cfg req).1) (hc : ConfigTypesAgree (viewOf cfg)) (hh : hygieneB m = true)
    (tf : TfVal) (p1 p2 : List (String × GoVal)) (hw1 : PriorWF m p1) (hw2 : PriorWF m p2) :
    ((∃ r, copyFrom ov m tf (.struct p1) = .ok r) ↔ (∃ r, copyFrom ov m tf (.struct p2) = .ok r)) ∧
    (∀ r1 r2, copyFrom ov m tf (.struct p1) = .ok r1 → copyFrom ov m tf (.struct p2) = .ok r2 →
      PriorIndepRes m (attrsOf tf) p1 p2 r1 r2) ∧
    GroupsListed m := by
  intros; apply PGT.Proofs.BuiltFrom.C05_built_roots_prior_independent <;> assumption

theorem C05_built_roots_no_diagnostics (ov : List (String × String)) (cfg : Config) (req : Request) (m : Msg)
    (hm : m ∈ (buildRoots cfg req).1) (hc : ConfigTypesAgree (viewOf cfg))
    (u n : Bool) (attrs : Option (List (String × TfVal))) (atys : Option (List (String × TfTy)))
    (prior : List (String × GoVal)) (h : ConformsVAttrs m.fields (attrs.getD [])) :
    ∃ r, copyFrom ov m (.obj u n attrs atys) (.struct prior) = .ok r ∧ r.diags = [] := by
  intros; apply PGT.Proofs.BuiltFrom.C05_built_roots_no_diagnostics <;> assumption

theorem C05_built_sideOK_full_false : ¬ PGT.Proofs.BuiltFrom.Witness.built_sideOK_full := PGT.Proofs.BuiltFrom.Witness.built_sideOK_full_false
theorem C05_hygiene_gap_fieldNamedLikeHolder : type_of% PGT.Proofs.BuiltFrom.Witness.w2_fieldNamedLikeHolder := PGT.Proofs.BuiltFrom.Witness.w2_fieldNamedLikeHolder
theorem C05_hygiene_gap_childrenSameGoName : type_of% PGT.Proofs.BuiltFrom.Witness.w6_childrenSameGoName := PGT.Proofs.BuiltFrom.Witness.w6_childrenSameGoName
theorem C05_built_sanity_booleans : type_of% PGT.Proofs.BuiltFrom.Sanity.built_booleans := PGT.Proofs.BuiltFrom.Sanity.built_booleans
theorem C05_built_sanity_run_all_null : type_of% PGT.Proofs.BuiltFrom.Sanity.run_all_null := PGT.Proofs.BuiltFrom.Sanity.run_all_null

end PGT.Props.C05
