import PGT.Props.C05
import PGT.Proofs.BuiltWF
/-
C05, continued – for the IRs the front end builds (`Proofs/BuiltWF.lean`; see `Props/C03_built.lean` for the invariant, the gap
`gapFreeBs` and its witnesses).
-/
namespace PGT.Props.C05
open PGT PGT.Spec PGT.SchemaTyped PGT.Proofs.BuildErrors PGT.Proofs.PathUnique PGT.Proofs.ExclusionPrune PGT.Proofs.BuiltWF

/-- `shapeOKb` for the top-level fields (what `SideOK`, FromUniformAll, asks of the children of nullable embedded messages) -/
theorem C05_built_shapeOK (fuel : Nat) (V : CfgView) (req : Request) (desc : MsgD) (isRoot : Bool) (path : String) (m : Msg)
    (h : buildMessage fuel V req desc isRoot path = .ok m) (hc : ConfigTypesAgree V) :
    ∀ c ∈ m.fields, PriorIndep.shapeOKb c.info = true := by
  intros; apply PGT.Proofs.BuiltWF.built_shapeOK <;> assumption

end PGT.Props.C05
