import PGT.Model.Schema
import PGT.Generated.Texts
/-
C01 – Generated file is a complete, compilable Go unit (declaration-level part; "compiles" is established by
executing the real pipeline, see DESIGN §7).
-/
namespace PGT.Props.C01
open PGT

/-- Whenever the configuration is accepted the plugin answers with exactly one file, named after the proto file with
the suffix `_terraform.go`, in the configured target package (or the proto's own), defining for the selected root
messages `T` that build exactly `GenSchemaT`, then `CopyTFromTerraform` / `CopyTToTerraform` – nothing else. -/
theorem C01_response (c : Case) (cfg : Config) (h : readConfig c.yamlState c.yaml c.cli = .ok cfg) :
    emit c = .response (baseName c.request.file.name ++ "_terraform.go")
      (if cfg.targetPackageName != "" then cfg.targetPackageName else c.request.file.package)
      (((buildRoots cfg c.request).1.map (·.info.name)).map ("GenSchema" ++ ·) ++
        ((buildRoots cfg c.request).1.map (·.info.name)).flatMap fun n => ["Copy" ++ n ++ "FromTerraform", "Copy" ++ n ++ "ToTerraform"])
      (buildRoots cfg c.request).2 := by
  simp [emit, h]

/-- a rejected configuration makes the plugin fail: nothing is generated with defaults -/
theorem C01_fail (c : Case) (e : ConfigError) (h : readConfig c.yamlState c.yaml c.cli = .error e) :
    emit c = .fail e := by
  simp [emit, h]

/-- three functions per emitted type -/
theorem C01_three_per_type (names : List String) :
    (names.map ("GenSchema" ++ ·) ++ names.flatMap fun n => ["Copy" ++ n ++ "FromTerraform", "Copy" ++ n ++ "ToTerraform"]).length
      = 3 * names.length := by
  induction names with
  | nil => simp
  | cons a l ih => simp [List.length_flatMap] at ih ⊢; omega

/-- the function-name templates, the output suffix and the PROTO3_OPTIONAL feature bit are those of the source
(regenerated facts, translator T5) -/
theorem C01_source_facts : (Generated.sourceFacts.all (·.2)) = true := by decide

/-- the plugin leaves names that start with an upper-case letter alone (so `obj.<Name>` is the field gogo declares
for upper-camel names) -/
theorem C01_upper_names_kept (n : Str) (c : Char) (rest : Str) (h : n = c :: rest) (hu : Strcase.isUpper c = true) :
    goName n = n := by
  subst h
  simp [goName, hu]

example : goName "foo_bar".toList = "FooBar".toList ∧ gogoCamelCase "foo_bar".toList = "FooBar".toList := by decide
example : goName "lower_snake_oneof".toList = gogoCamelCase "lower_snake_oneof".toList := by decide

end PGT.Props.C01
