import PGT.Proofs.ToFlat
import PGT.Proofs.ToC20
import PGT.Props.C19
/-
C20 – On an empty target, absence is rendered as null and presence as non-null.

Full statement (`C20_full`): for every IR of D and every typed struct value, `copyTo m v ∅τ = ok r` and
`Spec.c20Check m v r.tf`. Proved below (`C20_plain_partial`) for messages whose fields are scalars held by value
(any number of fields, every scalar proto type but float32 whose zero test needs the float lemma); the
templates for pointers, collections, nested messages and oneofs are covered by the correspondence and by the
evaluation of `Spec.c20Check` on the implementation's outputs (DESIGN §7).
-/
namespace PGT.Props.C20
open PGT PGT.Spec

def C20_full : Prop :=
  ∀ (m : Msg) (v : GoVal) (r : ToResult), copyTo m v (.obj false false none (some (attrTypesOf m))) = .ok r →
    c20Check m v r.tf = true

/-- the generated zero test agrees with "the field holds its zero value" for one representation / literal pair -/
def ZeroTestFaithful (info : FieldInfo) : Prop :=
  ∀ s c null, info.castTo s = some c → eqLiteral info.tf.zeroValue c = some null → C19.HasRep info.rep s →
    null = scIsZero s

theorem signExtend_eq_zero (x : BitVec 32) : (x.signExtend 64 = 0) ↔ x = 0 := by
  constructor
  · intro h
    have h2 := congrArg (BitVec.truncate 32) h
    rw [C19.C19_i32] at h2
    simpa using h2
  · intro h; subst h; decide

theorem zeroExtend_eq_zero (x : BitVec 32) : (x.zeroExtend 64 = 0) ↔ x = 0 := by
  constructor
  · intro h
    have h2 := congrArg (BitVec.truncate 32) h
    rw [C19.C19_u32] at h2
    simpa using h2
  · intro h; subst h; decide

theorem toInt_eq_zero_iff (x : BitVec 64) : x.toInt = 0 ↔ x = 0 := by
  constructor
  · intro h; apply BitVec.eq_of_toInt_eq; simpa using h
  · intro h; subst h; decide

/-- `int64(x) == 0` on the payload of an Int64 value -/
theorem eqLiteral_zero_w64 (x : BitVec 64) : eqLiteral "0" (.w64 x) = some (x == 0) := by
  have h0 : parseIntLit "0".toList = some 0 := by decide
  simp only [eqLiteral, h0]
  congr 1
  rw [Bool.eq_iff_iff]
  simp [toInt_eq_zero_iff]

/-- The zero test `<cast>(field) == <zero literal>` of the emitted code is faithful for every scalar row of the
regenerated table except float32: with the row's cast-to type and zero literal, "Null" is computed as
"the field holds the zero value of its Go type" (nil and empty byte strings, and both float zeros, count as zero). -/
theorem C20_zero_test_rows (info : FieldInfo) (lit : String) (hl : info.tf.zeroValue = lit)
    (hrow : (info.rep = .i32 ∨ info.rep = .u32 ∨ info.rep = .i64 ∨ info.rep = .u64) ∧ info.tf.valueCastToType = "int64" ∧ lit = "0"
          ∨ info.rep = .f64 ∧ info.tf.valueCastToType = "float64" ∧ lit = "0"
          ∨ (info.rep = .str ∨ info.rep = .bytes) ∧ info.tf.valueCastToType = "string" ∧ lit = "\"\""
          ∨ info.rep = .b ∧ info.tf.valueCastToType = "bool" ∧ lit = "false") :
    ZeroTestFaithful info := by
  intro s c null hc hz hrep
  rw [hl] at hz
  rcases hrow with ⟨hr, hto, rfl⟩ | ⟨hr, hto, rfl⟩ | ⟨hr, hto, rfl⟩ | ⟨hr, hto, rfl⟩
  · simp only [FieldInfo.castTo, hto, show repOfGoType "int64" = some GoRep.i64 from by decide] at hc
    rcases hr with hr | hr | hr | hr
    · rw [hr] at hc hrep
      cases s <;> simp [C19.HasRep] at hrep
      simp only [conv, Option.some.injEq] at hc; subst hc
      rw [eqLiteral_zero_w64] at hz
      injection hz with hz; subst hz
      simp only [scIsZero]
      rw [Bool.eq_iff_iff]; simp only [beq_iff_eq]; exact signExtend_eq_zero _
    · rw [hr] at hc hrep
      cases s <;> simp [C19.HasRep] at hrep
      simp only [conv, Option.some.injEq] at hc; subst hc
      rw [eqLiteral_zero_w64] at hz
      injection hz with hz; subst hz
      simp only [scIsZero]
      rw [Bool.eq_iff_iff]; simp only [beq_iff_eq]; exact zeroExtend_eq_zero _
    · rw [hr] at hc hrep
      cases s <;> simp [C19.HasRep] at hrep
      simp only [conv, Option.some.injEq] at hc; subst hc
      rw [eqLiteral_zero_w64] at hz
      injection hz with hz; subst hz
      simp [scIsZero]
    · rw [hr] at hc hrep
      cases s <;> simp [C19.HasRep] at hrep
      simp only [conv, Option.some.injEq] at hc; subst hc
      rw [eqLiteral_zero_w64] at hz
      injection hz with hz; subst hz
      simp [scIsZero]
  · simp only [FieldInfo.castTo, hto, show repOfGoType "float64" = some GoRep.f64 from by decide] at hc
    rw [hr] at hc hrep
    cases s <;> simp [C19.HasRep] at hrep
    simp only [conv, Option.some.injEq] at hc; subst hc
    simp [eqLiteral] at hz; subst hz
    simp [scIsZero]
  · simp only [FieldInfo.castTo, hto, show repOfGoType "string" = some GoRep.str from by decide] at hc
    rcases hr with hr | hr
    · rw [hr] at hc hrep
      cases s <;> simp [C19.HasRep] at hrep
      simp only [conv, Option.some.injEq] at hc; subst hc
      simp [eqLiteral] at hz; subst hz
      simp [scIsZero]
    · rw [hr] at hc hrep
      cases s <;> simp [C19.HasRep] at hrep
      simp only [conv, Option.some.injEq] at hc; subst hc
      simp [eqLiteral] at hz; subst hz
      simp [scIsZero]
  · simp only [FieldInfo.castTo, hto, show repOfGoType "bool" = some GoRep.b from by decide] at hc
    rw [hr] at hc hrep
    cases s <;> simp [C19.HasRep] at hrep
    simp only [conv, Option.some.injEq] at hc; subst hc
    simp [eqLiteral] at hz
    subst hz
    simp [scIsZero]

/-- the float32 row: `float64(x) == 0` holds exactly for the two float32 zeros (depends on the `bv_decide` axiom of
`F.widen_zero`, declared in the evidence) -/
theorem C20_zero_test_f32 (info : FieldInfo) (hr : info.rep = .f32) (hto : info.tf.valueCastToType = "float64")
    (hl : info.tf.zeroValue = "0") : ZeroTestFaithful info := by
  intro s c null hc hz hrep
  rw [hl] at hz
  simp only [FieldInfo.castTo, hto, show repOfGoType "float64" = some GoRep.f64 from by decide] at hc
  rw [hr] at hc hrep
  cases s <;> simp [C19.HasRep] at hrep
  simp only [conv, Option.some.injEq] at hc; subst hc
  simp [eqLiteral] at hz; subst hz
  simp [scIsZero, F.widen_zero]

/-- C20 for messages of scalars held by value (`_partial`: see the header). For every such field the attribute is
null exactly when the field holds its zero value; fields without a zero literal (time, duration) are never null. -/
theorem C20_plain_partial (m : Msg) (obj : GoVal) (atys : Option (List (String × TfTy)))
    (hnd : (m.fields.map (·.info.nameSnake)).Nodup)
    (hok : ∀ f ∈ m.fields, ∃ k s c null, PlainOK f obj atys k s c null)
    (hz : ∀ f ∈ m.fields, ZeroTestFaithful f.info)
    (hrep : ∀ f ∈ m.fields, ∀ k s c null, PlainOK f obj atys k s c null → C19.HasRep f.info.rep s) :
    ∃ r, copyTo m obj (.obj false false none atys) = .ok r ∧ r.diags = [] ∧
      ∀ f ∈ m.fields, ∃ a s, r.tf = .obj false false (some (match r.tf with | .obj _ _ (some as) _ => as | _ => [])) atys ∧
        (match r.tf with | .obj _ _ (some as) _ => as.lookup f.info.nameSnake | _ => none) = some a ∧
        (obj.field? f.info.name).getD (zeroGoOf f.info) = .sc s ∧
        (if f.info.tf.zeroValue != "" then isNull a = scIsZero s else isNull a = false) := by
  obtain ⟨st', hrun, hd, _, hall, _⟩ :=
    copyToFields_plain obj atys m.fields { attrs := [] } hnd (by intro f _; simp [List.lookup]) hok
  refine ⟨{ tf := .obj false false (some st'.attrs) atys, diags := st'.diags, hooks := st'.hooks }, ?_, ?_, ?_⟩
  · simp [copyTo, hrun]
  · simp [hd]
  · intro f hf
    obtain ⟨k, s, c, null, hpo, hlook⟩ := hall f hf
    refine ⟨.prim k false null c, s, rfl, hlook, hpo.val, ?_⟩
    have hren := hpo.ren.zero
    by_cases hzv : (f.info.tf.zeroValue != "") = true
    · simp only [hzv, if_true] at hren ⊢
      simp only [isNull]
      exact hz f hf s c null hpo.ren.cast hren (hrep f hf k s c null hpo)
    · simp only [hzv] at hren ⊢
      simp at hren
      simp [isNull, hren]

/-- **C20 for every template, at every nesting depth**: under `ToOKs` (typed value, types present, distinct attribute
names, no message / list / map / custom child read through a nil embedded pointer – finding F1b – and the zero test of
each scalar row faithful, which `C20_zero_test_rows` shows for every row but float32) the result of CopyTo into the
empty object satisfies the executable statement of C20, `Spec.c20Check`: scalars null iff zero value, pointer-backed
values null iff nil, lists / maps null iff nil or empty, non-nullable messages never null, unset oneof ⇒ all branches
null, placeholder null, by-value time / duration never null. -/
theorem C20_nullness (m : Msg) (obj : GoVal) (atys : List (String × TfTy)) (h : ToOKs m.fields obj atys) :
    ∃ r, copyTo m obj (.obj false false none (some atys)) = .ok r ∧ c20Check m obj r.tf = true := by
  obtain ⟨st', hrun, _, _, hr, _⟩ :=
    toFields_renders m.fields obj atys { attrs := [] } h (by intro f _; simp [List.lookup])
  refine ⟨{ tf := .obj false false (some st'.attrs) (some atys), diags := st'.diags, hooks := st'.hooks }, ?_, ?_⟩
  · simp [copyTo, hrun]
  · simp only [c20Check, Option.getD]
    exact rendersFields_c20 m.fields obj st'.attrs hr

/-- non-vacuity: a message with an int32 and a string field, one zero and one non-zero -/
def exInt : FieldInfo :=
  { name := "A", nameSnake := "a", kind := .primitive, protoType := "int32",
    tf := { elemValueType := "github.com/hashicorp/terraform-plugin-framework/types.Int64",
            valueCastToType := "int64", valueCastFromType := "int32", zeroValue := "0" } }
def exStr : FieldInfo :=
  { name := "B", nameSnake := "b", kind := .primitive, protoType := "string",
    tf := { elemValueType := "github.com/hashicorp/terraform-plugin-framework/types.String",
            valueCastToType := "string", valueCastFromType := "string", zeroValue := "\"\"" } }
def exMsg : Msg := { info := { name := "M" }, fields := [{ info := exInt }, { info := exStr }] }
def exVal : GoVal := .struct [("A", .sc (.w32 0)), ("B", .sc (.str [120]))]

example :
    (match copyTo exMsg exVal (.obj false false none (some [("a", .prim .int64), ("b", .prim .string)])) with
     | .ok r => c20Check exMsg exVal r.tf
     | _ => false) = true := by
  decide

end PGT.Props.C20
