import PGT.Model.Sem
import PGT.Model.Build
import PGT.Proofs.FloatRT
/-
C19 – Scalar and temporal values survive conversion exactly over their whole range.
`castFrom (castTo x) = x` for every row of the REGENERATED type table (translator T1), on bit vectors:
no bound on the values (all 2^32 / 2^64 patterns, all byte strings).
The float32 row is `C19_float_*` (separate section).
-/
namespace PGT.Props.C19
open PGT

/-- widening then narrowing an integer is the identity, signed and unsigned, over all 2^32 values -/
theorem C19_i32 (x : BitVec 32) : (x.signExtend 64).truncate 32 = x := by
  apply BitVec.eq_of_getLsbD_eq
  intro i hi
  simp [BitVec.getLsbD_signExtend, hi]
  omega

theorem C19_u32 (x : BitVec 32) : (x.zeroExtend 64).truncate 32 = x := by
  ext i hi
  simp

/-- a value of the Go representation `r` -/
def HasRep : GoRep → Sc → Prop
  | .b, .b _ => True
  | .str, .str _ => True
  | .bytes, .bytes _ => True
  | .i32, .w32 _ => True
  | .u32, .w32 _ => True
  | .i64, .w64 _ => True
  | .u64, .w64 _ => True
  | .f32, .f32 _ => True
  | .f64, .f64 _ => True
  | .time, .time _ => True
  | .dur, .w64 _ => True
  | _, _ => False

/-- equality up to the normal form the property allows: nil and empty byte strings are identified -/
def scEquiv : Sc → Sc → Prop
  | .bytes a, .bytes b => a.getD [] = b.getD []
  | a, b => a = b

/-- the representation of `.Value` of the Terraform value a Go representation is written to -/
def mid : GoRep → GoRep
  | .i32 | .u32 | .i64 | .u64 => .i64
  | .f32 | .f64 => .f64
  | .str | .bytes => .str
  | .b => .b
  | .time => .time
  | .dur => .dur

/-- Go's conversions to the Terraform payload type and back are mutually inverse on every non-float32
representation, for **all** values. -/
theorem C19_conv_roundtrip (r : GoRep) (x : Sc) (hr : r ≠ .f32) (hx : HasRep r x) :
    ∃ c, conv r (mid r) x = some c ∧ ∃ y, conv (mid r) r c = some y ∧ scEquiv y x := by
  cases r with
  | f32 => exact absurd rfl hr
  | bytes =>
    cases x <;> simp [HasRep] at hx
    rename_i v
    cases v <;> simp [mid, conv, scEquiv]
  | i32 => cases x <;> simp [HasRep] at hx; simp [mid, conv, scEquiv]; exact C19_i32 _
  | u32 => cases x <;> simp [HasRep] at hx; simp [mid, conv, scEquiv]
  | b => cases x <;> simp [HasRep] at hx; simp [mid, conv, scEquiv]
  | str => cases x <;> simp [HasRep] at hx; simp [mid, conv, scEquiv]
  | i64 => cases x <;> simp [HasRep] at hx; simp [mid, conv, scEquiv]
  | u64 => cases x <;> simp [HasRep] at hx; simp [mid, conv, scEquiv]
  | f64 => cases x <;> simp [HasRep] at hx; simp [mid, conv, scEquiv]
  | time => cases x <;> simp [HasRep] at hx; simp [mid, conv, scEquiv]
  | dur => cases x <;> simp [HasRep] at hx; simp [mid, conv, scEquiv]

/-- the `FieldInfo` the generator builds for a singular field of proto type `t` (the parts the casts read);
`named`: the Go type is a named type (enum, cast type). -/
def infoOf (t : String) (named : Bool) : Option FieldInfo :=
  let f : FieldD := { name := "F", type := t, typeName := if t == "enum" then "E" else "",
                      castType := if named && t != "enum" then "Named" else "" }
  let goType := if named then "Named" else scalarGoType t
  match getTerraformType (viewOf {}) f false false goType "P.F" with
  | .ok tf => some { name := "F", nameSnake := "f", tf := tf, protoType := t }
  | .error _ => none

/-- all scalar proto types -/
def scalarTypes : List String :=
  ["double", "float", "int32", "int64", "uint32", "uint64", "sint32", "sint64", "fixed32", "fixed64",
   "sfixed32", "sfixed64", "bool", "string", "bytes"]

/-- what `C19_conv_roundtrip` needs from a row: the field's representation is gogo's, the Terraform value
kind's payload representation and the cast-to type are `mid` of it -/
def rowOK (t : String) (named : Bool) : Bool :=
  match infoOf t named with
  | none => false
  | some f =>
    f.rep == repOfProto t &&
    repOfGoType f.tf.valueCastToType == some (mid f.rep) &&
    (match vkindOf f.tf.elemValueType with | .prim k => k.rep == mid f.rep | _ => false)

/-- every scalar row of the regenerated table, with and without a cast type, and the enum row, has the
shape `C19_conv_roundtrip` covers (a finite table: decided by evaluation) -/
theorem C19_table :
    (scalarTypes.all fun t => rowOK t false && rowOK t true) = true ∧ rowOK "enum" true = true := by
  decide

/-- C19 for one field: if the row has the table shape then for all values of the field's Go type the value
written by CopyTo and read back by CopyFrom is the original. -/
theorem C19_field (f : FieldInfo) (k : PrimK)
    (hmid : k.rep = mid f.rep) (hto : repOfGoType f.tf.valueCastToType = some (mid f.rep)) (hnf : f.rep ≠ .f32)
    (x : Sc) (hx : HasRep f.rep x) :
    ∃ c, f.castTo x = some c ∧ ∃ y, f.castFrom k c = some y ∧ scEquiv y x := by
  obtain ⟨c, hc, y, hy, he⟩ := C19_conv_roundtrip f.rep x hnf hx
  refine ⟨c, ?_, y, ?_, he⟩
  · simp [FieldInfo.castTo, hto, hc]
  · simp [FieldInfo.castFrom, hmid, hy]

/-- the float32 row: every finite float32 – and both infinities, both zeros, every subnormal – is widened to
float64 and narrowed back without any change of its bit pattern (all 2^32 patterns except NaNs).
`F.narrow_widen` is kernel-checked (`Proofs/FloatRTKernel.lean`): no axiom beyond the three standard ones. -/
theorem C19_float32 (x : BitVec 32) (h : F.isNaN32 x = false) :
    ∃ c, conv .f32 .f64 (.f32 x) = some c ∧ conv .f64 .f32 c = some (.f32 x) := by
  refine ⟨.f64 (F.widen64 x), rfl, ?_⟩
  simp [conv, F.narrow_widen x h]

/-- C19 for a float32 field -/
theorem C19_field_f32 (f : FieldInfo) (hrep : f.rep = .f32) (hto : repOfGoType f.tf.valueCastToType = some .f64)
    (x : BitVec 32) (h : F.isNaN32 x = false) :
    ∃ c, f.castTo (.f32 x) = some c ∧ f.castFrom .float64 c = some (.f32 x) := by
  obtain ⟨c, hc, hy⟩ := C19_float32 x h
  refine ⟨c, ?_, ?_⟩
  · simp [FieldInfo.castTo, hto, hrep, hc]
  · simp [FieldInfo.castFrom, hrep, PrimK.rep, hy]

/-- non-vacuity: the int32 row and an extreme value -/
example : ∃ f, infoOf "sint32" false = some f ∧ f.rep = .i32 ∧
    f.castTo (.w32 0x80000000) = some (.w64 0xffffffff80000000) ∧
    f.castFrom .int64 (.w64 0xffffffff80000000) = some (.w32 0x80000000) := by
  refine ⟨_, rfl, ?_, ?_, ?_⟩ <;> decide

end PGT.Props.C19
