import PGT.Props.C08_all
import PGT.Proofs.EchoElems
/-
C08, continued – the echo for children of nullable embedded messages and custom kinds inside the messages of list / map ELEMENTS
(proofs: `Proofs/EchoElems.lean`). Elements are rebuilt from scratch by every CopyTo, so the echo of an element is the C04 round trip
applied to a DECODED struct: `C08_elem_typing` (a struct decoded from an element satisfying `ElemOKs` is typed, `ToOKs ∧ RT3OKs`; a
non-scalar child of an embedded parent needs `ParentAllocBy` – some sibling custom or known –, the candidate without it is refuted:
`C08_elem_nonscalar_child_nil_parent_untyped`), `C08_copyTo_fresh_noUnknown` (a fresh render of a typed struct has nothing unknown,
every template), the list / map templates, and `C08_echo_elems` for `PlanObjB ⊇ PlanObjA` with the conclusion of `C08_echo_all`.
What is still outside is listed at `echo_elems_full`.
-/
namespace PGT.Props.C08
open PGT PGT.Spec

/-- … for a whole message: `copyTo_renders3` with "nothing unknown" -/
theorem C08_copyTo_fresh_noUnknown (m : Msg) (obj : GoVal) (atys : List (String × TfTy)) (sk : List String)
    (hT : ToOKs m.fields obj atys) (hR : RT3OKs m.fields obj) :
    ∃ r as, copyTo m obj (.obj false false none (some atys)) = .ok r ∧ r.diags = [] ∧
      r.tf = .obj false false (some as) (some atys) ∧ rendersFields3 m.fields obj as = true ∧
      noUnknownDeep sk r.tf = true := by
  intros; apply PGT.copyTo_fresh_noUnknown <;> assumption

/-- **part (2) of the task: a fresh render (CopyTo into no attributes) of a struct typed by `ToOKs ∧ RT3OKs` – plain tree,
children of nullable embedded messages of every kind, custom kinds, at every depth – produces no diagnostic, renders the
struct (`rendersFields3`) and leaves nothing unknown at any depth (no attribute skipped: `sk` is arbitrary, e.g. `[]`)** -/
theorem C08_freshRender_noUnknown (fs : List Field) (obj : GoVal) (atys : List (String × TfTy)) (sk : List String)
    (hT : ToOKs fs obj atys) (hR : RT3OKs fs obj) (ds : List Diag) (hs : List HookCall) :
    ∃ A hs', copyToFields fs obj (some atys) { attrs := [], diags := ds, hooks := hs } =
        .ok { attrs := A, diags := ds, hooks := hs ++ hs' } ∧
      rendersFields3 fs obj A = true ∧ noUnknownAs sk A = true := by
  intros; apply PGT.freshRender_noUnknown <;> assumption

/-- **part (1) of the task, the typing lemma: the struct decoded from a planned element (attribute map `A`) of a message
whose fields satisfy the element judgement is typed for the CopyTo from scratch and for the read-back** (`ToOKs ∧ RT3OKs`);
the decode appends no diagnostic.  `names`: the oneof holders the recursive call resets (`resetOneOfs`); no parent pointer
of a nullable embedded message is among them. -/
theorem C08_elem_typing (X : String → TfVal → Prop) (ov : List (String × String)) (names : List String) (fs : List Field)
    (A : List (String × TfVal)) (atys : List (String × TfTy)) (h : ElemOKs X fs A atys fs)
    (hnames : ∀ g ∈ fs, g.info.parentIsOptionalEmbed = true → g.info.parentIsOptionalEmbedFieldName ∉ names)
    (attrs : Option (List (String × TfVal))) (hA : attrs.getD [] = A) (ds : List Diag) (hs : List HookCall) :
    ∃ o hs', copyFromFields ov fs attrs { obj := resetOneOfs names (.struct []), diags := ds, hooks := hs } =
        .ok { obj := o, diags := ds, hooks := hs' } ∧
      IsStruct o ∧ ToOKs fs o atys ∧ RT3OKs fs o := by
  intros; apply PGT.elem_typing <;> assumption

/-- **`PlanOKsA` (PGT/Proofs/EchoAll.lean) is a special case** -/
theorem C08_planOKsA_planOKsB (X : String → TfVal → Prop) (skE : List String) : ∀ (fs : List Field) (A : List (String × TfVal))
    (atys : List (String × TfTy)), PlanOKsA X skE fs A atys → PlanOKsB X skE fs A atys := by
  intros; apply PGT.planOKsA_planOKsB <;> assumption

theorem C08_planObjA_planObjB (X : String → TfVal → Prop) (skE : List String) (m : Msg) (plan : TfVal) (h : PlanObjA X skE m plan) :
    PlanObjB X skE m plan := by
  intros; apply PGT.planObjA_planObjB <;> assumption

/-- **part (4): C08, apply echo, for `PlanObjB`** – `C08_echo_all` and lists / maps of messages whose element messages carry
children of nullable embedded messages / custom kinds / scalar oneof branches (clauses (L) / (Mp)).  The doc of
`C08_echo_all`: **C08, apply echo, ONE judgement**: the plain tree, oneof groups at every position (`PlanOK3`), children of nullable
embedded messages of every kind and custom kinds – in the SAME message as oneof groups, at the top level and in nested
messages reached through singular message fields at every depth.  Conclusion exactly as in `C08_echo`. -/
theorem C08_echo_elems (X : String → TfVal → Prop) (ov : List (String × String)) (m : Msg) (plan : TfVal) (skN skE : List String)
    (hX : ExtraOK X skN skE) (hp : PlanObjB X skE m plan) :
    ∃ s1 e s2, copyFrom ov m plan (.struct []) = .ok s1 ∧ s1.diags = [] ∧
      copyTo m s1.obj plan = .ok e ∧ e.diags = [] ∧
      copyFrom ov m e.tf (.struct []) = .ok s2 ∧ s2.diags = [] ∧
      noUnknownDeep skN e.tf = true ∧ echoKeeps skE plan e.tf = true ∧ nfEqFields m.fields s1.obj s2.obj = true := by
  intros; apply PGT.C08_echo_elems <;> assumption

/-- **C08 in the shape of `PGT.Props.C08.C08_full`** with the skip lists of `Spec.c08Check`: whatever the three calls return,
they return no diagnostic and `c08Check` holds -/
theorem C08_echo_elems_check (X : String → TfVal → Prop) (ov : List (String × String)) (m : Msg) (plan : TfVal)
    (s1 : FromResult) (e : ToResult) (s2 : FromResult)
    (hX : ExtraOK X (injectedNames m.fields m.info.injected ++ customNames m.fields) (customNames m.fields))
    (hp : PlanObjB X (customNames m.fields) m plan)
    (h1 : copyFrom ov m plan (.struct []) = .ok s1) (h2 : copyTo m s1.obj plan = .ok e)
    (h3 : copyFrom ov m e.tf (.struct []) = .ok s2) :
    s1.diags = [] ∧ e.diags = [] ∧ s2.diags = [] ∧ c08Check m plan s1.obj e.tf s2.obj = true := by
  intros; apply PGT.C08_echo_elems_check <;> assumption

theorem C08_elem_nonscalar_child_nil_parent_untyped : type_of% PGT.EchoElemsWitness.nonscalar_child_nil_parent_untyped :=
  PGT.EchoElemsWitness.nonscalar_child_nil_parent_untyped
theorem C08_echo_elems_list_example : type_of% PGT.EchoElemsExample.list_example_applies := PGT.EchoElemsExample.list_example_applies

end PGT.Props.C08
