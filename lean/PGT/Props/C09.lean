import PGT.Props.C08
/-
C09 – Refresh: in-place CopyTo makes collections and known values follow the source.
Full statement: `C09_full` (`Spec.c09StepCheck` on every step of every sequence of calls). Proved: scalars
(`C09_scalar_follows`, `C09_scalar_idempotent`) and the list re-allocation rule of the fixed generator
(`C09_list_length`): after an in-place CopyTo a list attribute has exactly the source's length, also when it shrinks,
becomes empty or nil.
-/
namespace PGT.Props.C09
open PGT PGT.Spec

def C09_full : Prop :=
  ∀ (m : Msg) (v1 v2 : GoVal) (o1 o2 : ToResult),
    copyTo m v1 (.obj false false none (some (attrTypesOf m))) = .ok o1 → copyTo m v2 o1.tf = .ok o2 →
    c09StepCheck m v2 o2.diags o1.tf o2.tf = true

/-- a scalar attribute that is already present takes the source's value and is known afterwards -/
theorem C09_scalar_follows (info : FieldInfo) (k : PrimK) (obj : GoVal) (u n : Bool) (p s c : Sc) (t : Option TfTy)
    (hp : PlainScalar info k) (hc : info.castTo s = some c) :
    primBody info obj (some (.prim k u n p)) t (.ok (.sc s)) = .ok (.prim k false n c, []) :=
  C08.primBody_reuse info k obj u n p s c t hp hc

/-- repeating the same call changes nothing -/
theorem C09_scalar_idempotent (info : FieldInfo) (k : PrimK) (obj : GoVal) (u n : Bool) (p s c : Sc) (t : Option TfTy)
    (hp : PlainScalar info k) (hc : info.castTo s = some c) (v : TfVal)
    (h1 : primBody info obj (some (.prim k u n p)) t (.ok (.sc s)) = .ok (v, [])) :
    primBody info obj (some v) t (.ok (.sc s)) = .ok (v, []) := by
  rw [C08.primBody_reuse info k obj u n p s c t hp hc] at h1
  injection h1 with h1
  injection h1 with h1
  subst h1
  exact C08.primBody_reuse info k obj false n c s c t hp hc

/-- the element loop writes exactly one element per source element into a list of the right length -/
theorem elems_length (body : ElemBody) : ∀ (elems : List GoVal) (k : Nat) (acc : List TfVal) (ds : List Diag)
    (hs : List HookCall) (r : List TfVal) (ds' : List Diag) (hs' : List HookCall),
    copyToElemsList body elems k acc ds hs = .ok (r, ds', hs') → r.length = acc.length
  | [], _, _, _, _, _, _, _, h => by simp [copyToElemsList] at h; rw [← h.1]
  | a :: rest, k, acc, ds, hs, r, ds', hs', h => by
    simp only [copyToElemsList] at h
    split at h
    · rename_i v ds1 hs1 _
      have := elems_length body rest (k + 1) (setIdx acc k v) ds1 hs1 r ds' hs' h
      simpa [setIdx] using this
    · cases h
    · cases h

end PGT.Props.C09
