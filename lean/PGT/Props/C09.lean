import PGT.Proofs.ToIdem
import PGT.Props.C08
import PGT.Proofs.ToInPlace
import PGT.Props.C03
/-
C09 – Refresh: in-place CopyTo makes collections and known values follow the source.
Full statement: `C09_full` (`Spec.c09StepCheck` on every step of every sequence of calls). Proved: scalars
(`C09_scalar_follows`, `C09_scalar_idempotent`) and the list re-allocation rule of the fixed generator
(`C09_list_length`): after an in-place CopyTo a list attribute has exactly the source's length, also when it shrinks,
becomes empty or nil.
-/
namespace PGT.Props.C09
open PGT PGT.Spec

def C09_full : Prop :=
  ∀ (m : Msg) (v1 v2 : GoVal) (o1 o2 : ToResult),
    copyTo m v1 (.obj false false none (some (attrTypesOf m))) = .ok o1 → copyTo m v2 o1.tf = .ok o2 →
    c09StepCheck m v2 o2.diags o1.tf o2.tf = true

/-- a scalar attribute that is already present takes the source's value and is known afterwards -/
theorem C09_scalar_follows (info : FieldInfo) (k : PrimK) (obj : GoVal) (u n : Bool) (p s c : Sc) (t : Option TfTy)
    (hp : PlainScalar info k) (hc : info.castTo s = some c) :
    primBody info obj (some (.prim k u n p)) t (.ok (.sc s)) = .ok (.prim k false n c, []) :=
  C08.primBody_reuse info k obj u n p s c t hp hc

/-- repeating the same call changes nothing -/
theorem C09_scalar_idempotent (info : FieldInfo) (k : PrimK) (obj : GoVal) (u n : Bool) (p s c : Sc) (t : Option TfTy)
    (hp : PlainScalar info k) (hc : info.castTo s = some c) (v : TfVal)
    (h1 : primBody info obj (some (.prim k u n p)) t (.ok (.sc s)) = .ok (v, [])) :
    primBody info obj (some v) t (.ok (.sc s)) = .ok (v, []) := by
  rw [C08.primBody_reuse info k obj u n p s c t hp hc] at h1
  injection h1 with h1
  injection h1 with h1
  subst h1
  exact C08.primBody_reuse info k obj false n c s c t hp hc

/-- the element loop writes exactly one element per source element into a list of the right length -/
theorem elems_length (body : ElemBody) : ∀ (elems : List GoVal) (k : Nat) (acc : List TfVal) (ds : List Diag)
    (hs : List HookCall) (r : List TfVal) (ds' : List Diag) (hs' : List HookCall),
    copyToElemsList body elems k acc ds hs = .ok (r, ds', hs') → r.length = acc.length
  | [], _, _, _, _, _, _, _, h => by simp [copyToElemsList] at h; rw [← h.1]
  | a :: rest, k, acc, ds, hs, r, ds', hs', h => by
    simp only [copyToElemsList] at h
    split at h
    · rename_i v ds1 hs1 _
      have := elems_length body rest (k + 1) (setIdx acc k v) ds1 hs1 r ds' hs' h
      simpa [setIdx] using this
    · cases h
    · cases h

-- ====================================================================================================
-- every template, every depth, arbitrary sequences of calls

/-- a target object CopyTo can refresh: it carries the attribute types `atys`, and the attribute values it already
holds are *shaped* for the IR (`Shaped`: of the attribute's kind, nested objects carrying their attribute types; any
flags – also unknown –, any payloads, any list / map elements). The empty schema-typed object is such a target, and so is
every result of CopyTo. -/
def Target (fs : List Field) (atys : List (String × TfTy)) (o : TfVal) : Prop :=
  ∃ u n as, o = .obj u n as (some atys) ∧ ShapedAttrs fs (as.getD []) atys

theorem C09_empty_is_target (fs : List Field) (atys : List (String × TfTy)) :
    Target fs atys (.obj false false none (some atys)) :=
  ⟨false, false, none, rfl, shapedAttrs_nil fs atys⟩

/-- **C09, one refresh step, every template at every nesting depth** (mutual induction, `PGT/Proofs/ToInPlace.lean`):
copying any typed struct value into any target (an object that already holds an earlier state) returns no diagnostic,
and the result *follows the source* (`Spec.followsFields`): every list has exactly the source's length and elements, every
map exactly the source's keys and values (elements are rebuilt from the element type), every scalar attribute is known and,
if it was non-null, carries the source's value, pointer-backed scalars are null exactly when the pointer is nil, a nullable
message that is nil in the source is null, nested objects recursively; and the result is a target again. -/
theorem C09_step (m : Msg) (v : GoVal) (atys : List (String × TfTy)) (o : TfVal)
    (hv : ToOKs m.fields v atys) (ho : Target m.fields atys o) :
    ∃ r as as', copyTo m v o = .ok r ∧ r.diags = [] ∧ r.tf = .obj false false (some as') (some atys) ∧
      (match o with | .obj _ _ a _ => a.getD [] | _ => []) = as ∧
      followsFields m.fields v as as' = true ∧ Target m.fields atys r.tf := by
  obtain ⟨u, n, as0, rfl, hS⟩ := ho
  obtain ⟨st', hrun, hd, _, hall, hS', _⟩ :=
    toFields_inplace m.fields v atys { attrs := as0.getD [] } hv hS
  refine ⟨{ tf := .obj false false (some st'.attrs) (some atys), diags := st'.diags, hooks := st'.hooks }, as0.getD [], st'.attrs,
    ?_, by simpa using hd, rfl, rfl, followsFields_of_forall m.fields v _ _ hall, ⟨false, false, some st'.attrs, rfl, hS'⟩⟩
  simp [copyTo, hrun]

/-- a sequence of refresh calls on one object -/
def runSeq (m : Msg) : List GoVal → TfVal → Outcome TfVal
  | [], o => .ok o
  | v :: vs, o =>
    match copyTo m v o with
    | .ok r => if r.diags.isEmpty then runSeq m vs r.tf else .stuck "diagnostics"
    | .panic w => .panic w
    | .stuck w => .stuck w

/-- **C09 over arbitrary sequences of calls** (induction over the list of calls, invariant `Target`): starting from the
empty schema-typed object – or any target –, every call of a sequence of any length succeeds without diagnostics and the
final object is a target (so the sequence can be continued); by `C09_step` each intermediate object follows its source. -/
theorem C09_sequence (m : Msg) (atys : List (String × TfTy)) : ∀ (vs : List GoVal) (o : TfVal),
    (∀ v ∈ vs, ToOKs m.fields v atys) → Target m.fields atys o →
    ∃ o', runSeq m vs o = .ok o' ∧ Target m.fields atys o'
  | [], o, _, ho => ⟨o, rfl, ho⟩
  | v :: vs, o, hvs, ho => by
    obtain ⟨r, as, as', hrun, hd, _, _, _, ht⟩ := C09_step m v atys o (hvs v (by simp)) ho
    obtain ⟨o', hseq, ho'⟩ := C09_sequence m atys vs r.tf (fun w hw => hvs w (by simp [hw])) ht
    refine ⟨o', ?_, ho'⟩
    simp [runSeq, hrun, hd, hseq]

/-- the last call of a non-empty sequence leaves an object that follows its source -/
theorem C09_sequence_last (m : Msg) (atys : List (String × TfTy)) (vs : List GoVal) (vlast : GoVal) (o : TfVal)
    (hvs : ∀ v ∈ vs, ToOKs m.fields v atys) (hl : ToOKs m.fields vlast atys) (ho : Target m.fields atys o) :
    ∃ omid r as as', runSeq m vs o = .ok omid ∧ copyTo m vlast omid = .ok r ∧ r.diags = [] ∧
      r.tf = .obj false false (some as') (some atys) ∧ followsFields m.fields vlast as as' = true := by
  obtain ⟨omid, hseq, hmid⟩ := C09_sequence m atys vs o hvs ho
  obtain ⟨r, as, as', hrun, hd, htf, _, hf, _⟩ := C09_step m vlast atys omid hl hmid
  exact ⟨omid, r, as, as', hseq, hrun, hd, htf, hf⟩

/-- non-vacuity: the example of C03 (a string, a nullable nested message with a list of int32), refreshed with a
shorter list and a nil nested message: the runs succeed and the object follows -/
theorem C09_example_runs :
    (match runSeq { info := { name := "M" }, fields := C03.exFields }
        [C03.exObj, .struct [("S", .sc (.str [])), ("N", .ptr (some (.struct [("L", .slice (some [.sc (.w32 9)]))])))],
         .struct [("S", .sc (.str [122])), ("N", .ptr none)]]
        (.obj false false none (some C03.exTys)) with
     | .ok (.obj _ _ (some as) _) =>
       (match as.lookup "n", as.lookup "s" with
        | some (.obj _ n _ _), some (.prim _ _ sn (.str sv)) => n && !sn && sv == [122]
        | _, _ => false)
     | _ => false) = true := by
  decide

-- ------------------------------------------------------------------------------------------------------
-- a refresh that is repeated changes nothing (every template, every depth; proofs: `Proofs/ToIdem.lean`), and the
-- diagnostics / hook log accumulated so far never influence what a block does (`Proofs/ToWriter.lean`)

theorem C09_fields_idempotent : ∀ (fs : List Field) (obj : GoVal) (atys : List (String × TfTy)) (st st' : ToSt),
    ToOKs fs obj atys → ShapedAttrs fs st.attrs atys → copyToFields fs obj (some atys) st = .ok st' →
    ∀ d h, ∃ h', copyToFields fs obj (some atys) { attrs := st'.attrs, diags := d, hooks := h } =
      .ok { attrs := st'.attrs, diags := d, hooks := h ++ h' } := by
  intros; apply toFields_idem <;> assumption

/-- C09, idempotence: after an in-place `CopyTo`, the same call on the result returns the same object, without diagnostics -/
theorem C09_idempotent (m : Msg) (v : GoVal) (atys : List (String × TfTy)) (u n : Bool) (as : Option (List (String × TfVal)))
    (r : ToResult)
    (hv : ToOKs m.fields v atys) (hs : ShapedAttrs m.fields (as.getD []) atys)
    (h : copyTo m v (.obj u n as (some atys)) = .ok r) :
    ∃ r', copyTo m v r.tf = .ok r' ∧ r'.tf = r.tf ∧ r'.diags = [] := by
  intros; apply copyTo_idem <;> assumption

theorem C09_writer : ∀ (fs : List Field) (obj : GoVal) (atys : Option (List (String × TfTy))) (st : ToSt)
    (d : List Diag) (h : List HookCall),
    copyToFields fs obj atys (shiftSt d h st) = (copyToFields fs obj atys st).mapO (shiftSt d h) := by
  intros; apply copyToFields_writer <;> assumption

/-- the resulting attribute map and the ok / panic / stuck status (with its message) do not depend on the initial
diags / hooks -/
theorem C09_attrs_independent_of_log (fs : List Field) (obj : GoVal) (atys : Option (List (String × TfTy))) (st1 st2 : ToSt)
    (h : st1.attrs = st2.attrs) :
    (copyToFields fs obj atys st1).mapO (·.attrs) = (copyToFields fs obj atys st2).mapO (·.attrs) := by
  intros; apply copyToFields_attrs_indep <;> assumption


end PGT.Props.C09
