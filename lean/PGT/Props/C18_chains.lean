import PGT.Props.C18
import PGT.Proofs.BuildErrors
import PGT.Proofs.FuelEnough
/-
C18, continued: error propagation at every depth (proofs: `Proofs/BuildErrors.lean`, which builds on `Props/C18.lean`).
`FailsAt` is a chain of fields below a message, each non-excluded, ending in an unmappable field (type lookup fails, unknown
message type, non-string map key, map value without attributes); `MsgFailsAt` = some declared field starts such a chain.
-/
namespace PGT.Props.C18
open PGT PGT.Proofs.BuildErrors PGT.Proofs.FuelEnough PGT.Proofs.RequestIndep

theorem C18_field_error_fails_message (fuel : Nat) (cfg : CfgView) (req : Request) (desc : MsgD) (isRoot : Bool) (path : String)
    (f : FieldD) (hf : f ∈ desc.fields)
    (h : IsErr (fieldCall fuel cfg req (ctxOf desc isRoot path) f)) :
    IsErr (buildMessage (fuel + 1) cfg req desc isRoot path) := by
  intros; apply field_error_fails_message <;> assumption

theorem C18_nested_error_fails_field (fuel' : Nat) (cfg : CfgView) (req : Request) (ctx : MsgCtx) (f : FieldD) (keys : Keys)
    (goType : String) (isRep hasComment : Bool) (tf : TfType) (d : MsgD)
    (hex : cfg.excluded keys = false)
    (htf : getTerraformType cfg f false isRep goType keys.path = .ok tf)
    (hm : tf.isMessage = true)
    (hfind : req.findMessage f.typeName = some d)
    (hb : IsErr (buildMessage fuel' cfg req d false keys.path)) :
    IsErr (buildFieldCore (fuel' + 1) cfg req ctx f keys goType false isRep hasComment) := by
  intros; apply nested_error_fails_field <;> assumption

/-- map fields: an error of the recursive call for the value field aborts the map field (whatever the
outcome of the type lookup and of the key check, which come first and can only fail themselves) -/
theorem C18_map_value_error_fails_field (fuel' : Nat) (cfg : CfgView) (req : Request) (ctx : MsgCtx) (f : FieldD) (keys : Keys)
    (goType : String) (isRep hasComment : Bool)
    (hex : cfg.excluded keys = false)
    (hv : IsErr (buildFieldCore fuel' cfg req ctx f.mapValueField keys (mapValueGoType cfg f) false false false)) :
    IsErr (buildFieldCore (fuel' + 1) cfg req ctx f keys goType true isRep hasComment) := by
  intros; apply map_value_error_fails_field <;> assumption

/-- **Main theorem.** A failure chain of any length below a (root or nested) message makes its build fail,
for every fuel. -/
theorem C18_chain_fails_message (cfg : CfgView) (req : Request) (desc : MsgD) (isRoot : Bool) (path : String)
    (h : MsgFailsAt cfg req desc isRoot path) (fuel : Nat) :
    IsErr (buildMessage fuel cfg req desc isRoot path) := by
  intros; apply failsAt_fails_message <;> assumption

/-- the selected root: a chain below it makes `buildRoot` fail -/
theorem C18_chain_fails_root (cfg : Config) (req : Request) (desc : MsgD)
    (hsel : cfg.types.contains desc.name = true)
    (h : MsgFailsAt (viewOf cfg) req desc true "") :
    IsErr (buildRoot cfg req desc) := by
  intros; apply failsAt_fails_root <;> assumption

/-- ... it is reported as failed ... -/
theorem C18_chain_root_reported (cfg : Config) (req : Request) (desc : MsgD)
    (hd : desc ∈ req.allFiles.flatMap (·.messages))
    (hsel : cfg.types.contains desc.name = true)
    (h : MsgFailsAt (viewOf cfg) req desc true "") :
    desc.name ∈ (buildRoots cfg req).2 := by
  intros; apply failsAt_root_reported <;> assumption

/-- ... and every emitted root comes from a descriptor without any failure chain -/
theorem C18_emitted_root_has_no_chain (cfg : Config) (req : Request) (m : Msg)
    (h : m ∈ (buildRoots cfg req).1) :
    ∃ d ∈ req.allFiles.flatMap (·.messages), buildRoot cfg req d = .ok (some m) ∧
      ¬ MsgFailsAt (viewOf cfg) req d true "" := by
  intros; apply emitted_root_has_no_chain <;> assumption

/-- a message is built exactly when each of its declared fields is (whole or not at all, one level) -/
theorem C18_message_ok_iff_fields_ok (fuel : Nat) (cfg : CfgView) (req : Request) (desc : MsgD) (isRoot : Bool) (path : String) :
    (∃ m, buildMessage (fuel + 1) cfg req desc isRoot path = .ok m) ↔
    ∀ f ∈ desc.fields, ∃ fs, fieldCall fuel cfg req (ctxOf desc isRoot path) f = .ok fs := by
  intros; apply message_ok_iff_fields_ok <;> assumption

/-- excluding the offending field restores generation: if every declared field other than `f0` builds and `f0`
is excluded, the message builds (at positive inner fuel) -/
theorem C18_exclusion_restores_message (fuel : Nat) (cfg : CfgView) (req : Request) (desc : MsgD) (isRoot : Bool) (path : String)
    (f0 : FieldD) (hex : cfg.excluded (keysOf (ctxOf desc isRoot path) f0) = true)
    (hothers : ∀ f ∈ desc.fields, f ≠ f0 → ∃ fs, fieldCall (fuel + 1) cfg req (ctxOf desc isRoot path) f = .ok fs) :
    ∃ m, buildMessage (fuel + 2) cfg req desc isRoot path = .ok m := by
  intros; apply exclusion_restores_message <;> assumption

/-- **Completeness of `FailsAt`.** Every build error other than the fuel bound is witnessed by a failure chain. -/
theorem C18_error_has_chain (cfg : CfgView) (req : Request) (n : Nat) :
    (∀ desc isRoot path e, buildMessage n cfg req desc isRoot path = .error e →
        e = .recursionLimit ∨ MsgFailsAt cfg req desc isRoot path) ∧
    (∀ ctx f keys goType isMap isRep hasComment e,
        buildFieldCore n cfg req ctx f keys goType isMap isRep hasComment = .error e →
        e = .recursionLimit ∨ FailsAt cfg req ctx f keys goType isMap isRep) := by
  intros; apply error_has_chain <;> assumption

/-- for every fuel: the build of a message either succeeds, or runs into the fuel bound, or there is a failure
chain - and a failure chain excludes success at every fuel -/
theorem C18_trichotomy (cfg : CfgView) (req : Request) (fuel : Nat) (desc : MsgD) (isRoot : Bool) (path : String) :
    (∃ m, buildMessage fuel cfg req desc isRoot path = .ok m ∧ ¬ MsgFailsAt cfg req desc isRoot path) ∨
    buildMessage fuel cfg req desc isRoot path = .error .recursionLimit ∨
    (MsgFailsAt cfg req desc isRoot path ∧ ∀ k, IsErr (buildMessage k cfg req desc isRoot path)) := by
  intros; apply build_trichotomy <;> assumption

theorem C18_fuel_mono (cfg : CfgView) (req : Request) (n k : Nat) :
    (∀ desc isRoot path m, buildMessage n cfg req desc isRoot path = .ok m →
        buildMessage (n + k) cfg req desc isRoot path = .ok m) ∧
    (∀ ctx f keys goType isMap isRep hasComment r,
        buildFieldCore n cfg req ctx f keys goType isMap isRep hasComment = .ok r →
        buildFieldCore (n + k) cfg req ctx f keys goType isMap isRep hasComment = .ok r) := by
  intros; apply fuel_mono <;> assumption

/-- the chains are not vacuous: `A.b : B`, `B.c : repeated C`, `C.t : Timestamp` without `time_type` – `A` is never built -/
theorem C18_witness_never_built (fuel : Nat) : IsErr (buildMessage fuel Witness.cfg0 Witness.req0 Witness.msgA true "") :=
  Witness.A_never_built fuel

-- on acyclic requests the fuel bound of the model is invisible: every failure of a build is a failure chain
/-- a build error of a root of an acyclic request is witnessed by a failure chain (completeness of `FailsAt`, without the
fuel-bound alternative of `error_has_chain`) -/
theorem C18_acyclic_error_has_chain (cfg : CfgView) (req : Request) (hac : Acyclic req = true) (d : MsgD) (hd : d ∈ allMsgs req)
    (isRoot : Bool) (path : String) (e : BuildError)
    (h : buildMessage (defaultFuel req) cfg req d isRoot path = .error e) : MsgFailsAt cfg req d isRoot path := by
  intros; apply PGT.Proofs.FuelEnough.acyclic_error_has_chain <;> assumption

/-- ... and that result is not the fuel bound -/
theorem C18_fuel_bound_invisible (cfg : CfgView) (req : Request) (hac : Acyclic req = true) (d : MsgD) (hd : d ∈ allMsgs req)
    (k : Nat) (isRoot : Bool) (path : String) :
    buildMessage (defaultFuel req + k) cfg req d isRoot path ≠ .error .recursionLimit := by
  intros; apply PGT.Proofs.FuelEnough.fuel_bound_invisible <;> assumption

end PGT.Props.C18
