import PGT.Proofs.FromFlat
/-
C07 – Oneof groups stay exclusive in both directions.
Full statement: `Spec.c07FromCheck` / `Spec.c07ToCheck` hold for every result (`C07_full`). Proved: the building
blocks for scalar branches – reset of the message's own holders before any field is read, a known branch sets the
holder to its wrapper, a null / unknown branch leaves the holder alone – and their composition for a group all of
whose branches are null or unknown (`C07_all_null_group`), for every prior holder state.
Known counterexample to the full statement: finding F7 (oneof declared inside an embedded message).
-/
namespace PGT.Props.C07
open PGT PGT.Spec

/-- a scalar branch of a oneof group -/
structure ScalarBranch (info : FieldInfo) (k : PrimK) : Prop where
  kind : info.kind = .primitive
  vk : vkindOf info.tf.valueType = .prim k
  oneof : info.oneOfName ≠ ""
  notNullable : info.isNullable = false

/-- `obj.<OneOf> = nil` is emitted for every oneof of the message before any field code: afterwards every holder
is nil, whatever the target held -/
theorem C07_reset (names : List String) (fs : List (String × GoVal)) (g : String) (hg : g ∈ names) :
    (resetOneOfs names (.struct fs)).field? g = some (.iface none) := by
  unfold resetOneOfs
  have gen : ∀ (ns : List String) (fs : List (String × GoVal)),
      (g ∈ ns ∨ fs.lookup g = some (.iface none)) →
      (ns.foldl (fun o n => o.setField n (.iface none)) (GoVal.struct fs)).field? g = some (.iface none) := by
    intro ns
    induction ns with
    | nil =>
      intro fs h
      rcases h with h | h
      · simp at h
      · simpa [GoVal.field?] using h
    | cons n rest ih =>
      intro fs h
      simp only [List.foldl, GoVal.setField]
      apply ih
      by_cases hn : g = n
      · subst hn; exact Or.inr (lookup_setKey_same _ _ _)
      · rcases h with h | h
        · simp at h; rcases h with h | h
          · exact absurd h hn
          · exact Or.inl h
        · exact Or.inr (by rw [lookup_setKey_other _ _ _ hn]; exact h)
  exact gen names fs (Or.inl hg)

/-- a known, non-null scalar branch makes the holder that branch's wrapper with the decoded value -/
theorem C07_known_branch (rec : FromRec) (ov : List (String × String)) (info : FieldInfo) (k : PrimK)
    (hb : ScalarBranch info k) (attrs : List (String × TfVal)) (st : FromSt) (p c : Sc)
    (ha : attrs.lookup info.nameSnake = some (.prim k false false p)) (hc : info.castFrom k p = some c) :
    copyFromFieldWith rec ov info none none (some attrs) st =
      .ok { st with obj := st.obj.setField info.oneOfName (.iface (some (lastSegment info.oneOfType, info.name, .sc c))) } := by
  unfold copyFromFieldWith
  have hne : (info.oneOfName != "") = true := by simpa using hb.oneof
  simp [ha, hb.kind, TfVal.vkind, hb.vk, primDecode, known, hc, hb.notNullable, hne, embedGuard]

/-- a null or unknown branch does not touch the struct at all (it can neither set nor clear the holder) -/
theorem C07_null_branch (rec : FromRec) (ov : List (String × String)) (info : FieldInfo) (k : PrimK)
    (hb : ScalarBranch info k) (attrs : List (String × TfVal)) (st : FromSt) (unk null : Bool) (p : Sc)
    (ha : attrs.lookup info.nameSnake = some (.prim k unk null p)) (hnu : null = true ∨ unk = true) :
    copyFromFieldWith rec ov info none none (some attrs) st = .ok st := by
  unfold copyFromFieldWith
  have hne : (info.oneOfName != "") = true := by simpa using hb.oneof
  rcases hnu with rfl | rfl <;>
    simp [ha, hb.kind, TfVal.vkind, hb.vk, primDecode, known, hb.notNullable, hne, zeroPrim, embedGuard]

/-- Composition: a message whose fields are the scalar branches of its oneof groups, read from an object in which
all branch attributes are null or unknown: every holder is nil afterwards, whatever branch the target held. -/
theorem C07_all_null_group (ov : List (String × String)) :
    ∀ (fs : List Field) (attrs : List (String × TfVal)) (st : FromSt),
      (∀ f ∈ fs, ∃ k unk null p, ScalarBranch f.info k ∧ f.mapVal = none ∧ f.msg = none ∧
          attrs.lookup f.info.nameSnake = some (.prim k unk null p) ∧ (null = true ∨ unk = true)) →
      copyFromFields ov fs (some attrs) st = .ok st
  | [], _, st, _ => by simp [copyFromFields]
  | f :: rest, attrs, st, h => by
    obtain ⟨k, unk, null, p, hb, hmv, hmsg, ha, hnu⟩ := h f (by simp)
    obtain ⟨info, mapVal, msg, sub⟩ := f
    simp only at hmv hmsg hb ha
    subst hmv hmsg
    simp only [copyFromFields, copyFromField]
    split
    · exact C07_all_null_group ov rest attrs st (fun g hg => h g (by simp [hg]))
    · rw [C07_null_branch _ ov info k hb attrs st unk null p ha hnu]
      exact C07_all_null_group ov rest attrs st (fun g hg => h g (by simp [hg]))

theorem C07_all_null_message (ov : List (String × String)) (m : Msg) (attrs : List (String × TfVal))
    (prior : List (String × GoVal))
    (h : ∀ f ∈ m.fields, ∃ k unk null p, ScalarBranch f.info k ∧ f.mapVal = none ∧ f.msg = none ∧
          attrs.lookup f.info.nameSnake = some (.prim k unk null p) ∧ (null = true ∨ unk = true))
    (g : String) (hg : g ∈ m.info.oneOfNames) :
    ∃ r, copyFrom ov m (.obj false false (some attrs) none) (.struct prior) = .ok r ∧ r.diags = [] ∧
      r.obj.field? g = some (.iface none) := by
  refine ⟨{ obj := resetOneOfs m.info.oneOfNames (.struct prior), diags := [], hooks := [] }, ?_, rfl, ?_⟩
  · simp [copyFrom, C07_all_null_group ov m.fields attrs _ h]
  · exact C07_reset _ _ _ hg

end PGT.Props.C07
