import PGT.Proofs.ToOneof
import PGT.Proofs.FromFlat
import PGT.Proofs.FromOneof
/-
C07 – Oneof groups stay exclusive in both directions.
Full statement: `Spec.c07FromCheck` / `Spec.c07ToCheck` hold for every result (`C07_full`). Proved: the building
blocks for scalar branches – reset of the message's own holders before any field is read, a known branch sets the
holder to its wrapper, a null / unknown branch leaves the holder alone – and their composition for a group all of
whose branches are null or unknown (`C07_all_null_group`), for every prior holder state.
Known counterexample to the full statement: finding F7 (oneof declared inside an embedded message).
-/
namespace PGT.Props.C07
open PGT PGT.Spec

/-- a scalar branch of a oneof group -/
structure ScalarBranch (info : FieldInfo) (k : PrimK) : Prop where
  kind : info.kind = .primitive
  vk : vkindOf info.tf.valueType = .prim k
  oneof : info.oneOfName ≠ ""
  notNullable : info.isNullable = false

/-- `obj.<OneOf> = nil` is emitted for every oneof of the message before any field code: afterwards every holder
is nil, whatever the target held -/
theorem C07_reset (names : List String) (fs : List (String × GoVal)) (g : String) (hg : g ∈ names) :
    (resetOneOfs names (.struct fs)).field? g = some (.iface none) := by
  unfold resetOneOfs
  have gen : ∀ (ns : List String) (fs : List (String × GoVal)),
      (g ∈ ns ∨ fs.lookup g = some (.iface none)) →
      (ns.foldl (fun o n => o.setField n (.iface none)) (GoVal.struct fs)).field? g = some (.iface none) := by
    intro ns
    induction ns with
    | nil =>
      intro fs h
      rcases h with h | h
      · simp at h
      · simpa [GoVal.field?] using h
    | cons n rest ih =>
      intro fs h
      simp only [List.foldl, GoVal.setField]
      apply ih
      by_cases hn : g = n
      · subst hn; exact Or.inr (lookup_setKey_same _ _ _)
      · rcases h with h | h
        · simp at h; rcases h with h | h
          · exact absurd h hn
          · exact Or.inl h
        · exact Or.inr (by rw [lookup_setKey_other _ _ _ hn]; exact h)
  exact gen names fs (Or.inl hg)

/-- a known, non-null scalar branch makes the holder that branch's wrapper with the decoded value -/
theorem C07_known_branch (rec : FromRec) (ov : List (String × String)) (info : FieldInfo) (k : PrimK)
    (hb : ScalarBranch info k) (attrs : List (String × TfVal)) (st : FromSt) (p c : Sc)
    (ha : attrs.lookup info.nameSnake = some (.prim k false false p)) (hc : info.castFrom k p = some c) :
    copyFromFieldWith rec ov info none none (some attrs) st =
      .ok { st with obj := st.obj.setField info.oneOfName (.iface (some (lastSegment info.oneOfType, info.name, .sc c))) } := by
  unfold copyFromFieldWith
  have hne : (info.oneOfName != "") = true := by simpa using hb.oneof
  simp [ha, hb.kind, TfVal.vkind, hb.vk, primDecode, known, hc, hb.notNullable, hne, embedGuard]

/-- a null or unknown branch does not touch the struct at all (it can neither set nor clear the holder) -/
theorem C07_null_branch (rec : FromRec) (ov : List (String × String)) (info : FieldInfo) (k : PrimK)
    (hb : ScalarBranch info k) (attrs : List (String × TfVal)) (st : FromSt) (unk null : Bool) (p : Sc)
    (ha : attrs.lookup info.nameSnake = some (.prim k unk null p)) (hnu : null = true ∨ unk = true) :
    copyFromFieldWith rec ov info none none (some attrs) st = .ok st := by
  unfold copyFromFieldWith
  have hne : (info.oneOfName != "") = true := by simpa using hb.oneof
  rcases hnu with rfl | rfl <;>
    simp [ha, hb.kind, TfVal.vkind, hb.vk, primDecode, known, hb.notNullable, hne, zeroPrim, embedGuard]

/-- Composition: a message whose fields are the scalar branches of its oneof groups, read from an object in which
all branch attributes are null or unknown: every holder is nil afterwards, whatever branch the target held. -/
theorem C07_all_null_group (ov : List (String × String)) :
    ∀ (fs : List Field) (attrs : List (String × TfVal)) (st : FromSt),
      (∀ f ∈ fs, ∃ k unk null p, ScalarBranch f.info k ∧ f.mapVal = none ∧ f.msg = none ∧
          attrs.lookup f.info.nameSnake = some (.prim k unk null p) ∧ (null = true ∨ unk = true)) →
      copyFromFields ov fs (some attrs) st = .ok st
  | [], _, st, _ => by simp [copyFromFields]
  | f :: rest, attrs, st, h => by
    obtain ⟨k, unk, null, p, hb, hmv, hmsg, ha, hnu⟩ := h f (by simp)
    obtain ⟨info, mapVal, msg, sub⟩ := f
    simp only at hmv hmsg hb ha
    subst hmv hmsg
    simp only [copyFromFields, copyFromField]
    split
    · exact C07_all_null_group ov rest attrs st (fun g hg => h g (by simp [hg]))
    · rw [C07_null_branch _ ov info k hb attrs st unk null p ha hnu]
      exact C07_all_null_group ov rest attrs st (fun g hg => h g (by simp [hg]))

theorem C07_all_null_message (ov : List (String × String)) (m : Msg) (attrs : List (String × TfVal))
    (prior : List (String × GoVal))
    (h : ∀ f ∈ m.fields, ∃ k unk null p, ScalarBranch f.info k ∧ f.mapVal = none ∧ f.msg = none ∧
          attrs.lookup f.info.nameSnake = some (.prim k unk null p) ∧ (null = true ∨ unk = true))
    (g : String) (hg : g ∈ m.info.oneOfNames) :
    ∃ r, copyFrom ov m (.obj false false (some attrs) none) (.struct prior) = .ok r ∧ r.diags = [] ∧
      r.obj.field? g = some (.iface none) := by
  refine ⟨{ obj := resetOneOfs m.info.oneOfNames (.struct prior), diags := [], hooks := [] }, ?_, rfl, ?_⟩
  · simp [copyFrom, C07_all_null_group ov m.fields attrs _ h]
  · exact C07_reset _ _ _ hg

-- ====================================================================================================
-- every message, every Terraform value, every prior content of the target

/-- **C07 (CopyFrom), all branches null or unknown ⇒ the oneof is nil – whatever the target held.** For every message
(any other fields: scalars, nested messages, lists, maps, other groups, embedded children), every attribute map – also
malformed ones – and every prior struct: if no branch attribute of group `g` is known and non-null, the holder is nil
after the call. `GroupOK g f`: `f` is a scalar or message branch of `g`, or its block cannot assign the Go field `g`
(its name, holder and embedded parent are different Go fields). Proof: frame theorem (`FromFrame.lean`) + branch
lemma + fold (`FromOneof.lean`). -/
theorem C07_from_all_null (ov : List (String × String)) (m : Msg) (u n : Bool) (attrs : Option (List (String × TfVal)))
    (atys : Option (List (String × TfTy))) (prior : List (String × GoVal)) (g : String) (hg : g ∈ m.info.oneOfNames)
    (hne : g ≠ "") (hok : ∀ f ∈ m.fields, GroupOK g f) (hph : ∀ f ∈ m.fields, f.info.isPlaceholder = false)
    (hnull : ∀ f ∈ m.fields, f.info.oneOfName = g → ∀ a, (attrs.getD []).lookup f.info.nameSnake = some a → a.isKnown = false)
    (r : FromResult) (h : copyFrom ov m (.obj u n attrs atys) (.struct prior) = .ok r) :
    r.obj.field? g = some (.iface none) := by
  unfold copyFrom at h
  simp only [] at h
  cases hf : copyFromFields ov m.fields attrs { obj := resetOneOfs m.info.oneOfNames (.struct prior) } with
  | ok st' =>
    rw [hf] at h
    injection h with h
    subst h
    obtain ⟨_, hh⟩ := fromFields_holder ov g hne m.fields attrs _ st' (isStruct_resetOneOfs m.info.oneOfNames (.struct prior) trivial) hok hph hf
    rcases hh with ⟨heq, _⟩ | ⟨f, hfm, ho, ⟨a, hl, hk⟩, _⟩
    · simp only [heq]
      exact C07_reset _ _ _ hg
    · have := hnull f hfm ho a hl
      rw [this] at hk
      cases hk
  | panic w => rw [hf] at h; cases h
  | stuck w => rw [hf] at h; cases h

/-- **C07 (CopyFrom), exactly one branch known and non-null ⇒ the oneof holds that branch.** Same generality: if the
attribute of branch `f0` is known, non-null and of the right Go type and no other branch attribute of the group is
known, then after the call the holder is the wrapper of `f0` (wrapper type and field name of that branch). -/
theorem C07_from_one_known (ov : List (String × String)) (m : Msg) (u n : Bool) (attrs : Option (List (String × TfVal)))
    (atys : Option (List (String × TfTy))) (prior : List (String × GoVal)) (g : String)
    (hne : g ≠ "") (hok : ∀ f ∈ m.fields, GroupOK g f) (hph : ∀ f ∈ m.fields, f.info.isPlaceholder = false)
    (f0 : Field) (hf0 : f0 ∈ m.fields) (ho0 : f0.info.oneOfName = g) (hk0 : BranchKnown attrs f0)
    (hothers : ∀ f ∈ m.fields, f.info.oneOfName = g → f.info.name ≠ f0.info.name ∨ f.info.oneOfType ≠ f0.info.oneOfType →
      ∀ a, (attrs.getD []).lookup f.info.nameSnake = some a → a.isKnown = false)
    (r : FromResult) (h : copyFrom ov m (.obj u n attrs atys) (.struct prior) = .ok r) :
    ∃ t, r.obj.field? g = some (.iface (some (lastSegment f0.info.oneOfType, f0.info.name, t))) := by
  unfold copyFrom at h
  simp only [] at h
  cases hf : copyFromFields ov m.fields attrs { obj := resetOneOfs m.info.oneOfNames (.struct prior) } with
  | ok st' =>
    rw [hf] at h
    injection h with h
    subst h
    obtain ⟨_, hh⟩ := fromFields_holder ov g hne m.fields attrs _ st' (isStruct_resetOneOfs m.info.oneOfNames (.struct prior) trivial) hok hph hf
    rcases hh with ⟨_, hnone⟩ | ⟨f, hfm, ho, ⟨a, hl, hk⟩, t, hset⟩
    · exact absurd ⟨ho0, hk0⟩ (hnone f0 hf0)
    · by_cases hsame : f.info.name = f0.info.name ∧ f.info.oneOfType = f0.info.oneOfType
      · exact ⟨t, by rw [← hsame.1, ← hsame.2]; exact hset⟩
      · have hd : f.info.name ≠ f0.info.name ∨ f.info.oneOfType ≠ f0.info.oneOfType := by
          by_cases h1 : f.info.name = f0.info.name
          · right; intro h2; exact hsame ⟨h1, h2⟩
          · left; exact h1
        have := hothers f hfm ho hd a hl
        rw [this] at hk
        cases hk
  | panic w => rw [hf] at h; cases h
  | stuck w => rw [hf] at h; cases h

/-- non-vacuity: two scalar branches and a plain field; the target holds branch A, the object has only branch B known -/
def exTf : TfType :=
  { valueType := "github.com/hashicorp/terraform-plugin-framework/types.String",
    elemValueType := "github.com/hashicorp/terraform-plugin-framework/types.String",
    valueCastToType := "string", valueCastFromType := "string", zeroValue := "\"\"" }
def exA : Field :=
  { info := { name := "A", nameSnake := "a", kind := .primitive, oneOfName := "Choice", oneOfType := "M_A",
              protoType := "string", tf := exTf } }
def exB : Field :=
  { info := { name := "B", nameSnake := "b", kind := .primitive, oneOfName := "Choice", oneOfType := "M_B",
              protoType := "string", tf := exTf } }
def exMsg : Msg := { info := { name := "M", oneOfNames := ["Choice"] }, fields := [exA, exB] }

theorem C07_example_runs :
    (match copyFrom [] exMsg (.obj false false (some [("a", .prim .string true false (.str [])), ("b", .prim .string false false (.str [120]))]) none)
        (.struct [("Choice", .iface (some ("M_A", "A", .sc (.str [121]))))]) with
     | .ok r => (match r.obj.field? "Choice" with | some (.iface (some ("M_B", "B", .sc (.str [120])))) => true | _ => false)
     | _ => false) = true := by
  decide

-- ----------------------------------------------------------------------------------------------------
-- CopyTo: inactive branches are null, the active branch is non-null iff its payload is non-zero

/-- an inactive branch reads as the zero value (`genOneOfStub`: the empty wrapper) -/
theorem C07_inactive_reads_zero (info : FieldInfo) (obj : GoVal) (ho : info.oneOfName ≠ "")
    (he : info.parentIsOptionalEmbed = false) (h : activePayload info obj = none) :
    getVal info obj = zeroGoOf info := by
  have hob : (info.oneOfName != "") = true := by simpa using ho
  have hsh : oneOfShadow info obj = .struct [] := by
    unfold oneOfShadow
    unfold activePayload at h
    have hoe : (info.oneOfName == "") = false := by simpa using ho
    simp only [hoe, Bool.false_eq_true, if_false]
    cases hf : obj.field? info.oneOfName with
    | none => rfl
    | some v =>
      cases v with
      | iface o =>
        cases o with
        | none => rfl
        | some t =>
          obtain ⟨w, fn, payload⟩ := t
          simp only [hf] at h
          by_cases hw : (w == lastSegment info.oneOfType) = true
          · simp [hw] at h
          · simp [hw]
      | sc _ => rfl
      | ptr _ => rfl
      | struct _ => rfl
      | slice _ => rfl
      | map _ => rfl
  unfold getVal
  simp only [he, Bool.false_eq_true, if_false, hob, if_true, hsh]
  simp [GoVal.field?, List.lookup]

/-- in every rendering (the result of CopyTo into an empty object, `C03_total`), a scalar branch attribute is null exactly
when the value read through the oneof stub is zero; with `C07_inactive_reads_zero`: every inactive branch is null, the
active branch is non-null iff its payload is non-zero -/
theorem C07_to_scalar_branch (f : Field) (obj : GoVal) (a : TfVal) (hk : f.info.kind = .primitive)
    (hph : f.info.isPlaceholder = false) (he : f.info.parentIsOptionalEmbed = false) (hn : f.info.isNullable = false)
    (hz : f.info.tf.zeroValue ≠ "") (hr : rendersVal f obj a = true) :
    ∃ s, getVal f.info obj = .sc s ∧ isNull a = scIsZero s := by
  obtain ⟨info, mv, msg, sub⟩ := f
  simp only at hk hph he hn hz
  unfold rendersVal at hr
  simp only [hk, hph, he, Bool.false_and, Bool.false_eq_true, if_false] at hr
  unfold primRenders at hr
  cases a with
  | prim k u n p =>
    simp only [hn, Bool.false_eq_true, if_false, Bool.and_eq_true] at hr
    cases hx : getVal info obj with
    | sc s =>
      simp only [hx] at hr
      have hzv : (info.tf.zeroValue != "") = true := by simpa using hz
      simp only [hzv, if_true, Bool.and_eq_true, beq_iff_eq] at hr
      exact ⟨s, rfl, by simp [isNull, hr.2.2]⟩
    | ptr _ => simp [hx] at hr
    | struct _ => simp [hx] at hr
    | slice _ => simp [hx] at hr
    | map _ => simp [hx] at hr
    | iface _ => simp [hx] at hr
  | list _ _ _ _ => simp at hr
  | map _ _ _ _ => simp at hr
  | obj _ _ _ _ => simp at hr
  | nilv => simp at hr
  | foreign _ => simp at hr

/-- … and a message branch attribute is null exactly when the branch pointer read through the stub is nil -/
theorem C07_to_message_branch (f : Field) (obj : GoVal) (a : TfVal) (hk : f.info.kind = .object)
    (hn : f.info.isNullable = true) (hr : rendersVal f obj a = true) :
    isNull a = isNilPtr (getVal f.info obj) := by
  obtain ⟨info, mv, msg, sub⟩ := f
  simp only at hk hn
  unfold rendersVal at hr
  simp only [hk] at hr
  unfold objRenders at hr
  cases a with
  | obj u n as atys =>
    simp only [hn, if_true, Bool.and_eq_true, beq_iff_eq] at hr
    simp [isNull, hr.2.1]
  | prim _ _ _ _ => simp at hr
  | list _ _ _ _ => simp at hr
  | map _ _ _ _ => simp at hr
  | nilv => simp at hr
  | foreign _ => simp at hr

-- ------------------------------------------------------------------------------------------------------
-- the CopyTo side for whole messages at every depth (proofs: `Proofs/ToOneof.lean`). `BranchIR f`: the branch is a scalar
-- with a zero value in the type table (or a pointer scalar) or a pointer message – exactly the branches whose null-ness
-- depends on the struct at all (`C07_branchIR_exact`); `GroupSep`: branches of one group have different wrapper types;
-- `Below`: the nested (field list, struct, attributes) triples reached through non-null object values.
section
open PGT.ToOneof

/-- **C07 (CopyTo), whole message, every depth.** For every message (any fields around the groups), every typed struct
(`ToOKs`): CopyTo into the empty typed object succeeds without diagnostics and returns attributes `as` such that at the
message itself and at every nested message level below it (`Below`) the oneof groups are exclusive
(`GroupsExclusive`: 1. holder nil ⇒ all branch attributes null; 2. active branch non-null with the payload's rendering,
all other branches null; 3. at most one non-null branch attribute per group; the executable predicate
`Spec.c07ToGroup`). -/
theorem C07_to_exclusive_every_depth (m : Msg) (obj : GoVal) (atys : List (String × TfTy)) (h : ToOKs m.fields obj atys) :
    ∃ r as, copyTo m obj (.obj false false none (some atys)) = .ok r ∧ r.diags = [] ∧
      r.tf = .obj false false (some as) (some atys) ∧
      ∀ fs' obj' as', Below m.fields obj as fs' obj' as' → GroupsExclusive fs' obj' as' := by
  intros; apply PGT.ToOneof.C07_to_total <;> assumption

/-- **1.** the holder of `g` is nil ⇒ after CopyTo every branch attribute of `g` is null -/
theorem C07_to_unset_all_null (m : Msg) (obj : GoVal) (atys : List (String × TfTy)) (h : ToOKs m.fields obj atys)
    (g : String) (hnil : obj.field? g = none ∨ obj.field? g = some (.iface none))
    (r : ToResult) (hr : copyTo m obj (.obj false false none (some atys)) = .ok r) :
    ∃ as, r.tf = .obj false false (some as) (some atys) ∧
      ∀ f ∈ m.fields, f.info.oneOfName = g → BranchIR f → ∃ a, as.lookup f.info.nameSnake = some a ∧ isNull a = true := by
  intros; apply PGT.ToOneof.C07_to_unset <;> assumption

/-- **2.** the holder holds the wrapper of branch `f0` with a non-zero payload ⇒ the attribute of `f0` is non-null and
carries the payload's rendering, and the attribute of every other branch of the group (different wrapper type) is null -/
theorem C07_to_active_only (m : Msg) (obj : GoVal) (atys : List (String × TfTy)) (h : ToOKs m.fields obj atys)
    (f0 : Field) (hf0 : f0 ∈ m.fields) (hb0 : BranchIR f0) (p : GoVal)
    (hh : obj.field? f0.info.oneOfName = some (.iface (some (lastSegment f0.info.oneOfType, f0.info.name, p))))
    (hact : payloadActive f0.info p = true)
    (r : ToResult) (hr : copyTo m obj (.obj false false none (some atys)) = .ok r) :
    ∃ as, r.tf = .obj false false (some as) (some atys) ∧
      (∃ a, as.lookup f0.info.nameSnake = some a ∧ isNull a = false ∧ Carries f0 p a) ∧
      ∀ f ∈ m.fields, f.info.oneOfName = f0.info.oneOfName → BranchIR f →
        lastSegment f.info.oneOfType ≠ lastSegment f0.info.oneOfType →
        ∃ a, as.lookup f.info.nameSnake = some a ∧ isNull a = true := by
  intros; apply PGT.ToOneof.C07_to_active <;> assumption

/-- **3.** at most one branch attribute per group is non-null, and it is the active branch -/
theorem C07_to_at_most_one (m : Msg) (obj : GoVal) (atys : List (String × TfTy)) (h : ToOKs m.fields obj atys)
    (hsep : GroupSep m.fields)
    (r : ToResult) (hr : copyTo m obj (.obj false false none (some atys)) = .ok r) :
    ∃ as, r.tf = .obj false false (some as) (some atys) ∧
      (∀ f1 ∈ m.fields, ∀ f2 ∈ m.fields, BranchIR f1 → BranchIR f2 → f2.info.oneOfName = f1.info.oneOfName →
        ∀ a1 a2, as.lookup f1.info.nameSnake = some a1 → as.lookup f2.info.nameSnake = some a2 →
          isNull a1 = false → isNull a2 = false → f1 = f2) ∧
      (∀ f ∈ m.fields, BranchIR f → ∀ a, as.lookup f.info.nameSnake = some a → isNull a = false →
        obj.field? f.info.oneOfName =
            some (.iface (some (lastSegment f.info.oneOfType, f.info.name, getVal f.info obj))) ∧
          payloadActive f.info (getVal f.info obj) = true ∧ Carries f (getVal f.info obj) a) := by
  intros; apply PGT.ToOneof.C07_to_at_most_one <;> assumption

/-- the executable predicate `Spec.c07ToCheck` (all groups of the message) holds on the result of CopyTo -/
theorem C07_to_check (m : Msg) (obj : GoVal) (atys : List (String × TfTy)) (h : ToOKs m.fields obj atys)
    (hb : ∀ f ∈ m.fields, f.info.oneOfName ≠ "" → BranchIR f ∧ HolderWF f.info obj)
    (r : ToResult) (hr : copyTo m obj (.obj false false none (some atys)) = .ok r) :
    c07ToCheck m obj r.tf = true := by
  intros; apply PGT.ToOneof.C07_to_check <;> assumption

/-- **`BranchIR` is exact**: for a scalar or message branch that is not a child of an embedded message and does not
satisfy `BranchIR`, the null-ness of the attribute is a constant – it says nothing about the holder. -/
theorem C07_branchIR_exact (f : Field) (he : f.info.parentIsOptionalEmbed = false) (ho : f.info.oneOfName ≠ "")
    (hk : f.info.kind = .primitive ∨ f.info.kind = .object) (hnb : ¬ BranchIR f) :
    (∀ obj a, rendersVal f obj a = true → isNull a = false) ∨ (∀ obj a, rendersVal f obj a = true → isNull a = true) := by
  intros; apply PGT.ToOneof.branchIR_necessary <;> assumption

/-- the group is unset, yet the duration attribute is non-null (a zero duration): `c07ToCheck` is false, although the
object renders the struct (C03 / C20 hold) -/
theorem C07_no_zero_value_witness :
    cxRun (.struct [("Choice", .iface none)]) = some ([("d", false), ("s", true)], true, false) := by
  intros; apply PGT.ToOneof.counter_unset_nonnull <;> assumption

end

end PGT.Props.C07
