import PGT.Proofs.Echo
import PGT.Proofs.EchoOneof
import PGT.Proofs.ToFlat
import PGT.Proofs.FromFlat
import PGT.Proofs.ToInPlace
/-
C08 / C09 share the in-place behaviour of the CopyTo templates. This file: C08 (apply echo).
Full statement: `C08_full`. Proved: the in-place scalar template (`primBody_reuse`: an existing well-typed value is
re-used, its null-ness is kept, its payload overwritten, Unknown cleared) and the echo of one scalar attribute
(`C08_scalar_echo`): a known planned value (null or not) comes back unchanged, an unknown one comes back known.
-/
namespace PGT.Props.C08
open PGT PGT.Spec

def C08_full : Prop :=
  ∀ (ov : List (String × String)) (m : Msg) (plan : TfVal) (s1 : FromResult) (e : ToResult) (s2 : FromResult),
    copyFrom ov m plan (.struct []) = .ok s1 → copyTo m s1.obj plan = .ok e → copyFrom ov m e.tf (.struct []) = .ok s2 →
    c08Check m plan s1.obj e.tf s2.obj = true

/-- in place: an existing value of the expected Go type is re-used; only its payload and Unknown change -/
theorem primBody_reuse (info : FieldInfo) (k : PrimK) (obj : GoVal) (u n : Bool) (p s c : Sc) (t : Option TfTy)
    (hp : PlainScalar info k) (hc : info.castTo s = some c) :
    primBody info obj (some (.prim k u n p)) t (.ok (.sc s)) = .ok (.prim k false n c, []) := by
  unfold primBody
  simp only [hp.vk]
  simp [primStart, assignPrim, hp.notPlaceholder, hp.noEmbed, hp.notNullable, hc]

/-- Echo of one scalar attribute. The plan holds `prim k u n p`; CopyFrom decoded it to the Go value `s`
(zero when null / unknown); CopyTo back into the same plan yields `prim k false n (castTo s)`:
* nothing unknown is left,
* a known non-null value is returned unchanged whenever `castTo (castFrom p) = p` (numbers within the range of the Go field – the quantifier of C08),
* a known null value stays null. -/
theorem C08_scalar_echo (info : FieldInfo) (k : PrimK) (obj : GoVal) (u n : Bool) (p s c : Sc) (t : Option TfTy)
    (hp : PlainScalar info k) (hc : info.castTo s = some c) :
    ∃ v, primBody info obj (some (.prim k u n p)) t (.ok (.sc s)) = .ok (v, []) ∧
      noUnknownFlat v = true ∧ isNull v = n ∧ (u = false → n = false → c = p → v = .prim k u n p) := by
  refine ⟨.prim k false n c, primBody_reuse info k obj u n p s c t hp hc, by simp [noUnknownFlat], by simp [isNull], ?_⟩
  intro hu hn hcp
  subst hu hn hcp
  rfl

-- ====================================================================================================
-- the CopyTo step of the echo, every template at every depth

/-- every generated attribute of a result that follows a struct is known (top level of the message) -/
theorem follows_known : ∀ (fs : List Field) (v : GoVal) (prev cur : List (String × TfVal)),
    followsFields fs v prev cur = true → ∀ f ∈ fs, f.info.kind ≠ .custom → f.info.isPlaceholder = false →
    (f.info.kind = .primitive → f.info.isNullable = false →
        ¬ (f.info.parentIsOptionalEmbed = true ∧ parentIsNil f.info v = true) →
        ∃ a, cur.lookup f.info.nameSnake = some a ∧ isUnknown a = false) ∧
    (f.info.kind = .object → ∃ a, cur.lookup f.info.nameSnake = some a ∧ isUnknown a = false)
  | [], _, _, _, _, f, hf, _, _ => by simp at hf
  | g :: rest, v, prev, cur, h, f, hf, hc, hph => by
    unfold followsFields at h
    simp only [Bool.and_eq_true] at h
    simp only [List.mem_cons] at hf
    rcases hf with rfl | hf
    · have h1 := h.1
      rw [followsField_eq] at h1
      cases hl : cur.lookup f.info.nameSnake with
      | none => simp [hl] at h1
      | some a =>
        simp only [hl] at h1
        obtain ⟨info, mv, msg, sub⟩ := f
        simp only at hc hph hl
        unfold followsVal at h1
        refine ⟨?_, ?_⟩
        · intro hk hn hemb
          simp only [hk, followsPrim, hph, Bool.false_eq_true, if_false, hn] at h1
          have hnn : (info.parentIsOptionalEmbed && parentIsNil info v) = false := by
            cases h1' : info.parentIsOptionalEmbed <;> cases h2 : parentIsNil info v <;> simp_all
          simp only [hnn, Bool.false_eq_true, if_false, Bool.and_eq_true] at h1
          refine ⟨a, rfl, ?_⟩
          cases a <;> simp_all [isUnknown]
        · intro hk
          simp only [hk, followsObj] at h1
          refine ⟨a, rfl, ?_⟩
          cases a <;> simp_all [isUnknown]
    · exact follows_known rest v prev cur h.2 f hf hc hph

/-- **C08, the CopyTo step leaves nothing unknown** – for every template at every nesting depth, every plan object (a
`Target`: shaped values with unknown / null flags anywhere) and every typed struct – whatever CopyFrom decoded: the call
returns no diagnostic and the result follows the struct (`C09_step`), in particular every scalar and message attribute it
visits is known afterwards; lists and maps are known with exactly the struct's elements. -/
theorem C08_copyTo_step (m : Msg) (s : GoVal) (atys : List (String × TfTy)) (u n : Bool) (as : Option (List (String × TfVal)))
    (hs : ToOKs m.fields s atys) (hp : ShapedAttrs m.fields (as.getD []) atys) :
    ∃ r as', copyTo m s (.obj u n as (some atys)) = .ok r ∧ r.diags = [] ∧ r.tf = .obj false false (some as') (some atys) ∧
      followsFields m.fields s (as.getD []) as' = true := by
  obtain ⟨st', hrun, hd, _, hall, _, _⟩ := toFields_inplace m.fields s atys { attrs := as.getD [] } hs hp
  refine ⟨{ tf := .obj false false (some st'.attrs) (some atys), diags := st'.diags, hooks := st'.hooks }, st'.attrs, ?_,
    by simpa using hd, rfl, followsFields_of_forall m.fields s _ _ hall⟩
  simp [copyTo, hrun]

-- ====================================================================================================
-- the whole echo: CopyFrom(plan) ; CopyTo(struct, plan) ; CopyFrom – every template of the plain tree at every depth
-- (proofs: `Proofs/EchoDecode.lean`, `Proofs/Echo.lean`). `PlanObj X m plan`: the plan is an object whose attributes conform to the
-- IR (`PlanOKs`: flags anywhere; known scalars castable and in the range of the Go field (`LeafOK.range`); null values carry the
-- zero payload; null / unknown objects and collections carry no content; names and map keys distinct) and whose extra attributes
-- satisfy `X` (injected attributes). Conclusion = `Spec.c08Check` (the statement `C08_full` makes) and no diagnostics in any step.
-- Not covered (kept as `echo_full`): oneof branches, children of nullable embedded messages, custom kinds.

/-- **C08 step 1, decode is typed**: CopyFrom of a plan that satisfies the judgement into a fresh struct succeeds without
a diagnostic; the struct it builds is typed in the sense the in-place CopyTo theorem (`toFields_inplace`) needs, and the
plan's attributes are shaped in the sense of that theorem. -/
theorem C08_decode_typed (X : String → TfVal → Prop) (ov : List (String × String)) (fs : List Field) (names : List String)
    (attrs : Option (List (String × TfVal))) (atys : List (String × TfTy)) (h : PlanOKs X fs (attrs.getD []) atys) :
    ∃ st', copyFromFields ov fs attrs { obj := resetOneOfs names (.struct []) } = .ok st' ∧ st'.diags = [] ∧
      ToOKs fs st'.obj atys ∧ RTOKs fs st'.obj ∧ DecRels fs (attrs.getD []) st'.obj ∧
      ShapedAttrs fs (attrs.getD []) atys := by
  intros; apply PGT.decode_typed <;> assumption

/-- **C08, apply echo** (plain tree, every nesting depth, any number of fields; `skN` / `skE` are the skip lists of
`Spec.noUnknownDeep` / `Spec.echoKeeps` – any lists, in particular empty ones; `X` describes the extra attributes of the
plan, `NoExtra` if there are none): for a plan object satisfying the judgement,
* `CopyFrom(plan)` into a fresh struct succeeds without diagnostics (`s1`),
* `CopyTo(s1)` into the plan object itself succeeds without diagnostics (`e`),
* a second `CopyFrom(e)` into a fresh struct succeeds without diagnostics (`s2`),
* nothing is unknown in `e` at any depth, every attribute that was known in the plan (null or not) is unchanged in `e`
  (lists / maps: null-ness, length, key set), and `s2` equals `s1` in normal form. -/
theorem C08_echo (X : String → TfVal → Prop) (ov : List (String × String)) (m : Msg) (plan : TfVal) (skN skE : List String)
    (hX : ExtraOK X skN skE) (hp : PlanObj X m plan) :
    ∃ s1 e s2, copyFrom ov m plan (.struct []) = .ok s1 ∧ s1.diags = [] ∧
      copyTo m s1.obj plan = .ok e ∧ e.diags = [] ∧
      copyFrom ov m e.tf (.struct []) = .ok s2 ∧ s2.diags = [] ∧
      noUnknownDeep skN e.tf = true ∧ echoKeeps skE plan e.tf = true ∧ nfEqFields m.fields s1.obj s2.obj = true := by
  intros; apply PGT.C08_echo <;> assumption

/-- **C08 in the shape of `PGT.Props.C08.C08_full`**, for plan objects satisfying the judgement: whatever the three
calls return, they return no diagnostic and the executable statement `Spec.c08Check` holds. -/
theorem C08_echo_check (X : String → TfVal → Prop) (ov : List (String × String)) (m : Msg) (plan : TfVal) (s1 : FromResult) (e : ToResult) (s2 : FromResult)
    (hX : ExtraOK X (injectedNames m.fields m.info.injected ++ customNames m.fields) (customNames m.fields))
    (hp : PlanObj X m plan)
    (h1 : copyFrom ov m plan (.struct []) = .ok s1) (h2 : copyTo m s1.obj plan = .ok e)
    (h3 : copyFrom ov m e.tf (.struct []) = .ok s2) :
    s1.diags = [] ∧ e.diags = [] ∧ s2.diags = [] ∧ c08Check m plan s1.obj e.tf s2.obj = true := by
  intros; apply PGT.C08_echo_check <;> assumption

/-- **Echo of a scalar** (field value; the same computation serves placeholders-free scalar attributes at every depth).
The plan holds `prim k u n p`, CopyFrom decoded it to `x`; CopyTo back into the same value yields `prim k false n' p'`:
* nothing unknown is left;
* decoding the result again gives `x` back in normal form;
* if the planned value was known (`u = false`) and satisfies the leaf hypotheses `LeafOK` – a non-null value within the
  range of the Go field (`castTo (castFrom p) = p`), a null value carrying the payload the converter writes under a kept
  `Null` flag (`castTo zero = p`; pointer-backed: any payload, it is not touched) – the value comes back **unchanged**:
  same `Null`, same payload. -/
theorem C08_prim_echo (info : FieldInfo) (k : PrimK) (hir : ScalarIR info k) (obj : GoVal) (u n : Bool) (p : Sc) (x : GoVal)
    (t : Option TfTy) (hph : info.isPlaceholder = false) (he : info.parentIsOptionalEmbed = false)
    (hc : known u n = true → ∃ c, info.castFrom k p = some c)
    (hd : primDecode info k u n p = .ok x) :
    ∃ n' p', primBody info obj (some (.prim k u n p)) t (.ok x) = .ok (.prim k false n' p', []) ∧
      (∃ y, primDecode info k false n' p' = .ok y ∧ primNfEq info.isNullable x y = true) ∧
      (LeafOK info k u n p → u = false → n' = n ∧ p' = p) := by
  intros; apply PGT.primEcho <;> assumption


-- the echo with oneof groups (proofs: `Proofs/EchoOneof.lean`): `PlanObj2` extends `PlanObj` by scalar and message branches – at the
-- top level, inside known nested messages and inside message branches, recursively – under the quantifier of C08: of two branches of
-- one group at most one is not null (an unknown value counts as not null). `EchoOneofWitness.witness_fails` shows the clause cannot be
-- weakened to "at most one known and non-null": an unknown, non-null scalar branch declared after the known branch comes back known
-- with the zero payload and takes the holder in the second decode.

/-- **C08, apply echo, with oneof groups** (same conclusion as `C08_echo`): for a plan object satisfying `PlanObj2` – the
plain tree plus scalar and message branches of oneof groups, of each group at most one branch attribute not null –
* `CopyFrom(plan)` into a fresh struct succeeds without diagnostics (`s1`),
* `CopyTo(s1)` into the plan object itself succeeds without diagnostics (`e`),
* a second `CopyFrom(e)` into a fresh struct succeeds without diagnostics (`s2`),
* nothing is unknown in `e` at any depth, every attribute that was known in the plan is unchanged in `e`, and `s2`
  equals `s1` in normal form. -/
theorem C08_echo_oneof (X : String → TfVal → Prop) (ov : List (String × String)) (m : Msg) (plan : TfVal) (skN skE : List String)
    (hX : ExtraOK X skN skE) (hp : PlanObj2 X m plan) :
    ∃ s1 e s2, copyFrom ov m plan (.struct []) = .ok s1 ∧ s1.diags = [] ∧
      copyTo m s1.obj plan = .ok e ∧ e.diags = [] ∧
      copyFrom ov m e.tf (.struct []) = .ok s2 ∧ s2.diags = [] ∧
      noUnknownDeep skN e.tf = true ∧ echoKeeps skE plan e.tf = true ∧ nfEqFields m.fields s1.obj s2.obj = true := by
  intros; apply PGT.C08_echo_oneof <;> assumption

/-- **C08 with oneof groups in the shape of `PGT.Props.C08.C08_full`**: whatever the three calls return, they return no
diagnostic and the executable statement `Spec.c08Check` holds. -/
theorem C08_echo_oneof_check (X : String → TfVal → Prop) (ov : List (String × String)) (m : Msg) (plan : TfVal)
    (s1 : FromResult) (e : ToResult) (s2 : FromResult)
    (hX : ExtraOK X (injectedNames m.fields m.info.injected ++ customNames m.fields) (customNames m.fields))
    (hp : PlanObj2 X m plan)
    (h1 : copyFrom ov m plan (.struct []) = .ok s1) (h2 : copyTo m s1.obj plan = .ok e)
    (h3 : copyFrom ov m e.tf (.struct []) = .ok s2) :
    s1.diags = [] ∧ e.diags = [] ∧ s2.diags = [] ∧ c08Check m plan s1.obj e.tf s2.obj = true := by
  intros; apply PGT.C08_echo_oneof_check <;> assumption

end PGT.Props.C08
