import PGT.Proofs.ToFlat
import PGT.Proofs.FromFlat
/-
C08 / C09 share the in-place behaviour of the CopyTo templates. This file: C08 (apply echo).
Full statement: `C08_full`. Proved: the in-place scalar template (`primBody_reuse`: an existing well-typed value is
re-used, its null-ness is kept, its payload overwritten, Unknown cleared) and the echo of one scalar attribute
(`C08_scalar_echo`): a known planned value (null or not) comes back unchanged, an unknown one comes back known.
-/
namespace PGT.Props.C08
open PGT PGT.Spec

def C08_full : Prop :=
  ∀ (ov : List (String × String)) (m : Msg) (plan : TfVal) (s1 : FromResult) (e : ToResult) (s2 : FromResult),
    copyFrom ov m plan (.struct []) = .ok s1 → copyTo m s1.obj plan = .ok e → copyFrom ov m e.tf (.struct []) = .ok s2 →
    c08Check m plan s1.obj e.tf s2.obj = true

/-- in place: an existing value of the expected Go type is re-used; only its payload and Unknown change -/
theorem primBody_reuse (info : FieldInfo) (k : PrimK) (obj : GoVal) (u n : Bool) (p s c : Sc) (t : Option TfTy)
    (hp : PlainScalar info k) (hc : info.castTo s = some c) :
    primBody info obj (some (.prim k u n p)) t (.ok (.sc s)) = .ok (.prim k false n c, []) := by
  unfold primBody
  simp only [hp.vk]
  simp [primStart, assignPrim, hp.notPlaceholder, hp.noEmbed, hp.notNullable, hc]

/-- Echo of one scalar attribute. The plan holds `prim k u n p`; CopyFrom decoded it to the Go value `s`
(zero when null / unknown); CopyTo back into the same plan yields `prim k false n (castTo s)`:
* nothing unknown is left,
* a known non-null value is returned unchanged whenever `castTo (castFrom p) = p` (numbers within the range of the Go field – the quantifier of C08),
* a known null value stays null. -/
theorem C08_scalar_echo (info : FieldInfo) (k : PrimK) (obj : GoVal) (u n : Bool) (p s c : Sc) (t : Option TfTy)
    (hp : PlainScalar info k) (hc : info.castTo s = some c) :
    ∃ v, primBody info obj (some (.prim k u n p)) t (.ok (.sc s)) = .ok (v, []) ∧
      noUnknownFlat v = true ∧ isNull v = n ∧ (u = false → n = false → c = p → v = .prim k u n p) := by
  refine ⟨.prim k false n c, primBody_reuse info k obj u n p s c t hp hc, by simp [noUnknownFlat], by simp [isNull], ?_⟩
  intro hu hn hcp
  subst hu hn hcp
  rfl

end PGT.Props.C08
