import PGT.Model.Schema
/-
C15 – Declaration order never changes behaviour; sort makes output order-free (IR-level part).
The Go code sorts with `sort.Slice` (not stable); for pairwise distinct names every sorting algorithm
produces the same list, which is what `C15_sort_perm` shows for the model's insertion sort.
-/
namespace PGT.Props.C15
open PGT

theorem str_trichotomy (a b : String) : a < b ∨ a = b ∨ b < a := by
  by_cases h1 : a < b
  · exact Or.inl h1
  · by_cases h2 : b < a
    · exact Or.inr (Or.inr h2)
    · exact Or.inr (Or.inl (String.le_antisymm (String.not_lt.mp h2) (String.not_lt.mp h1)))

/-- inserting two fields with different names commutes -/
theorem insert_comm (a b : Field) (hne : a.info.name ≠ b.info.name) :
    ∀ l : List Field, insertByName a (insertByName b l) = insertByName b (insertByName a l)
  | [] => by
    rcases str_trichotomy a.info.name b.info.name with h | h | h
    · simp [insertByName, h, String.lt_asymm h]
    · exact absurd h hne
    · simp [insertByName, h, String.lt_asymm h]
  | g :: gs => by
    have ih := insert_comm a b hne gs
    simp only [insertByName]
    by_cases hbg : b.info.name < g.info.name <;> by_cases hag : a.info.name < g.info.name
    · rcases str_trichotomy a.info.name b.info.name with h | h | h
      · simp [insertByName, hbg, hag, h, String.lt_asymm h]
      · exact absurd h hne
      · simp [insertByName, hbg, hag, h, String.lt_asymm h]
    · -- b < g ≤ a  ⇒  b < a
      have hba : b.info.name < a.info.name := by
        rcases str_trichotomy g.info.name a.info.name with h | h | h
        · exact String.lt_trans hbg h
        · exact h ▸ hbg
        · exact absurd h hag
      simp [insertByName, hbg, hag, hba, String.lt_asymm hba]
    · have hab : a.info.name < b.info.name := by
        rcases str_trichotomy g.info.name b.info.name with h | h | h
        · exact String.lt_trans hag h
        · exact h ▸ hag
        · exact absurd h hbg
      simp [insertByName, hbg, hag, hab, String.lt_asymm hab]
    · simp [insertByName, hbg, hag, ih]

/-- With `sort` on, the field list of a message does not depend on the declaration order:
for any two orders (permutations) of fields with pairwise distinct Go names the sorted lists are equal. -/
theorem C15_sort_perm {l l' : List Field} (h : l.Perm l') (hn : (l.map (·.info.name)).Nodup) :
    sortFieldsByName l = sortFieldsByName l' := by
  unfold sortFieldsByName
  induction h with
  | nil => rfl
  | cons x _ ih =>
    simp only [List.map_cons, List.nodup_cons] at hn
    simp [List.foldr, ih hn.2]
  | swap x y l =>
    simp only [List.map_cons, List.nodup_cons, List.mem_cons, not_or] at hn
    simp only [List.foldr]
    exact insert_comm y x (fun e => hn.1.1 e) _
  | trans h1 _ ih1 ih2 =>
    rw [ih1 hn]
    exact ih2 ((h1.map (·.info.name)).nodup_iff.mp hn)

/-- sorting only reorders: the sorted list has the same fields -/
theorem C15_sort_is_perm (l : List Field) : (sortFieldsByName l).Perm l := by
  unfold sortFieldsByName
  induction l with
  | nil => exact List.Perm.nil
  | cons a l ih =>
    simp only [List.foldr]
    have hins : ∀ (s : List Field), (insertByName a s).Perm (a :: s) := by
      intro s
      induction s with
      | nil => exact List.Perm.refl _
      | cons g gs ihs =>
        simp only [insertByName]
        split
        · exact List.Perm.refl _
        · exact (List.Perm.cons g ihs).trans (List.Perm.swap a g gs)
    exact (hins _).trans (List.Perm.cons a ih)

end PGT.Props.C15
