import PGT.Proofs.OrderIndepEmbed
import PGT.Proofs.OrderIndepSiblings
import PGT.Model.Schema
/-
C15 – Declaration order never changes behaviour; sort makes output order-free (IR-level part).
The Go code sorts with `sort.Slice` (not stable); for pairwise distinct names every sorting algorithm
produces the same list, which is what `C15_sort_perm` shows for the model's insertion sort.
-/
namespace PGT.Props.C15
open PGT

theorem str_trichotomy (a b : String) : a < b ∨ a = b ∨ b < a := by
  by_cases h1 : a < b
  · exact Or.inl h1
  · by_cases h2 : b < a
    · exact Or.inr (Or.inr h2)
    · exact Or.inr (Or.inl (String.le_antisymm (String.not_lt.mp h2) (String.not_lt.mp h1)))

/-- inserting two fields with different names commutes -/
theorem insert_comm (a b : Field) (hne : a.info.name ≠ b.info.name) :
    ∀ l : List Field, insertByName a (insertByName b l) = insertByName b (insertByName a l)
  | [] => by
    rcases str_trichotomy a.info.name b.info.name with h | h | h
    · simp [insertByName, h, String.lt_asymm h]
    · exact absurd h hne
    · simp [insertByName, h, String.lt_asymm h]
  | g :: gs => by
    have ih := insert_comm a b hne gs
    simp only [insertByName]
    by_cases hbg : b.info.name < g.info.name <;> by_cases hag : a.info.name < g.info.name
    · rcases str_trichotomy a.info.name b.info.name with h | h | h
      · simp [insertByName, hbg, hag, h, String.lt_asymm h]
      · exact absurd h hne
      · simp [insertByName, hbg, hag, h, String.lt_asymm h]
    · -- b < g ≤ a  ⇒  b < a
      have hba : b.info.name < a.info.name := by
        rcases str_trichotomy g.info.name a.info.name with h | h | h
        · exact String.lt_trans hbg h
        · exact h ▸ hbg
        · exact absurd h hag
      simp [insertByName, hbg, hag, hba, String.lt_asymm hba]
    · have hab : a.info.name < b.info.name := by
        rcases str_trichotomy g.info.name b.info.name with h | h | h
        · exact String.lt_trans hag h
        · exact h ▸ hag
        · exact absurd h hbg
      simp [insertByName, hbg, hag, hab, String.lt_asymm hab]
    · simp [insertByName, hbg, hag, ih]

/-- With `sort` on, the field list of a message does not depend on the declaration order:
for any two orders (permutations) of fields with pairwise distinct Go names the sorted lists are equal. -/
theorem C15_sort_perm {l l' : List Field} (h : l.Perm l') (hn : (l.map (·.info.name)).Nodup) :
    sortFieldsByName l = sortFieldsByName l' := by
  unfold sortFieldsByName
  induction h with
  | nil => rfl
  | cons x _ ih =>
    simp only [List.map_cons, List.nodup_cons] at hn
    simp [List.foldr, ih hn.2]
  | swap x y l =>
    simp only [List.map_cons, List.nodup_cons, List.mem_cons, not_or] at hn
    simp only [List.foldr]
    exact insert_comm y x (fun e => hn.1.1 e) _
  | trans h1 _ ih1 ih2 =>
    rw [ih1 hn]
    exact ih2 ((h1.map (·.info.name)).nodup_iff.mp hn)

/-- sorting only reorders: the sorted list has the same fields -/
theorem C15_sort_is_perm (l : List Field) : (sortFieldsByName l).Perm l := by
  unfold sortFieldsByName
  induction l with
  | nil => exact List.Perm.nil
  | cons a l ih =>
    simp only [List.foldr]
    have hins : ∀ (s : List Field), (insertByName a s).Perm (a :: s) := by
      intro s
      induction s with
      | nil => exact List.Perm.refl _
      | cons g gs ihs =>
        simp only [insertByName]
        split
        · exact List.Perm.refl _
        · exact (List.Perm.cons g ihs).trans (List.Perm.swap a g gs)
    exact (hins _).trans (List.Perm.cons a ih)

-- ------------------------------------------------------------------------------------------------------
-- "declaration order never changes behaviour" for the converters (proofs: `Proofs/OrderIndep.lean`, `OrderIndepEmbed.lean`): for a
-- permutation of the field list (attribute names distinct) CopyTo succeeds for both or neither, the attribute maps agree as lookup
-- functions, diagnostics and hook log are permutations; CopyFrom likewise (fields of the struct agree) when the Go fields assigned
-- by different blocks are distinct or – branches of one oneof group – at most one branch attribute is known (`Indep` / `IndepFull`;
-- necessary: `C15_oneof_order_matters`). Which failure is reported can depend on the order (`C15_failure_differs`).
section
open PGT.OrderIndep PGT.Spec

/-- **C15, CopyTo field blocks (part 1)**: if `fs'` is a permutation of `fs` and the attribute names of `fs` are pairwise
distinct then, for every struct, every `AttrTypes` and every start state (all inputs, no typing hypotheses),
the blocks in the order `fs'` succeed iff they succeed in the order `fs`, and successful runs leave the same value under
every attribute name, the same diagnostics and the same hook calls up to order.
(When the runs fail the *reported* failure may differ – it is the one of the failing block that comes first in the
respective order, see `copyToFields_failure_differs`.) -/
theorem C15_copyTo_fields_perm {fs' fs : List Field} (hp : fs'.Perm fs) (hnd : (fs.map (·.info.nameSnake)).Nodup)
    (obj : GoVal) (atys : Option (List (String × TfTy))) (st : ToSt) :
    ((∃ s', copyToFields fs' obj atys st = .ok s') ↔ (∃ s, copyToFields fs obj atys st = .ok s)) ∧
    ∀ s' s, copyToFields fs' obj atys st = .ok s' → copyToFields fs obj atys st = .ok s →
      (∀ key, s'.attrs.lookup key = s.attrs.lookup key) ∧ s'.diags.Perm s.diags ∧ s'.hooks.Perm s.hooks := by
  intros; apply PGT.OrderIndep.copyToFields_perm <;> assumption

/-- **C15, `Copy<T>ToTerraform` (part 3)**: two messages whose field lists are permutations of each other (pairwise
distinct attribute names): for every struct and every target, one converter succeeds iff the other does, and then
both return an object with the same `AttrTypes` holding the same value under every attribute name, the same
diagnostics and the same hook calls up to order. (`m'.info = m.info` is not needed: CopyTo does not read it.) -/
theorem C15_copyTo_perm (m' m : Msg) (hp : m'.fields.Perm m.fields) (hnd : (m.fields.map (·.info.nameSnake)).Nodup)
    (obj : GoVal) (tf : TfVal) :
    ((∃ r', copyTo m' obj tf = .ok r') ↔ (∃ r, copyTo m obj tf = .ok r)) ∧
    ∀ r' r, copyTo m' obj tf = .ok r' → copyTo m obj tf = .ok r →
      (∃ as' as atys, r'.tf = .obj false false (some as') atys ∧ r.tf = .obj false false (some as) atys ∧
        ∀ key, as'.lookup key = as.lookup key) ∧
      r'.diags.Perm r.diags ∧ r'.hooks.Perm r.hooks := by
  intros; apply PGT.OrderIndep.copyTo_perm <;> assumption

/-- **C15, CopyFrom field blocks (part 2)**: `fs'` a permutation of `fs`; no field of `fs` is a child of a nullable
embedded message; the blocks of `fs` pairwise do not interfere (`Indep`: they assign different Go fields – `wk`: the
holder for oneof branches, the field itself otherwise – or one of the two is a oneof branch whose attribute is not
known).  Then for every Terraform attribute map and every start state (any target, struct or not; no typing
hypotheses) the blocks in the order `fs'` succeed iff they succeed in the order `fs`, and after successful runs the
targets hold the same value in every Go field, with the same diagnostics and hook calls up to order. -/
theorem C15_copyFrom_fields_perm (ov : List (String × String)) (attrs : Option (List (String × TfVal)))
    {fs' fs : List Field} (hp : fs'.Perm fs) (hne : NoEmbed fs) (hind : fs.Pairwise (Indep attrs)) (st : FromSt) :
    ((∃ s', copyFromFields ov fs' attrs st = .ok s') ↔ (∃ s, copyFromFields ov fs attrs st = .ok s)) ∧
    ∀ s' s, copyFromFields ov fs' attrs st = .ok s' → copyFromFields ov fs attrs st = .ok s →
      (∀ name, s'.obj.field? name = s.obj.field? name) ∧ (IsStruct s'.obj ↔ IsStruct s.obj) ∧
      s'.diags.Perm s.diags ∧ s'.hooks.Perm s.hooks := by
  intros; apply PGT.OrderIndep.copyFromFields_perm <;> assumption

/-- **C15, `Copy<T>FromTerraform` (part 3)**: two messages with the same `MsgInfo` whose field lists are permutations
of each other (hypotheses of `copyFromFields_perm`, for the attribute map of the object passed in): for every
Terraform value and every target, one converter succeeds iff the other does, and then the two structs hold the same
value in every Go field; diagnostics and hook calls agree up to order. -/
theorem C15_copyFrom_perm (ov : List (String × String)) (m' m : Msg) (hp : m'.fields.Perm m.fields)
    (hinfo : m'.info = m.info) (hne : NoEmbed m.fields) (tf : TfVal) (obj : GoVal)
    (hind : ∀ u n attrs atys, tf = .obj u n attrs atys → m.fields.Pairwise (Indep attrs)) :
    ((∃ r', copyFrom ov m' tf obj = .ok r') ↔ (∃ r, copyFrom ov m tf obj = .ok r)) ∧
    ∀ r' r, copyFrom ov m' tf obj = .ok r' → copyFrom ov m tf obj = .ok r →
      (∀ name, r'.obj.field? name = r.obj.field? name) ∧ (IsStruct r'.obj ↔ IsStruct r.obj) ∧
      r'.diags.Perm r.diags ∧ r'.hooks.Perm r.hooks := by
  intros; apply PGT.OrderIndep.copyFrom_perm <;> assumption

/-- why the hypothesis on oneof groups is needed: with two known branches of one group the last one wins, so the
order matters -/
theorem C15_oneof_order_matters :
    ∃ (f g : Field) (attrs : Option (List (String × TfVal))) (st s1 s2 : FromSt),
      copyFromFields [] [f, g] attrs st = .ok s1 ∧ copyFromFields [] [g, f] attrs st = .ok s2 ∧
      s1.obj.field? "G" ≠ s2.obj.field? "G" := by
  intros; apply PGT.OrderIndep.copyFromFields_oneof_order_matters <;> assumption

/-- the reported failure does depend on the order: a block that is stuck and a block that panics -/
theorem C15_failure_differs :
    ∃ (f g : Field) (obj : GoVal) (atys : Option (List (String × TfTy))) (st : ToSt) (w w' : String),
      f.info.nameSnake ≠ g.info.nameSnake ∧
      copyToFields [f, g] obj atys st = .stuck w ∧ copyToFields [g, f] obj atys st = .panic w' := by
  intros; apply PGT.OrderIndep.copyToFields_failure_differs <;> assumption

/-- **C15, `Copy<T>FromTerraform`, all fields (part 3 in full)**: two messages with the same `MsgInfo` whose field lists
are permutations of each other, blocks on pairwise disjoint key sets, target a struct. -/
theorem C15_copyFrom_perm_full (ov : List (String × String)) (m' m : Msg) (hp : m'.fields.Perm m.fields)
    (hinfo : m'.info = m.info) (tf : TfVal) (obj : GoVal) (hobj : IsStruct obj)
    (hind : ∀ u n attrs atys, tf = .obj u n attrs atys → m.fields.Pairwise (IndepFull attrs)) :
    ((∃ r', copyFrom ov m' tf obj = .ok r') ↔ (∃ r, copyFrom ov m tf obj = .ok r)) ∧
    ∀ r' r, copyFrom ov m' tf obj = .ok r' → copyFrom ov m tf obj = .ok r →
      (∀ name, r'.obj.field? name = r.obj.field? name) ∧ IsStruct r'.obj ∧ IsStruct r.obj ∧
      r'.diags.Perm r.diags ∧ r'.hooks.Perm r.hooks := by
  intros; apply PGT.OrderIndep.copyFrom_perm_full <;> assumption

end

-- children of one nullable embedded message commute up to the normal form (proofs: `Proofs/OrderIndepSiblings.lean`): literally
-- the results can differ – a null list child processed before the parent is allocated stays nil, after it becomes an empty slice
-- (`C15_siblings_literal_differs`) –, in the normal form of C04 ("absent ≡ reset value" below the embedded pointer) they agree.
section
open PGT.OrderIndep PGT.Spec
/-- **C15, `Copy<T>FromTerraform`, siblings included (part 3)**: two messages with the same `MsgInfo` whose field lists
are permutations of each other; blocks pairwise on disjoint key sets or siblings; target a struct. -/
theorem C15_copyFrom_perm_siblings (ov : List (String × String)) (m' m : Msg) (hp : m'.fields.Perm m.fields)
    (hinfo : m'.info = m.info) (tf : TfVal) (obj : GoVal) (hobj : IsStruct obj)
    (hind : ∀ u n attrs atys, tf = .obj u n attrs atys → m.fields.Pairwise (Compat attrs)) :
    ((∃ r', copyFrom ov m' tf obj = .ok r') ↔ (∃ r, copyFrom ov m tf obj = .ok r)) ∧
    ∀ r' r, copyFrom ov m' tf obj = .ok r' → copyFrom ov m tf obj = .ok r →
      ObjNfRel m.fields r'.obj r.obj ∧ r'.diags.Perm r.diags ∧ r'.hooks.Perm r.hooks ∧
      (NamesOK m.fields → nfEqFields m.fields r.obj r.obj = true →
        nfEqFields m.fields r'.obj r.obj = true ∧ nfEqFields m.fields r.obj r'.obj = true) := by
  intros; apply PGT.OrderIndep.copyFrom_perm_siblings <;> assumption

/-- (1), for the two fields alone, from the same struct target -/
theorem C15_siblings_commute (ov : List (String × String)) (attrs : Option (List (String × TfVal)))
    (f g : Field) (hsib : Sibling attrs f g) (st : FromSt) (hst : IsStruct st.obj) :
    ((∃ t, obind (blockF ov f attrs st) (blockF ov g attrs) = .ok t) ↔
      (∃ t, obind (blockF ov g attrs st) (blockF ov f attrs) = .ok t)) ∧
    ∀ t t', obind (blockF ov f attrs st) (blockF ov g attrs) = .ok t →
      obind (blockF ov g attrs st) (blockF ov f attrs) = .ok t' →
      ObjNfRel [f, g] t.obj t'.obj ∧ t.diags.Perm t'.diags ∧ t.hooks.Perm t'.hooks := by
  intros; apply PGT.OrderIndep.blockF_siblings_commute <;> assumption

/-- **(3) literal equality fails**: `A` (known) and `L` (null) are children of the nil embedded message `E`.  In the
declaration order `A, L` the block of `A` allocates `E` and the block of `L` then resets `E.L` to an EMPTY slice; in the
order `L, A` the block of `L` finds `E` nil and does nothing, so `E.L` stays NIL (absent).  The two results differ
literally and are equal in the normal form of the property (`Spec.nfEqFields`). -/
theorem C15_siblings_literal_differs : type_of% PGT.OrderIndep.siblings_literal_differs :=
  PGT.OrderIndep.siblings_literal_differs

end

end PGT.Props.C15
