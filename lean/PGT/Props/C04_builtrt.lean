import PGT.Props.C04_built
import PGT.Proofs.BuiltRT
/-
C04, continued – the round trip for every root the generator BUILDS and every typed struct value, with no IR-side hypothesis that is
not a decidable Boolean evaluated on the built IR (proofs: `Proofs/BuiltRT.lean`). `RT3OKs` splits into a node part `RTNodes` and a
value part `RTVals` (`C04_rt3oks_of_split`; the converse holds for the value part and level by level, the hereditary iff is false:
`C04_rt3oks_iff_full_false` – a nil pointer witnesses nothing about the message behind it). `PrimRT` for every scalar node of a
built IR comes from the regenerated type table (`C04_bases_pairOK`, `C04_built_primRT`; float32 on ALL bit patterns:
`C04_narrow_widen_nan`) given `ConfigCastsAgree` for the configured time / duration types (decidable: `cfgCastsB`). What the
build does not guarantee is the Boolean `rtBs` (oneof branches with a zero literal and not pointer-backed / message branches by
pointer; pointer-backed scalars of the right representation; distinct Go fields between siblings) – each part with a built witness
(`C04_built_rt_gap_*`). MAIN: `C04_built_root_typed`, `C04_built_roots_typed`.
-/
namespace PGT.Props.C04
open PGT PGT.Spec PGT.SchemaTyped PGT.Proofs.BuildErrors PGT.Proofs.PathUnique PGT.Proofs.ExclusionPrune PGT.Proofs.BuiltWF PGT.Proofs.BuiltRT
open PGT.Props PGT.F

theorem C04_rt3oks_of_split : ∀ (fs : List Field) (obj : GoVal), RTNodes fs → RTVals fs obj → RT3OKs fs obj := by
  intros; apply PGT.Proofs.BuiltRT.rt3oks_of_split <;> assumption

theorem C04_rtVals_of_rt3oks : ∀ (fs : List Field) (obj : GoVal), RT3OKs fs obj → RTVals fs obj := by
  intros; apply PGT.Proofs.BuiltRT.rtVals_of_rt3oks <;> assumption

/-- `RT3OKs` ⇒ IR part of the level: every node (itself) and every pair of siblings -/
theorem C04_rtLevel_of_rt3oks : ∀ (fs : List Field) (obj : GoVal), RT3OKs fs obj →
    (∀ f ∈ fs, RTNode1 f) ∧ fs.Pairwise (fun f g => SepOK3 f.info g.info) := by
  intros; apply PGT.Proofs.BuiltRT.rtLevel_of_rt3oks <;> assumption

/-- float32 -> float64 -> float32 maps every NaN to a NaN (with `F.narrow_widen`: the float32 row round-trips in normal form on
ALL 2^32 bit patterns) -/
theorem C04_narrow_widen_nan (x : BitVec 32) (h : isNaN32 x = true) : isNaN32 (narrow32 (widen64 x)) = true := by
  intros; apply PGT.Proofs.BuiltRT.narrow_widen_nan <;> assumption

theorem C04_pair_inv (dst : Option GoRep) (k : PrimK) (rep : GoRep) (s c : Sc)
    (hs : C19.HasRep rep s) (hc : (match dst with | some d => conv rep d s | none => none) = some c)
    (h : pairOKb dst k = true) :
    ∃ y, conv k.rep rep c = some y ∧ scNfEq y s = true := by
  intros; apply PGT.Proofs.BuiltRT.pair_inv <;> assumption

/-- **`PrimRT` from two Booleans on the node** (no hypothesis on the field's own representation): the pair (cast-to type, value
kind) is one of the six good pairs, and a pointer-backed scalar has the representation of the value kind's payload -/
theorem C04_primRT_of_pair : type_of% @PGT.Proofs.BuiltRT.primRT_of_pair := @PGT.Proofs.BuiltRT.primRT_of_pair

/-- **`GetTerraformType` and the casts**: whatever record it returns, (`ValueCastToType`, `ElemValueType`) is the pair of a base
record or of the configured time / duration type (the statements after the switch change `Type`, `ValueType`,
`ValueCastFromType` only) -/
theorem C04_getTerraformType_casts (cfg : CfgView) (f : FieldD) (isMap isRep : Bool) (goType path : String) (t : TfType)
    (h : getTerraformType cfg f isMap isRep goType path = .ok t) : CastSrc cfg t := by
  intros; apply PGT.Proofs.BuiltRT.getTerraformType_casts <;> assumption

theorem C04_built_casts (fuel : Nat) (V : CfgView) (req : Request) (desc : MsgD) (isRoot : Bool) (path : String) (m : Msg)
    (h : buildMessage fuel V req desc isRoot path = .ok m) : AllNodess (CastP V) m.fields := by
  intros; apply PGT.Proofs.BuiltRT.built_casts <;> assumption

/-- **`built_primRT`**: every scalar node (primitive, list of scalars, map of scalars: the node's own record, which for a map
carries the casts of the value field) of a built IR satisfies `PrimRT` for the kind of its element value type, provided the
configured time / duration types agree (`ConfigTypesAgree`), carry a good cast pair (`ConfigCastsAgree`) and – the one fact the
build does not give – a pointer-backed scalar has the payload's representation (`ptrB`) -/
theorem C04_built_primRT {V : CfgView} (hc : ConfigTypesAgree V) (hcc : ConfigCastsAgree V) (info : FieldInfo)
    (mv : Option FieldInfo) (msg : Option MsgInfo) (sub : List Field) (hb : Built V ⟨info, mv, msg, sub⟩)
    (hsrc : CastSrc V info.tf)
    (hk : info.kind = .primitive ∨ info.kind = .primitiveList ∨ info.kind = .primitiveMap) (hp : ptrB info = true) :
    ∃ k, PrimRT info k ∧ vkindOf info.tf.elemValueType = .prim k := by
  intros; apply PGT.Proofs.BuiltRT.built_primRT <;> assumption

theorem C04_sepB_iff (f g : FieldInfo) : sepB f g = true ↔ SepOK3 f g := by
  intros; apply PGT.Proofs.BuiltRT.sepB_iff <;> assumption

/-- **`rtBs` = branches ∧ pointer-backed scalars ∧ name hygiene** -/
theorem C04_rtBs_iff : ∀ fs : List Field, rtBs fs = true ↔ branchOKsB fs = true ∧ ptrOKsB fs = true ∧ sepOKsB fs = true := by
  intros; apply PGT.Proofs.BuiltRT.rtBs_iff <;> assumption

/-- **the IR part of `RT3OK` holds for a built message** whose IR has no gap, distinct names and satisfies `rtBs` -/
theorem C04_built_rtNodes (fuel : Nat) (V : CfgView) (req : Request) (desc : MsgD) (isRoot : Bool) (path : String) (m : Msg)
    (h : buildMessage fuel V req desc isRoot path = .ok m) (hc : ConfigTypesAgree V) (hcc : ConfigCastsAgree V)
    (hg : gapFreeBs m.fields = true) (hn : namesOKsB m.fields = true) (hrt : rtBs m.fields = true) : RTNodes m.fields := by
  intros; apply PGT.Proofs.BuiltRT.built_rtNodes <;> assumption

/-- **MAIN. C04 for every root the generator builds, every typed struct value**: the configured time / duration types agree
(`ConfigTypesAgree`, `ConfigCastsAgree`: conditions on the configuration); the built IR has no gap, pairwise distinct attribute
names per level and satisfies `rtBs` (three Booleans evaluated on `m`); then for every struct value typed for the IR
(`ValOKs`: what CopyTo needs; `RTVals`: what reading back needs) CopyTo into the empty schema-typed object followed by CopyFrom
into a fresh struct succeeds without diagnostics and returns the value in normal form. No IR-side hypothesis remains that is
not a Boolean on `m`. -/
theorem C04_built_root_typed (ov : List (String × String)) (cfg : Config) (req : Request) (desc : MsgD) (m : Msg)
    (hb : buildRoot cfg req desc = .ok (some m))
    (hc : ConfigTypesAgree (viewOf cfg)) (hcc : ConfigCastsAgree (viewOf cfg))
    (hg : gapFreeBs m.fields = true) (hn : namesOKsB m.fields = true) (hrt : rtBs m.fields = true)
    (obj : GoVal) (hv : ValOKs m.fields obj) (hrv : RTVals m.fields obj) :
    ∃ r b, copyTo m obj (.obj false false none (some (attrTypesOf m))) = .ok r ∧ r.diags = [] ∧
      copyFrom ov m r.tf (.struct []) = .ok b ∧ b.diags = [] ∧ c04Check m obj b.obj = true := by
  intros; apply PGT.Proofs.BuiltRT.C04_built_root_typed <;> assumption

/-- … in the shape of `Props.C04.C04_full`, restricted to built roots and typed values -/
theorem C04_full_built_root_typed (ov : List (String × String)) (cfg : Config) (req : Request) (desc : MsgD) (m : Msg)
    (hb : buildRoot cfg req desc = .ok (some m))
    (hc : ConfigTypesAgree (viewOf cfg)) (hcc : ConfigCastsAgree (viewOf cfg))
    (hg : gapFreeBs m.fields = true) (hn : namesOKsB m.fields = true) (hrt : rtBs m.fields = true)
    (obj : GoVal) (hv : ValOKs m.fields obj) (hrv : RTVals m.fields obj) (r : ToResult) (b : FromResult)
    (h1 : copyTo m obj (.obj false false none (some (attrTypesOf m))) = .ok r)
    (h2 : copyFrom ov m r.tf (.struct []) = .ok b) :
    r.diags = [] ∧ b.diags = [] ∧ c04Check m obj b.obj = true := by
  intros; apply PGT.Proofs.BuiltRT.C04_full_built_root_typed <;> assumption

/-- … for every message `buildRoots` emits -/
theorem C04_built_roots_typed (ov : List (String × String)) (cfg : Config) (req : Request) (m : Msg)
    (hm : m ∈ (buildRoots cfg req).1)
    (hc : ConfigTypesAgree (viewOf cfg)) (hcc : ConfigCastsAgree (viewOf cfg))
    (hg : gapFreeBs m.fields = true) (hn : namesOKsB m.fields = true) (hrt : rtBs m.fields = true)
    (obj : GoVal) (hv : ValOKs m.fields obj) (hrv : RTVals m.fields obj) :
    ∃ r b, copyTo m obj (.obj false false none (some (attrTypesOf m))) = .ok r ∧ r.diags = [] ∧
      copyFrom ov m r.tf (.struct []) = .ok b ∧ b.diags = [] ∧ c04Check m obj b.obj = true := by
  intros; apply PGT.Proofs.BuiltRT.C04_built_roots_typed <;> assumption

theorem C04_valOKs_of_b : ∀ (fs : List Field) (obj : GoVal), valOKsB fs obj = true → ValOKs fs obj := by
  intros; apply PGT.Proofs.BuiltRT.valOKs_of_b <;> assumption

theorem C04_rtVals_of_b : ∀ (fs : List Field) (obj : GoVal), rtValsB fs obj = true → RTVals fs obj := by
  intros; apply PGT.Proofs.BuiltRT.rtVals_of_b <;> assumption

theorem C04_rt3oks_iff_full_false : ¬ PGT.Proofs.BuiltRT.rt3oks_iff_full := PGT.Proofs.BuiltRT.rt3oks_iff_full_false
theorem C04_bases_pairOK : type_of% PGT.Proofs.BuiltRT.bases_pairOK := PGT.Proofs.BuiltRT.bases_pairOK
theorem C04_built_rt_gap_timestampBranch : type_of% PGT.Proofs.BuiltRT.Witness.b1_timestampBranch := PGT.Proofs.BuiltRT.Witness.b1_timestampBranch
theorem C04_built_rt_gap_valueMessageBranch : type_of% PGT.Proofs.BuiltRT.Witness.b3_valueMessageBranch := PGT.Proofs.BuiltRT.Witness.b3_valueMessageBranch
theorem C04_built_rt_gap_pointerCast : type_of% PGT.Proofs.BuiltRT.Witness.b4_pointerCast := PGT.Proofs.BuiltRT.Witness.b4_pointerCast
theorem C04_built_rt_gap_sameGoName : type_of% PGT.Proofs.BuiltRT.Witness.b6_sameGoName := PGT.Proofs.BuiltRT.Witness.b6_sameGoName
/-- sanity: the Booleans on the 15-attribute built root, a concrete value with all Go fields set, and MAIN instantiated on it -/
theorem C04_built_rt_sanity : type_of% PGT.Proofs.BuiltRT.Sanity.checks := PGT.Proofs.BuiltRT.Sanity.checks
theorem C04_built_rt_sanity_runs : type_of% PGT.Proofs.BuiltRT.Sanity.C04_sanity := PGT.Proofs.BuiltRT.Sanity.C04_sanity

end PGT.Props.C04
