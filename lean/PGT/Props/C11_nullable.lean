import PGT.Props.C11_embed
import PGT.Proofs.ExclusionPruneNullable
/-
C11, continued – CopyFrom of the pruned IR when the excluded field is a child of a NULLABLE embedded message (proofs:
`Proofs/ExclusionPruneNullable.lean`). The removed block may be the one that allocates the parent pointer, so the results can
differ at the parent itself. The statement left open in `ExclusionPruneEmbed.lean` is false as it stood
(`C11_copyFrom_pruneE_nullable_full_false`: a removed ordinary field named like the parent pointer of a surviving child); under
the hygiene condition `ParentsApart` (decidable: no parent pointer is among the removed Go fields) the relation `PRel` holds at
every depth, oneof branches included (`C11_copyFrom_pruneE_nullable`): outside the removed fields the two results agree, except
that a parent may be allocated – holding only reset children – on the unpruned side and nil on the pruned one. Corollaries:
literal agreement off the removed fields AND the parents (`C11_copyFrom_pruneE_nullable_offParents`); literal agreement off the
removed fields alone when the prior struct already holds the parents (`C11_copyFrom_pruneE_parent_held_literal`); "another
surviving sibling is known" does NOT suffice (`C11_sibling_known_not_literal`: nil versus empty slice);
`C11_exclusion_surgical_nullable` is the end-to-end statement for a built root.
-/
namespace PGT.Props.C11
open PGT PGT.Proofs.BuildErrors PGT.Proofs.PathUnique PGT.Proofs.ExclusionPrune PGT.Proofs.ExclusionPruneEmbed PGT.Proofs.ExclusionPruneNullable
open PGT.OrderIndep PGT.Spec

/-- **`Copy<T>FromTerraform` of the pruned message, removed nodes at any depth, children of NULLABLE embedded messages
included.** Whenever the converter of `m` succeeds on a struct target, the converter of `pruneE p m` succeeds on the same
inputs, and the two results are related by `PRel D Par Z none`:
* `D` = the Go fields the removed blocks assign and the holders of the removed oneof branches - ignored at any depth;
* the Go field `P ∈ Par` that points to a nullable embedded message with a removed child is, on the two sides,
  - literally equal (`refl`), or
  - allocated on both sides, to structs that agree field by field outside `D`, where a field that is absent on the right
    may hold a reset value (`zeroWrite` of the child) on the left (`pinner`), or
  - allocated on the left only, to a struct that holds only reset values outside `D` (`palloc`, `struct`);
* every other Go field: related at any depth. -/
theorem C11_copyFrom_pruneE_nullable (ov : List (String × String)) (c : PCfg) (own : List String) (m : Msg) (tf : TfVal)
    (obj : GoVal) (r1 : FromResult) (hobj : IsStruct obj) (hoo : ooOkFs c m.fields = true)
    (hm : m.info.oneOfNames = reNames c.srt own m.fields) (hH : ParentsApart c.p m.fields)
    (h : copyFrom ov m tf obj = .ok r1) :
    ∃ r2, copyFrom ov (pruneE c own m) tf obj = .ok r2 ∧
      PRel (allDroppedGo c.p m.fields ++ allDroppedOO c.p m.fields) (allDroppedParents c.p m.fields)
        (ResetOf m.fields) none r1.obj r2.obj := by
  intros; apply PGT.Proofs.ExclusionPruneNullable.copyFrom_pruneE_nullable <;> assumption

/-- **(a), corrected**: the conjecture `copyFrom_pruneE_nullable_full` of ExclusionPruneEmbed.lean holds for struct
targets under the hygiene condition `ParentsApart` (it is false without: `copyFrom_pruneE_nullable_full_false`). -/
theorem C11_copyFrom_pruneE_nullable_offParents (ov : List (String × String)) (c : PCfg) (own : List String) (m : Msg)
    (tf : TfVal) (obj : GoVal) (r1 : FromResult) (hobj : IsStruct obj) (hoo : ooOkFs c m.fields = true)
    (hm : m.info.oneOfNames = reNames c.srt own m.fields) (hH : ParentsApart c.p m.fields)
    (h : copyFrom ov m tf obj = .ok r1) :
    ∃ r2, copyFrom ov (pruneE c own m) tf obj = .ok r2 ∧
      OffG (allDroppedGo c.p m.fields ++ allDroppedOO c.p m.fields ++ allDroppedParents c.p m.fields) r1.obj r2.obj := by
  intros; apply PGT.Proofs.ExclusionPruneNullable.copyFrom_pruneE_nullable_offParents <;> assumption

/-- **(c), the prior struct holds the parents.** `A`: parent pointers that the prior struct `obj` holds allocated and
that no block of the message itself sets back to nil (`hKeep`; they are not holders of the message: `hAn`). The parents of
the removed children of the message itself may be in `A` instead of `Par`. -/
theorem C11_copyFrom_pruneE_parent_held (ov : List (String × String)) (c : PCfg) (own : List String) (m : Msg) (tf : TfVal)
    (obj : GoVal) (r1 : FromResult) (A Par : List String)
    (hobj : IsStruct obj) (hoo : ooOkFs c m.fields = true)
    (hm : m.info.oneOfNames = reNames c.srt own m.fields) (hH : ParentsApart c.p m.fields)
    (hA : ∀ Q ∈ A, Alloc Q obj) (hAn : ∀ Q ∈ A, Q ∉ m.info.oneOfNames)
    (hTop : ∀ f ∈ m.fields, dropped c.p f.info = true → f.info.parentIsOptionalEmbed = true →
      f.info.parentIsOptionalEmbedFieldName ∈ Par ∨ f.info.parentIsOptionalEmbedFieldName ∈ A)
    (hDeep : ∀ f ∈ m.fields, dropped c.p f.info = false → ∀ x ∈ allDroppedParentsF c.p f, x ∈ Par)
    (hKeep : ∀ f ∈ m.fields, ∀ Q ∈ A, (f.info.parentIsOptionalEmbed = false → wk f.info ≠ Q) ∧
      (f.info.oneOfName ≠ "" → f.info.oneOfName ≠ Q))
    (h : copyFrom ov m tf obj = .ok r1) :
    ∃ r2, copyFrom ov (pruneE c own m) tf obj = .ok r2 ∧
      PRel (allDroppedGo c.p m.fields ++ allDroppedOO c.p m.fields) Par (ResetOf m.fields) none r1.obj r2.obj := by
  intros; apply PGT.Proofs.ExclusionPruneNullable.copyFrom_pruneE_parent_held <;> assumption

/-- **(c), literal form**: every removed child of a nullable embedded message is a field of `m` itself (none below:
`hDeep`), and the prior struct holds their parents. Then the results agree LITERALLY outside the removed Go fields and
holders - the statement of `ExclusionPruneEmbed.copyFrom_pruneE_deep`, without `plainFs`. -/
theorem C11_copyFrom_pruneE_parent_held_literal (ov : List (String × String)) (c : PCfg) (own : List String) (m : Msg)
    (tf : TfVal) (obj : GoVal) (r1 : FromResult) (A : List String)
    (hobj : IsStruct obj) (hoo : ooOkFs c m.fields = true)
    (hm : m.info.oneOfNames = reNames c.srt own m.fields) (hH : ParentsApart c.p m.fields)
    (hA : ∀ Q ∈ A, Alloc Q obj) (hAn : ∀ Q ∈ A, Q ∉ m.info.oneOfNames)
    (hTop : ∀ f ∈ m.fields, dropped c.p f.info = true → f.info.parentIsOptionalEmbed = true →
      f.info.parentIsOptionalEmbedFieldName ∈ A)
    (hDeep : ∀ f ∈ m.fields, dropped c.p f.info = false → allDroppedParentsF c.p f = [])
    (hKeep : ∀ f ∈ m.fields, ∀ Q ∈ A, (f.info.parentIsOptionalEmbed = false → wk f.info ≠ Q) ∧
      (f.info.oneOfName ≠ "" → f.info.oneOfName ≠ Q))
    (h : copyFrom ov m tf obj = .ok r1) :
    ∃ r2, copyFrom ov (pruneE c own m) tf obj = .ok r2 ∧
      OffG (allDroppedGo c.p m.fields ++ allDroppedOO c.p m.fields) r1.obj r2.obj := by
  intros; apply PGT.Proofs.ExclusionPruneNullable.copyFrom_pruneE_parent_held_literal <;> assumption

/-- **what `PRel` says about the field `n` of the struct behind the parent pointer `P`** (`cfield`: `none` when the
parent is nil or the field is absent): both sides hold related values, or the right side holds nothing and the left side
holds nothing or a reset value -/
theorem C11_cfield_rel {D Par : List String} {Z : String → String → GoVal → Prop} {o1 o2 : GoVal}
    (h : PRel D Par Z none o1 o2) (P n : String) (hP : P ∉ D) (hn : n ∉ D) (hnP : n ∉ Par) :
    (∃ v1 v2, cfield P n o1 = some v1 ∧ cfield P n o2 = some v2 ∧ PRel D Par Z (some n) v1 v2) ∨
    (cfield P n o2 = none ∧ (cfield P n o1 = none ∨ ∃ v, cfield P n o1 = some v ∧ Z P n v)) := by
  intros; apply PGT.Proofs.ExclusionPruneNullable.cfield_rel <;> assumption

/-- **(b) for a surviving SCALAR child `g` of a nullable embedded message with a removed child**: the pruned converter
and the unpruned converter give `g` the same value in the total reading of C04 (`Spec.getVal`: through a nil parent the
zero value) - either the same value behind two allocated parents, or the zero value: written as a reset on the left,
read through the nil parent on the right. Hypotheses: the names involved are not removed Go fields / parents; the child
`g` is determined by its parent and name among the nodes (`huniq`); the left value is scalar-shaped. -/
theorem C11_getVal_scalar_child {D Par : List String} {fs : List Field} {o1 o2 : GoVal}
    (h : PRel D Par (ResetOf fs) none o1 o2) (g : FieldInfo)
    (he : g.parentIsOptionalEmbed = true) (hk : g.kind = .primitive)
    (hP : g.parentIsOptionalEmbedFieldName ∉ D) (hn : g.name ∉ D) (hnP : g.name ∉ Par)
    (huniq : ∀ i ∈ infosFs fs, i.parentIsOptionalEmbed = true → i.kind ≠ .custom →
      i.parentIsOptionalEmbedFieldName = g.parentIsOptionalEmbedFieldName → i.name = g.name → zeroWrite i = zeroWrite g)
    (hsc : ∀ v, cfield g.parentIsOptionalEmbedFieldName g.name o1 = some v → Scalarish v) :
    getVal g o1 = getVal g o2 := by
  intros; apply PGT.Proofs.ExclusionPruneNullable.getVal_scalar_child <;> assumption

/-- **C11 with children of nullable embedded messages, excluded field at any depth.** `cfg'` = `cfg` plus the path `p` in
`exclude_fields`; `p` addresses by path only and is not the root's name; the root builds to `m` without the exclusion.
Then it builds to `pruneE p m` with the exclusion (`exclusion_prunesE_root`), and - under the hygiene condition
`ParentsApart p m.fields` (decidable on `m`) - `Copy<T>FromTerraform` of the pruned IR succeeds on every struct target on
which the unpruned one does, with results related by `PRel` (see `copyFrom_pruneE_nullable`); in particular they agree
literally outside the removed Go fields, the holders of removed branches and the parents of removed children. No
hypothesis on embedded fields (`plainFs` of `exclusion_surgical_deepE` is gone). -/
theorem C11_exclusion_surgical_nullable (cfg : Config) (p : String) (req : Request) (desc : MsgD) (m : Msg)
    (hpath : desc.name ≠ p)
    (htn : typeFree p (ctxKeys (defaultFuel req) req (rootCtx desc)) = true)
    (hb : buildRoot cfg req desc = .ok (some m)) :
    buildRoot { cfg with excludeFields := p :: cfg.excludeFields } req desc =
      .ok (some (pruneE (pcfg cfg req p) (oneOfNames desc) m)) ∧
    (ParentsApart p m.fields → ∀ ov tf obj r1, IsStruct obj → copyFrom ov m tf obj = .ok r1 →
      ∃ r2, copyFrom ov (pruneE (pcfg cfg req p) (oneOfNames desc) m) tf obj = .ok r2 ∧
        PRel (allDroppedGo p m.fields ++ allDroppedOO p m.fields) (allDroppedParents p m.fields)
          (ResetOf m.fields) none r1.obj r2.obj ∧
        OffG (allDroppedGo p m.fields ++ allDroppedOO p m.fields ++ allDroppedParents p m.fields) r1.obj r2.obj) := by
  intros; apply PGT.Proofs.ExclusionPruneNullable.exclusion_surgical_nullable <;> assumption

theorem C11_copyFrom_pruneE_nullable_full_false : ¬ PGT.Proofs.ExclusionPruneEmbed.copyFrom_pruneE_nullable_full :=
  PGT.Proofs.ExclusionPruneNullable.copyFrom_pruneE_nullable_full_false

theorem C11_sibling_known_not_literal : type_of% PGT.Proofs.ExclusionPruneNullable.Example.sibling_known_not_literal :=
  PGT.Proofs.ExclusionPruneNullable.Example.sibling_known_not_literal

end PGT.Props.C11
