import PGT.Props.C11_paths
import PGT.Proofs.ExclusionPruneEmbed
/-
C11, continued – exclusion is surgical on the IR also for trees WITH embedded fields (proofs: `Proofs/ExclusionPruneEmbed.lean`).

`C11_exclusion_prunes_root` needed "no embedded field in the tree". With embedded fields the build differs: the fields of an
embedded message are built under the path of the EMBEDDING message and spliced into its field list, and the oneof names of a
by-value embedded message are promoted to the embedding message's `oneOfNames`, computed from the SURVIVING fields. `pruneE`
prunes as `prune` does and recomputes `oneOfNames` of every message with the build's own formula (`reNames`). Then: with path `p`
added to `exclude_fields` (addressing by path only, `typeFree`), the build of a root whose name is not `p` yields `pruneE p m`
(`C11_exclusion_prunesE_root`, no hypothesis on embedded fields, every depth); `p` = the path of the embedding message itself
addresses its embedded fields (`C11_exclusion_embedded_itself`); a name leaves `oneOfNames` exactly when it is promoted and
every field carrying it is removed (`C11_oneOfNames_lost`); schema and CopyTo of `pruneE` are those of `prune` (they never read
`oneOfNames`); CopyFrom agrees off the excluded Go fields and the holders of promoted groups none of whose branches survive
(`C11_copyFrom_pruneE_deep`). Open: CopyFrom for children of NULLABLE embedded messages (`copyFrom_pruneE_nullable_full`; the
unadorned statement is refuted by `C11_nullable_embed_allocates`: the removed block may be the one that allocates the parent).
-/
namespace PGT.Props.C11
open PGT PGT.Proofs.BuildErrors PGT.Proofs.PathUnique PGT.Proofs.ExclusionPrune PGT.Proofs.ExclusionPruneEmbed

/-- **Exclusion prunes the IR at every depth, embedded fields included (view level).** `V'` excludes every occurrence
whose path is `p` and agrees with `V` at every other occurrence of the tree. For a message whose own path is not `p`: if
the build under `V` succeeds with `m`, the build under `V'` succeeds with `pruneE p m`. For a field occurrence that is
not an embedded field with `Keys.path = p`: the block under `V'` is the pruned block. -/
theorem C11_build_pruneE {V V' : CfgView} (hg : SameGlobals V V') (req : Request) (c : PCfg) (hs : c.srt = V.sort)
    (hO : OwnOK req c.own)
    (hon : ∀ k : Keys, k.path = c.p → V'.excluded k = true) : ∀ n : Nat,
    (∀ desc isRoot path m, (ctxOf desc isRoot path).path ≠ c.p →
        (∀ k ∈ ctxKeys n req (ctxOf desc isRoot path), k.path ≠ c.p → AgreeAt V V' k) →
        buildMessage n V req desc isRoot path = .ok m →
        buildMessage n V' req desc isRoot path = .ok (pruneE c (oneOfNames desc) m)) ∧
    (∀ ctx f keys goType isMap isRep hasComment r, (f.embed = true → keys.path ≠ c.p) →
        (∀ k ∈ occKeys n req keys f.typeName isMap, k.path ≠ c.p → AgreeAt V V' k) →
        buildFieldCore n V req ctx f keys goType isMap isRep hasComment = .ok r →
        buildFieldCore n V' req ctx f keys goType isMap isRep hasComment = .ok (pruneFsE c r)) := by
  intros; apply PGT.Proofs.ExclusionPruneEmbed.build_pruneE <;> assumption

/-- **Exclusion prunes the IR at every depth, in trees WITH embedded fields (configuration level, any message context).**
`p` is one more entry of `exclude_fields`; `p` addresses by path only (`typeFree`); `p` is not the path of the message
itself (for a root: `p` is not the root's name - that key addresses the root's embedded fields, see
`exclusion_embedded_itself`); the build WITHOUT the exclusion succeeds with IR `m`. Then the build WITH the exclusion
succeeds, and its IR is `pruneE p m`: exactly the nodes whose recorded path is `p` are removed, at every depth - among
the children spliced in from embedded messages as well as among ordinary fields - and `oneOfNames` of every message is
what `BuildMessage` computes over the surviving fields. Nothing else changes. -/
theorem C11_exclusion_prunesE_ctx (cfg : Config) (p : String) (req : Request) (fuel : Nat) (desc : MsgD) (isRoot : Bool)
    (path : String) (m : Msg)
    (hpath : (ctxOf desc isRoot path).path ≠ p)
    (htn : typeFree p (ctxKeys fuel req (ctxOf desc isRoot path)) = true)
    (h : buildMessage fuel (viewOf cfg) req desc isRoot path = .ok m) :
    buildMessage fuel (viewOf { cfg with excludeFields := p :: cfg.excludeFields }) req desc isRoot path =
      .ok (pruneE (pcfg cfg req p) (oneOfNames desc) m) := by
  intros; apply PGT.Proofs.ExclusionPruneEmbed.exclusion_prunesE_ctx <;> assumption

/-- the generator's entry point for one selected root: `p` is not the root's name -/
theorem C11_exclusion_prunesE_root (cfg : Config) (p : String) (req : Request) (desc : MsgD) (m : Msg)
    (hpath : desc.name ≠ p)
    (htn : typeFree p (ctxKeys (defaultFuel req) req (rootCtx desc)) = true)
    (h : buildRoot cfg req desc = .ok (some m)) :
    buildRoot { cfg with excludeFields := p :: cfg.excludeFields } req desc =
      .ok (some (pruneE (pcfg cfg req p) (oneOfNames desc) m)) := by
  intros; apply PGT.Proofs.ExclusionPruneEmbed.exclusion_prunesE_root <;> assumption

/-- **Excluding the path of the embedding message excludes exactly its embedded fields.** An embedded field has the
`Keys.path` of the message that embeds it, so the key `p` = path of the message (for a root: its name) addresses all its
embedded fields and - `p` addressing by path only - nothing else in the tree: the build with `p` excluded is the message
built from its non-embedded declared fields only (the blocks of the other fields, all their nodes and options, are those
of the build without the exclusion; `info` is computed as always, in particular `oneOfNames` over the surviving fields and
`isEmpty` from the descriptor: no placeholder appears). No success hypothesis is needed. -/
theorem C11_exclusion_embedded_itself (cfg : Config) (p : String) (req : Request) (n : Nat) (desc : MsgD) (isRoot : Bool)
    (path : String) (hp : (ctxOf desc isRoot path).path = p)
    (htn : typeFree p (ctxKeys (n + 2) req (ctxOf desc isRoot path)) = true) :
    buildMessage (n + 2) (viewOf { cfg with excludeFields := p :: cfg.excludeFields }) req desc isRoot path =
      msgStep (viewOf cfg) desc isRoot path
        (collectFields ((desc.fields.filter fun f => !f.embed).map
          fun f => fieldCall (n + 1) (viewOf cfg) req (ctxOf desc isRoot path) f)) := by
  intros; apply PGT.Proofs.ExclusionPruneEmbed.exclusion_embedded_itself <;> assumption

/-- the root form of `exclusion_embedded_itself`: `p` is the root's name -/
theorem C11_exclusion_embedded_itself_root (cfg : Config) (req : Request) (desc : MsgD)
    (htn : typeFree desc.name (ctxKeys (defaultFuel req) req (rootCtx desc)) = true)
    (hsel : cfg.types.contains desc.name = true) :
    buildRoot { cfg with excludeFields := desc.name :: cfg.excludeFields } req desc =
      (match msgStep (viewOf cfg) desc true ""
          (collectFields ((desc.fields.filter fun f => !f.embed).map
            fun f => fieldCall (defaultFuel req - 1) (viewOf cfg) req (rootCtx desc) f)) with
        | .error e => .error e
        | .ok m => .ok (some m)) := by
  intros; apply PGT.Proofs.ExclusionPruneEmbed.exclusion_embedded_itself_root <;> assumption

/-- **`oneOfNames` of the pruned message, as a set**: the own names of the message (all of them, whether or not a branch
survives) and the promoted groups that keep a surviving branch -/
theorem C11_mem_oneOfNames_pruneE (c : PCfg) (own : List String) (m : Msg) (n : String) :
    n ∈ (pruneE c own m).info.oneOfNames ↔
      n ∈ own ∨ ∃ f ∈ m.fields, dropped c.p f.info = false ∧ Carries n f := by
  intros; apply PGT.Proofs.ExclusionPruneEmbed.mem_oneOfNames_pruneE <;> assumption

/-- no name is gained -/
theorem C11_oneOfNames_pruneE_subset (c : PCfg) (own : List String) (m : Msg)
    (hm : m.info.oneOfNames = reNames c.srt own m.fields) (n : String)
    (h : n ∈ (pruneE c own m).info.oneOfNames) : n ∈ m.info.oneOfNames := by
  intros; apply PGT.Proofs.ExclusionPruneEmbed.oneOfNames_pruneE_subset <;> assumption

/-- **which names are lost**: a name of the unpruned message is missing in the pruned one iff it is NOT an own name of
the message (it was promoted from a message embedded by value) and every field that carries it is removed -/
theorem C11_oneOfNames_lost (c : PCfg) (own : List String) (m : Msg) (hm : m.info.oneOfNames = reNames c.srt own m.fields)
    (n : String) :
    (n ∈ m.info.oneOfNames ∧ n ∉ (pruneE c own m).info.oneOfNames) ↔
      n ∉ own ∧ (∃ f ∈ m.fields, Carries n f) ∧ ∀ f ∈ m.fields, Carries n f → dropped c.p f.info = true := by
  intros; apply PGT.Proofs.ExclusionPruneEmbed.oneOfNames_lost <;> assumption

/-- every built message stores `oneOfNames` = the build's formula over its own fields -/
theorem C11_built_oneOfNames (n : Nat) (V : CfgView) (req : Request) (desc : MsgD) (isRoot : Bool) (path : String) (m : Msg)
    (h : buildMessage n V req desc isRoot path = .ok m) :
    m.info.oneOfNames = reNames V.sort (oneOfNames desc) m.fields := by
  intros; apply PGT.Proofs.ExclusionPruneEmbed.built_oneOfNames <;> assumption

/-- **consistency with `ExclusionPrune`**: on the IR of a tree without embedded fields, `pruneE` is `prune` -/
theorem C11_pruneE_eq_prune_noEmbed (cfg : Config) (p : String) (req : Request) (fuel : Nat) (desc : MsgD) (isRoot : Bool)
    (path : String) (m : Msg)
    (hne : noEmbedFields desc.fields = true) (hner : NoEmbedReq req = true)
    (hpath : (ctxOf desc isRoot path).path ≠ p)
    (htn : typeFree p (ctxKeys fuel req (ctxOf desc isRoot path)) = true)
    (h : buildMessage fuel (viewOf cfg) req desc isRoot path = .ok m) :
    pruneE (pcfg cfg req p) (oneOfNames desc) m = prune p m := by
  intros; apply PGT.Proofs.ExclusionPruneEmbed.pruneE_eq_prune_noEmbed <;> assumption

/-- **`Copy<T>ToTerraform` of `pruneE p m` is that of `prune p m`** (the emitted CopyTo code does not depend on `oneOfNames`) -/
theorem C11_copyTo_pruneE (c : PCfg) (own : List String) (m : Msg) (obj : GoVal) (tf : TfVal) :
    copyTo (pruneE c own m) obj tf = copyTo (prune c.p m) obj tf := by
  intros; apply PGT.Proofs.ExclusionPruneEmbed.copyTo_pruneE <;> assumption

theorem C11_schemaOf_pruneE (c : PCfg) (own : List String) (m : Msg) : schemaOf (pruneE c own m) = schemaOf (prune c.p m) := by
  intros; apply PGT.Proofs.ExclusionPruneEmbed.schemaOf_pruneE <;> assumption

/-- **the excluded field has no attribute in the schema** (any depth: `fs` is the field list that contains it) -/
theorem C11_schema_excluded_absentE (c : PCfg) (fs : List Field) (hs : attrsSeparate c.p fs = true) :
    ∀ k ∈ droppedAttrs c.p fs, (schemaAttrs (pruneFsE c fs)).lookup k = none := by
  intros; apply PGT.Proofs.ExclusionPruneEmbed.schema_excluded_absentE <;> assumption

/-- **`Copy<T>FromTerraform` of the pruned message, excluded field at any depth, messages embedded BY VALUE anywhere**
(`plainFs`: no node is a child of a NULLABLE embedded message; `ooOkFs` / `hm`: `oneOfNames` stored as built). Whenever
the converter of `m` succeeds, the converter of `pruneE p m` succeeds on the same inputs, and the two structs agree
except in the Go fields the blocks of the removed nodes assign and in the holders of the removed oneof branches. -/
theorem C11_copyFrom_pruneE_deep (ov : List (String × String)) (c : PCfg) (own : List String) (m : Msg) (tf : TfVal)
    (obj : GoVal) (r1 : FromResult) (hpl : plainFs m.fields = true) (hoo : ooOkFs c m.fields = true)
    (hm : m.info.oneOfNames = reNames c.srt own m.fields) (h : copyFrom ov m tf obj = .ok r1) :
    ∃ r2, copyFrom ov (pruneE c own m) tf obj = .ok r2 ∧
      OffG (allDroppedGo c.p m.fields ++ allDroppedOO c.p m.fields) r1.obj r2.obj := by
  intros; apply PGT.Proofs.ExclusionPruneEmbed.copyFrom_pruneE_deep <;> assumption

/-- **every IR built from any tree (embedded fields or not) stores, for every nested message, `oneOfNames` = the build's
formula over the stored field list** -/
theorem C11_built_ooOk (c : PCfg) (V : CfgView) (hs : c.srt = V.sort) (req : Request) (hO : OwnOK req c.own) : ∀ n : Nat,
    (∀ desc isRoot path m, buildMessage n V req desc isRoot path = .ok m → ooOkFs c m.fields = true) ∧
    (∀ ctx f keys goType isMap isRep hasComment r,
        buildFieldCore n V req ctx f keys goType isMap isRep hasComment = .ok r → ooOkFs c r = true) := by
  intros; apply PGT.Proofs.ExclusionPruneEmbed.built_ooOk <;> assumption

/-- **C11 with embedded fields, excluded field at any depth.** `cfg'` = `cfg` plus the path `p` in `exclude_fields`; the
tree may contain embedded fields anywhere (by value or by pointer, nested in each other); `p` addresses by path only and is
not the root's name; the root builds to `m` without the exclusion. Then
* it builds to `pruneE p m` with the exclusion;
* `oneOfNames` of the root: no name is gained, and a name is lost exactly when it is not an own name of the root and every
  field carrying it is removed;
* `GenSchema`: the schema of `pruneE p m` is that of `prune p m`;
* `CopyToTerraform` (no condition on the embedded fields; side conditions of `copyTo_prune_deep`): succeeds whenever the
  converter without the exclusion does, results agree except under the attributes of the removed nodes;
* `CopyFromTerraform` (no node of `m` is a child of a NULLABLE embedded message - `plainFs`, decidable on `m`; messages
  embedded by value are fine): succeeds whenever the converter without the exclusion does, results agree except in the
  Go fields the removed blocks assign and the holders of the removed oneof branches. -/
theorem C11_exclusion_surgical_deepE (cfg : Config) (p : String) (req : Request) (desc : MsgD) (m : Msg)
    (hpath : desc.name ≠ p)
    (htn : typeFree p (ctxKeys (defaultFuel req) req (rootCtx desc)) = true)
    (hb : buildRoot cfg req desc = .ok (some m)) :
    buildRoot { cfg with excludeFields := p :: cfg.excludeFields } req desc =
      .ok (some (pruneE (pcfg cfg req p) (oneOfNames desc) m)) ∧
    (∀ n, n ∈ (pruneE (pcfg cfg req p) (oneOfNames desc) m).info.oneOfNames → n ∈ m.info.oneOfNames) ∧
    (∀ n, (n ∈ m.info.oneOfNames ∧ n ∉ (pruneE (pcfg cfg req p) (oneOfNames desc) m).info.oneOfNames) ↔
      n ∉ oneOfNames desc ∧ (∃ f ∈ m.fields, Carries n f) ∧ ∀ f ∈ m.fields, Carries n f → dropped p f.info = true) ∧
    schemaOf (pruneE (pcfg cfg req p) (oneOfNames desc) m) = schemaOf (prune p m) ∧
    (distinctNames m.fields = true → deepOkFs p m.fields = true → ∀ obj tf r1, copyTo m obj tf = .ok r1 →
      ∃ r2, copyTo (pruneE (pcfg cfg req p) (oneOfNames desc) m) obj tf = .ok r2 ∧
        OffV (allDroppedAttrs p m.fields) r1.tf r2.tf) ∧
    (plainFs m.fields = true → ∀ ov tf obj r1, copyFrom ov m tf obj = .ok r1 →
      ∃ r2, copyFrom ov (pruneE (pcfg cfg req p) (oneOfNames desc) m) tf obj = .ok r2 ∧
        OffG (allDroppedGo p m.fields ++ allDroppedOO p m.fields) r1.obj r2.obj) := by
  intros; apply PGT.Proofs.ExclusionPruneEmbed.exclusion_surgical_deepE <;> assumption

theorem C11_exclusion_prunes_embed_full_holds : PGT.Proofs.ExclusionPruneEmbed.exclusion_prunes_embed_full :=
  PGT.Proofs.ExclusionPruneEmbed.exclusion_prunes_embed_full_holds

/-- plain `prune` is wrong once the last branch of a promoted group is excluded: the recomputation of `oneOfNames` is needed -/
theorem C11_recompute_needed : type_of% PGT.Proofs.ExclusionPruneEmbed.Example.recompute_needed :=
  PGT.Proofs.ExclusionPruneEmbed.Example.recompute_needed

/-- `pruneE` is wrong for `p` = the root's own name (that key addresses the root's embedded fields): the two theorems are needed -/
theorem C11_ownPath_needed : type_of% PGT.Proofs.ExclusionPruneEmbed.Example.ownPath_needed :=
  PGT.Proofs.ExclusionPruneEmbed.Example.ownPath_needed

/-- CopyFrom of the pruned IR may differ at the PARENT pointer of a nullable embedded message (the removed block allocated it) -/
theorem C11_nullable_embed_allocates : type_of% PGT.Proofs.ExclusionPruneEmbed.Example.nullable_embed_allocates :=
  PGT.Proofs.ExclusionPruneEmbed.Example.nullable_embed_allocates

end PGT.Props.C11
