import PGT.Props.C07
import PGT.Proofs.BuiltFrom
/-
C07, continued – the CopyFrom side for every root the generator BUILDS (proofs: `Proofs/BuiltFrom.lean`): the hypotheses `g ≠ ""`,
`GroupOK` and "no placeholder among the fields" of `C07_from_all_null` / `C07_from_one_known` are gone – the group being listed is
derived from the build (`GroupsListed`), the separation of holders from other Go fields from the Boolean `hygieneB`, and the
placeholder hypothesis was not needed (a built placeholder has no oneof name; it is NOT guaranteed absent:
`C07_built_placeholder_sibling`).
-/
namespace PGT.Props.C07
open PGT PGT.Spec PGT.SchemaTyped PGT.Proofs.BuildErrors PGT.Proofs.PathUnique PGT.Proofs.ExclusionPrune PGT.Proofs.BuiltWF PGT.Proofs.BuiltFrom
open PGT.PriorIndep PGT.OrderIndep

/-- **C07 (CopyFrom) for every root the generator builds: all branch attributes of a group null or unknown ⇒ the oneof is
nil – whatever the target held.** Hypotheses: the root is built, has no gap (`gapFreeBs`) and name hygiene (`hygieneB`);
`g` is one of its groups; value side: no attribute of a branch of `g` is known. Every Terraform object (also malformed
ones), every prior struct. -/
theorem C07_built_root_from_all_null (ov : List (String × String)) (cfg : Config) (req : Request) (desc : MsgD) (m : Msg)
    (hb : buildRoot cfg req desc = .ok (some m)) (hg : gapFreeBs m.fields = true) (hh : hygieneB m = true)
    (u n : Bool) (attrs : Option (List (String × TfVal))) (atys : Option (List (String × TfTy)))
    (prior : List (String × GoVal)) (g : String) (hgl : g ∈ m.info.oneOfNames)
    (hnull : ∀ f ∈ m.fields, f.info.oneOfName = g → ∀ a, (attrs.getD []).lookup f.info.nameSnake = some a → a.isKnown = false)
    (r : FromResult) (h : copyFrom ov m (.obj u n attrs atys) (.struct prior) = .ok r) :
    r.obj.field? g = some (.iface none) := by
  intros; apply PGT.Proofs.BuiltFrom.C07_built_root_from_all_null <;> assumption

/-- **C07 (CopyFrom) for every root the generator builds: exactly one branch known and non-null ⇒ the oneof holds that
branch.** `f0` is a field of the root with a oneof name (on a root without gap: a scalar / message branch, its group listed);
value side: its attribute is known, non-null and of the right Go type, no other branch attribute of the group is known. -/
theorem C07_built_root_from_one_known (ov : List (String × String)) (cfg : Config) (req : Request) (desc : MsgD) (m : Msg)
    (hb : buildRoot cfg req desc = .ok (some m)) (hg : gapFreeBs m.fields = true) (hh : hygieneB m = true)
    (u n : Bool) (attrs : Option (List (String × TfVal))) (atys : Option (List (String × TfTy)))
    (prior : List (String × GoVal))
    (f0 : Field) (hf0 : f0 ∈ m.fields) (ho0 : f0.info.oneOfName ≠ "") (hk0 : BranchKnown attrs f0)
    (hothers : ∀ f ∈ m.fields, f.info.oneOfName = f0.info.oneOfName →
      f.info.name ≠ f0.info.name ∨ f.info.oneOfType ≠ f0.info.oneOfType →
      ∀ a, (attrs.getD []).lookup f.info.nameSnake = some a → a.isKnown = false)
    (r : FromResult) (h : copyFrom ov m (.obj u n attrs atys) (.struct prior) = .ok r) :
    ∃ t, r.obj.field? f0.info.oneOfName = some (.iface (some (lastSegment f0.info.oneOfType, f0.info.name, t))) := by
  intros; apply PGT.Proofs.BuiltFrom.C07_built_root_from_one_known <;> assumption

theorem C07_built_roots_from_all_null (ov : List (String × String)) (cfg : Config) (req : Request) (m : Msg)
    (hm : m ∈ (buildRoots cfg req).1) (hg : gapFreeBs m.fields = true) (hh : hygieneB m = true)
    (u n : Bool) (attrs : Option (List (String × TfVal))) (atys : Option (List (String × TfTy)))
    (prior : List (String × GoVal)) (g : String) (hgl : g ∈ m.info.oneOfNames)
    (hnull : ∀ f ∈ m.fields, f.info.oneOfName = g → ∀ a, (attrs.getD []).lookup f.info.nameSnake = some a → a.isKnown = false)
    (r : FromResult) (h : copyFrom ov m (.obj u n attrs atys) (.struct prior) = .ok r) :
    r.obj.field? g = some (.iface none) := by
  intros; apply PGT.Proofs.BuiltFrom.C07_built_roots_from_all_null <;> assumption

theorem C07_built_roots_from_one_known (ov : List (String × String)) (cfg : Config) (req : Request) (m : Msg)
    (hm : m ∈ (buildRoots cfg req).1) (hg : gapFreeBs m.fields = true) (hh : hygieneB m = true)
    (u n : Bool) (attrs : Option (List (String × TfVal))) (atys : Option (List (String × TfTy)))
    (prior : List (String × GoVal))
    (f0 : Field) (hf0 : f0 ∈ m.fields) (ho0 : f0.info.oneOfName ≠ "") (hk0 : BranchKnown attrs f0)
    (hothers : ∀ f ∈ m.fields, f.info.oneOfName = f0.info.oneOfName →
      f.info.name ≠ f0.info.name ∨ f.info.oneOfType ≠ f0.info.oneOfType →
      ∀ a, (attrs.getD []).lookup f.info.nameSnake = some a → a.isKnown = false)
    (r : FromResult) (h : copyFrom ov m (.obj u n attrs atys) (.struct prior) = .ok r) :
    ∃ t, r.obj.field? f0.info.oneOfName = some (.iface (some (lastSegment f0.info.oneOfType, f0.info.name, t))) := by
  intros; apply PGT.Proofs.BuiltFrom.C07_built_roots_from_one_known <;> assumption

/-- the holder of a listed group after `Copy<T>FromTerraform` on a built message without gap and with name hygiene: nil
unless a branch with a known attribute assigned it – then the wrapper of such a branch -/
theorem C07_built_holder (fuel : Nat) (V : CfgView) (req : Request) (desc : MsgD) (isRoot : Bool) (path : String)
    (m : Msg) (hbm : buildMessage fuel V req desc isRoot path = .ok m)
    (hg : gapFreeBs m.fields = true) (hh : hygieneB m = true)
    (ov : List (String × String)) (u n : Bool) (attrs : Option (List (String × TfVal)))
    (atys : Option (List (String × TfTy))) (prior : List (String × GoVal)) (g : String) (hgl : g ∈ m.info.oneOfNames)
    (r : FromResult) (h : copyFrom ov m (.obj u n attrs atys) (.struct prior) = .ok r) :
    (r.obj.field? g = some (.iface none) ∧ ∀ f ∈ m.fields, ¬ (f.info.oneOfName = g ∧ BranchKnown attrs f)) ∨
    (∃ f ∈ m.fields, f.info.oneOfName = g ∧ (∃ a, (attrs.getD []).lookup f.info.nameSnake = some a ∧ a.isKnown = true) ∧
      ∃ t, r.obj.field? g = some (.iface (some (lastSegment f.info.oneOfType, f.info.name, t)))) := by
  intros; apply PGT.Proofs.BuiltFrom.built_holder <;> assumption

theorem C07_built_placeholder_sibling : type_of% PGT.Proofs.BuiltFrom.Witness.w_placeholderSibling := PGT.Proofs.BuiltFrom.Witness.w_placeholderSibling
theorem C07_built_sanity : type_of% @PGT.Proofs.BuiltFrom.Sanity.C07_sanity := @PGT.Proofs.BuiltFrom.Sanity.C07_sanity

end PGT.Props.C07
