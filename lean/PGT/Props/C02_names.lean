import PGT.Props.C02
import PGT.Proofs.SameNames
/-
C02, continued – "schema, CopyTo and CopyFrom agree on the name and the nesting everywhere" as theorems about the three model
functions, for every IR (proofs: `Proofs/SameNames.lean`). So far this agreement was established only by an external oracle on the
implementation. `nameTree fs` is the tree of attribute names of an IR (nested under object / list-of-object / map-of-object
fields). Schema: one entry per field, in order, named `nameSnake`, nested attributes those of `sub` (`C02_schemaAttrs_keys`,
`C02_schema_exactly_one`, `C02_sTree_schemaAttrs`: the schema's name tree IS `nameTree` plus the injected leaves). CopyTo: reads the
type under the field's own key only (`C02_copyToField_atys_congr`), creates no key that is not a field's name and removes none
(`C02_copyToFields_keys_sub`, `_exact`, `_fresh`), and on the schema-typed empty object the tree of keys it writes is `nameTree`
(`C02_copyTo_tree`, every source value). CopyFrom: depends on the attribute map only through the lookups along `nameTree`, at
every depth, with NO hypothesis (`C02_copyFrom_tree_congr`), really reads its own key (`C02_copyFromField_reads_own_key`), and
a change under one key changes only the Go fields the fields of that name touch (`C02_copyFromFields_changes_only_touch`).
`C02_same_key` / `C02_same_tree` / `C02_nesting_same` combine the three; `C02_embed_flattens`: an embedded field contributes
the fields of its message to the embedding message's own list (no nested attribute).
-/
namespace PGT.Props.C02
open PGT PGT.Spec PGT.SchemaTyped PGT.SameNames PGT.OrderIndep

/-- **one schema entry per field, in order, keyed by the field's `nameSnake`** -/
theorem C02_schemaAttrs_keys : ∀ fs : List Field, (schemaAttrs fs).map (·.1) = fs.map (·.info.nameSnake) := by
  intros; apply PGT.SameNames.schemaAttrs_keys <;> assumption

/-- **nesting**: the entry of an object / list-of-objects / map-of-objects field holds the schema of the nested message's
fields (`schemaAttrs sub`, then the injected attributes) as nested attributes; every other entry holds none -/
theorem C02_schemaField_nested (f : Field) :
    nestedOf (schemaField f).2 = if isNest f.info.kind then schemaAttrs f.sub ++ injectedOf f.msg else [] := by
  intros; apply PGT.SameNames.schemaField_nested <;> assumption

/-- **exactly one attribute per field**: with pairwise distinct names, the name of a field occurs exactly once among the
keys of the schema of its message, and the entry found under it is the field's own -/
theorem C02_schema_exactly_one (fs : List Field) (extra : List (String × SAttr)) (hnd : (fs.map (·.info.nameSnake)).Nodup)
    (f : Field) (hf : f ∈ fs) :
    ((schemaAttrs fs).map (·.1)).count f.info.nameSnake = 1 ∧
    (schemaAttrs fs ++ extra).lookup f.info.nameSnake = some (schemaField f).2 ∧
    (schemaField f).2.ty = schemaTy f := by
  intros; apply PGT.SameNames.schema_exactly_one <;> assumption

/-- a key that is no field's name (and no extra attribute's) is not in the schema -/
theorem C02_schema_no_other_key (fs : List Field) (key : String) (h : key ∉ fs.map (·.info.nameSnake)) :
    (schemaAttrs fs).lookup key = none := by
  intros; apply PGT.SameNames.schema_no_other_key <;> assumption

/-- **the schema's attribute tree is the name tree of the IR** (with the injected attributes of nested messages as
additional leaves) -/
theorem C02_sTree_schemaAttrs : ∀ fs : List Field, sTree (schemaAttrs fs) = nameTreeG true fs := by
  intros; apply PGT.SameNames.sTree_schemaAttrs <;> assumption

/-- **the block of a field reads the attribute types only at the field's `nameSnake`**: two type maps that agree at that
key give the same outcome (result state, diagnostics, hooks, panic / stuck) - all inputs -/
theorem C02_copyToField_atys_congr (f : Field) (obj : GoVal) (atys atys' : Option (List (String × TfTy))) (st : ToSt)
    (h : (atys.getD []).lookup f.info.nameSnake = (atys'.getD []).lookup f.info.nameSnake) :
    copyToField f obj atys st = copyToField f obj atys' st := by
  intros; apply PGT.SameNames.copyToField_atys_congr <;> assumption

/-- … for the blocks of a message: two type maps that agree at the names of the fields give the same outcome -/
theorem C02_copyToFields_atys_congr : ∀ (fs : List Field) (obj : GoVal) (atys atys' : Option (List (String × TfTy))) (st : ToSt),
    (∀ f ∈ fs, (atys.getD []).lookup f.info.nameSnake = (atys'.getD []).lookup f.info.nameSnake) →
    copyToFields fs obj atys st = copyToFields fs obj atys' st := by
  intros; apply PGT.SameNames.copyToFields_atys_congr <;> assumption

/-- **no other key is created**: every key of the attribute map after the blocks of `fs` was there before or is the
`nameSnake` of a field of `fs` (all inputs) -/
theorem C02_copyToFields_keys_sub : ∀ (fs : List Field) (obj : GoVal) (atys : Option (List (String × TfTy))) (st st' : ToSt),
    copyToFields fs obj atys st = .ok st' →
    ∀ key, key ∈ keys st'.attrs → key ∈ keys st.attrs ∨ key ∈ fs.map (·.info.nameSnake) := by
  intros; apply PGT.SameNames.copyToFields_keys_sub <;> assumption

/-- **CopyTo writes exactly the keys `fs.map nameSnake`**: when every field has its attribute type in the target and the
type fits the kind, the key set after the run is `keys before ∪ fs.map nameSnake` -/
theorem C02_copyToFields_keys_exact : ∀ (fs : List Field) (obj : GoVal) (atys : Option (List (String × TfTy))) (st st' : ToSt),
    (∀ f ∈ fs, ∃ ty, (atys.getD []).lookup f.info.nameSnake = some ty ∧ TyFits f.info ty) →
    copyToFields fs obj atys st = .ok st' →
    ∀ key, key ∈ keys st'.attrs ↔ key ∈ keys st.attrs ∨ key ∈ fs.map (·.info.nameSnake) := by
  intros; apply PGT.SameNames.copyToFields_keys_exact <;> assumption

/-- … and in order: on a target that holds none of the names (e.g. the empty object), with pairwise distinct names, the
run appends one binding per field, in field order -/
theorem C02_copyToFields_keys_fresh : ∀ (fs : List Field) (obj : GoVal) (atys : Option (List (String × TfTy))) (st st' : ToSt),
    (∀ f ∈ fs, ∃ ty, (atys.getD []).lookup f.info.nameSnake = some ty ∧ TyFits f.info ty) →
    (fs.map (·.info.nameSnake)).Nodup → (∀ n ∈ fs.map (·.info.nameSnake), n ∉ keys st.attrs) →
    copyToFields fs obj atys st = .ok st' →
    ∃ new : List (String × TfVal), st'.attrs = st.attrs ++ new ∧ keys new = fs.map (·.info.nameSnake) := by
  intros; apply PGT.SameNames.copyToFields_keys_fresh <;> assumption

/-- **each field's key is present or its diagnostic is** (all inputs; `copyToFields_diag_half` of ToTotalAny.lean, on
keys): after a completed run, a field whose attribute type is missing has its `writeMissing` diagnostic; every other
field's `nameSnake` is a key of the result or the field has its `writeConv` diagnostic -/
theorem C02_copyToFields_key_or_diag (fs : List Field) (obj : GoVal) (atys : Option (List (String × TfTy))) (st st' : ToSt)
    (h : copyToFields fs obj atys st = .ok st') (f : Field) (hf : f ∈ fs) :
    ((atys.getD []).lookup f.info.nameSnake = none → Diag.writeMissing f.info.path ∈ st'.diags) ∧
    (∀ ty, (atys.getD []).lookup f.info.nameSnake = some ty →
      f.info.nameSnake ∈ keys st'.attrs ∨ Diag.writeConv f.info.path f.info.tf.type ∈ st'.diags) := by
  intros; apply PGT.SameNames.copyToFields_key_or_diag <;> assumption

/-- **the whole converter, schema-typed empty target**: every completed run of `Copy<T>ToTerraform` on the object that
carries the schema's attribute types and no values returns an object whose attribute keys are, at every depth, those of
the name tree of the message - for every source value; IR with distinct names per level and `repeated` flags that go with
the kinds (`TreeWFs`, implied by `IRWFs`) -/
theorem C02_copyTo_tree (m : Msg) (obj : GoVal) (u n : Bool) (r : ToResult) (hwf : TreeWFs m.fields)
    (h : copyTo m obj (.obj u n none (some (attrTypesOf m))) = .ok r) :
    ∃ as, r.tf = .obj false false (some as) (some (attrTypesOf m)) ∧ KeysTree (nameTree m.fields) as ∧
      keys as = m.fields.map (·.info.nameSnake) := by
  intros; apply PGT.SameNames.copyTo_tree <;> assumption

/-- **the block of a field reads the attribute map only at the field's `nameSnake`**: two attribute maps that agree at
that key give the same outcome (struct, diagnostics, hooks, panic / stuck) - all inputs -/
theorem C02_copyFromField_attrs_congr (ov : List (String × String)) (f : Field) (attrs attrs' : Option (List (String × TfVal)))
    (st : FromSt) (h : (attrs.getD []).lookup f.info.nameSnake = (attrs'.getD []).lookup f.info.nameSnake) :
    copyFromField ov f attrs st = copyFromField ov f attrs' st := by
  intros; apply PGT.SameNames.copyFromField_attrs_congr <;> assumption

/-- the key matters (every kind but custom): without a value under the field's name the block reports `readMissing` for
the field's path; with a nil value under it, `readConv` - two maps that differ only at `nameSnake` are told apart -/
theorem C02_copyFromField_reads_own_key (ov : List (String × String)) (f : Field) (rest : List (String × TfVal)) (st : FromSt)
    (hk : f.info.kind ≠ .custom) (hrest : rest.lookup f.info.nameSnake = none) :
    copyFromField ov f (some rest) st = .ok (st.diag (.readMissing f.info.path)) ∧
    copyFromField ov f (some ((f.info.nameSnake, .nilv) :: rest)) st = .ok (st.diag (.readConv f.info.path f.info.tf.valueType)) ∧
    copyFromField ov f (some rest) st ≠ copyFromField ov f (some ((f.info.nameSnake, .nilv) :: rest)) st := by
  intros; apply PGT.SameNames.copyFromField_reads_own_key <;> assumption

/-- **CopyFrom reads exactly the name tree, at every depth**: two attribute maps that agree on `nameTree fs` (`AgreeOn`:
same value under every field's name, or - for message-valued fields - objects / lists / maps of objects that agree, in
turn, on the name tree of the nested message) give the same outcome: same struct, diagnostics, hook log, panic / stuck.
Every IR, every pair of maps, every start state; no distinctness hypothesis. -/
theorem C02_copyFromFields_tree_congr (ov : List (String × String)) : ∀ (fs : List Field)
    (attrs attrs' : Option (List (String × TfVal))) (st : FromSt),
    AgreeOn (nameTree fs) (attrs.getD []) (attrs'.getD []) →
    copyFromFields ov fs attrs st = copyFromFields ov fs attrs' st := by
  intros; apply PGT.SameNames.copyFromFields_tree_congr <;> assumption

/-- the whole converter reads the source object through the name tree of the message only -/
theorem C02_copyFrom_tree_congr (ov : List (String × String)) (m : Msg) (u n u' n' : Bool)
    (attrs attrs' : Option (List (String × TfVal))) (tys tys' : Option (List (String × TfTy))) (obj : GoVal)
    (h : AgreeOn (nameTree m.fields) (attrs.getD []) (attrs'.getD [])) :
    copyFrom ov m (.obj u n attrs tys) obj = copyFrom ov m (.obj u' n' attrs' tys') obj := by
  intros; apply PGT.SameNames.copyFrom_tree_congr <;> assumption

/-- **changing the attribute under one key changes at most the Go fields touched by the fields of that name** - every IR
without oneof branches among the children of nullable embedded messages (`EmbedOK`), children of nullable embedded
messages included; every pair of attribute maps, every start struct -/
theorem C02_copyFromFields_changes_only_touch (ov : List (String × String)) (k0 : String) (fs : List Field)
    (attrs attrs' : Option (List (String × TfVal))) (st t1 t2 : FromSt) (hst : IsStruct st.obj)
    (hagree : ∀ key, key ≠ k0 → (attrs.getD []).lookup key = (attrs'.getD []).lookup key)
    (hok : ∀ f ∈ fs, EmbedOK f.info)
    (h1 : copyFromFields ov fs attrs st = .ok t1) (h2 : copyFromFields ov fs attrs' st = .ok t2) :
    ∀ g, (∀ f ∈ fs, f.info.nameSnake = k0 → g ∉ touch f.info) → t1.obj.field? g = t2.obj.field? g := by
  intros; apply PGT.SameNames.copyFromFields_changes_only_touch <;> assumption

/-- **the Go field `f` touches depends on the attribute map only through the key `f.nameSnake`**: two attribute maps that
agree at that key (and differ arbitrarily elsewhere), same start struct, completed runs - the results hold the same value
in every Go field `f` touches that no field of another name touches.  Every IR with `EmbedOK`. -/
theorem C02_copyFromFields_own_key_touch (ov : List (String × String)) (fs : List Field) (f : Field)
    (attrs attrs' : Option (List (String × TfVal))) (st t1 t2 : FromSt) (hst : IsStruct st.obj)
    (hagree : (attrs.getD []).lookup f.info.nameSnake = (attrs'.getD []).lookup f.info.nameSnake)
    (hok : ∀ g ∈ fs, EmbedOK g.info)
    (h1 : copyFromFields ov fs attrs st = .ok t1) (h2 : copyFromFields ov fs attrs' st = .ok t2) :
    ∀ k ∈ touch f.info, (∀ g ∈ fs, g.info.nameSnake ≠ f.info.nameSnake → k ∉ touch g.info) →
      t1.obj.field? k = t2.obj.field? k := by
  intros; apply PGT.SameNames.copyFromFields_own_key_touch <;> assumption

/-- **an embedded message field contributes the fields of the embedded message, not a nested attribute**: when
`BuildField` succeeds on an embedded, message-typed, non-excluded field, its result is the list of the embedded message's
own fields (built with the embedding message's path as their base path) - unchanged when the Go field is a value,
marked with the parent pointer (`markEmbedded`: `parentIsOptionalEmbed`, the Go field to go through) when it is a
pointer. No `Field` for the embedded field itself exists, hence no attribute, no CopyTo / CopyFrom block and no node of
the name tree: the children are nodes of the embedding message's level. -/
theorem C02_embed_flattens (fuel : Nat) (cfg : CfgView) (req : Request) (ctx : MsgCtx) (f : FieldD) (keys : Keys)
    (goType : String) (isRep hasComment : Bool) (tf : TfType) (fs : List Field)
    (hex : cfg.excluded keys = false)
    (htf : getTerraformType cfg f false isRep goType keys.path = .ok tf) (hm : tf.isMessage = true)
    (he : f.embed = true)
    (h : buildFieldCore (fuel + 1) cfg req ctx f keys goType false isRep hasComment = .ok fs) :
    ∃ d m, req.findMessage f.typeName = some d ∧ buildMessage fuel cfg req d false keys.path = .ok m ∧
      (fs = m.fields ∨ ∃ full short, fs = m.fields.map (markEmbedded full short)) := by
  intros; apply PGT.SameNames.embed_flattens <;> assumption

/-- **C02, one field, three artefacts, one key.** For a field `f` of a message whose attribute names are pairwise distinct,
with `n = f.info.nameSnake` and `T = tysOf (schemaAttrs fs ++ extra)` the attribute types of the generated schema
(`extra`: the injected attributes):
1. *schema*: `n` occurs exactly once among the schema's keys; the entry under `n` is `schemaField f`, of type `schemaTy f`;
   the type map the schema hands to CopyTo holds `schemaTy f` under `n`;
2. *CopyTo reads the type under `n`*: on any type map that holds `schemaTy f` under `n` the block of `f` behaves as on `T`;
   if `n` is removed from the type map the block reports `writeMissing f.path` and writes nothing;
3. *CopyTo writes `n` and nothing else*: a completed block leaves every other key alone, and (when the `repeated` flag
   goes with the kind) stores a value under `n`; the value stored depends on the start state only through the value
   found under `n`;
4. *CopyFrom reads `n` and nothing else*: the block of `f` gives the same outcome on two attribute maps that agree at `n`;
   it tells a map without `n` from a map with a nil value under `n` (kinds other than custom). -/
theorem C02_same_key (fs : List Field) (extra : List (String × SAttr)) (hnd : (fs.map (·.info.nameSnake)).Nodup)
    (f : Field) (hf : f ∈ fs) :
    -- 1. schema
    (((schemaAttrs fs).map (·.1)).count f.info.nameSnake = 1 ∧
     (schemaAttrs fs ++ extra).lookup f.info.nameSnake = some (schemaField f).2 ∧
     (schemaField f).2.ty = schemaTy f ∧
     (tysOf (schemaAttrs fs ++ extra)).lookup f.info.nameSnake = some (schemaTy f)) ∧
    -- 2. CopyTo reads the attribute type under the same key
    ((∀ (obj : GoVal) (atys : List (String × TfTy)) (st : ToSt), atys.lookup f.info.nameSnake = some (schemaTy f) →
        copyToField f obj (some atys) st = copyToField f obj (some (tysOf (schemaAttrs fs ++ extra))) st) ∧
     (∀ (obj : GoVal) (atys : List (String × TfTy)) (st : ToSt), atys.lookup f.info.nameSnake = none →
        copyToField f obj (some atys) st = .ok (st.diag (.writeMissing f.info.path)))) ∧
    -- 3. CopyTo writes under the same key and nowhere else
    ((∀ (obj : GoVal) (st st' : ToSt), copyToField f obj (some (tysOf (schemaAttrs fs ++ extra))) st = .ok st' →
        (∀ key, key ≠ f.info.nameSnake → st'.attrs.lookup key = st.attrs.lookup key) ∧
        (KindRep f.info → ∃ v, st'.attrs = setKey f.info.nameSnake v st.attrs)) ∧
     (∀ (obj : GoVal) (atys : Option (List (String × TfTy))) (s1 s2 t1 t2 : ToSt),
        s1.attrs.lookup f.info.nameSnake = s2.attrs.lookup f.info.nameSnake →
        copyToField f obj atys s1 = .ok t1 → copyToField f obj atys s2 = .ok t2 →
        t1.attrs.lookup f.info.nameSnake = t2.attrs.lookup f.info.nameSnake)) ∧
    -- 4. CopyFrom reads under the same key and nowhere else
    ((∀ (ov : List (String × String)) (attrs attrs' : Option (List (String × TfVal))) (st : FromSt),
        (attrs.getD []).lookup f.info.nameSnake = (attrs'.getD []).lookup f.info.nameSnake →
        copyFromField ov f attrs st = copyFromField ov f attrs' st) ∧
     (f.info.kind ≠ .custom → ∀ (ov : List (String × String)) (rest : List (String × TfVal)) (st : FromSt),
        rest.lookup f.info.nameSnake = none →
        copyFromField ov f (some rest) st ≠ copyFromField ov f (some ((f.info.nameSnake, .nilv) :: rest)) st)) := by
  intros; apply PGT.SameNames.C02_same_key <;> assumption

/-- **C02, the nesting, three artefacts, one tree.** For a message whose IR has distinct names per level and `repeated`
flags that go with the kinds (`TreeWFs`; implied by `IRWFs`):
1. *schema*: the tree of attribute names of `GenSchema<T>` is the name tree of the IR with the injected attributes of
   nested messages as additional trailing leaves (`Ext`), and equal to it when no nested message has injected attributes;
2. *CopyTo*: every completed run on the schema-typed empty object returns an object whose keys are, at every depth, those
   of the name tree, in order (objects standing for nil pointers hold none) - every source value;
3. *CopyFrom*: two source objects whose attribute maps agree on the name tree (whatever they hold under other names at
   any depth, whatever attribute / element types they carry) give the same outcome - every target struct. -/
theorem C02_same_tree (m : Msg) (hwf : TreeWFs m.fields) :
    (sTree (schemaAttrs m.fields) = nameTreeG true m.fields ∧
     Ext (nameTree m.fields) (sTree (schemaAttrs m.fields)) ∧
     (NoNestedInjected m.fields → sTree (schemaAttrs m.fields) = nameTree m.fields)) ∧
    (∀ (obj : GoVal) (u n : Bool) (r : ToResult), copyTo m obj (.obj u n none (some (attrTypesOf m))) = .ok r →
      ∃ as, r.tf = .obj false false (some as) (some (attrTypesOf m)) ∧ KeysTree (nameTree m.fields) as ∧
        keys as = m.fields.map (·.info.nameSnake)) ∧
    (∀ (ov : List (String × String)) (u n u' n' : Bool) (attrs attrs' : Option (List (String × TfVal)))
      (tys tys' : Option (List (String × TfTy))) (obj : GoVal),
      AgreeOn (nameTree m.fields) (attrs.getD []) (attrs'.getD []) →
      copyFrom ov m (.obj u n attrs tys) obj = copyFrom ov m (.obj u' n' attrs' tys') obj) := by
  intros; apply PGT.SameNames.C02_same_tree <;> assumption

/-- the nesting, one field: for a message-valued field the nested schema attributes are the schema of `f.sub` (then the
injected ones), the node of the name tree holds `nameTree f.sub`, the block of CopyTo leaves under the field's key a value
whose nested keys are those of `nameTree f.sub`, and the block of CopyFrom reads the value found under the key through
`nameTree f.sub` only -/
theorem C02_nesting_same (f : Field) (hn : isNest f.info.kind = true) (hwf : TreeWF f) :
    nestedOf (schemaField f).2 = schemaAttrs f.sub ++ injectedOf f.msg ∧
    nameNode f = .node f.info.nameSnake (nameTree f.sub) ∧
    (∀ (obj : GoVal) (atys : List (String × TfTy)) (st st' : ToSt),
      atys.lookup f.info.nameSnake = some (schemaTy f) → f.info.nameSnake ∉ keys st.attrs →
      copyToField f obj (some atys) st = .ok st' →
      ∃ v, st'.attrs = st.attrs ++ [(f.info.nameSnake, v)] ∧ ValKeys (KeysTree (nameTree f.sub)) v) ∧
    (∀ (ov : List (String × String)) (attrs attrs' : Option (List (String × TfVal))) (st : FromSt) (v v' : TfVal),
      (attrs.getD []).lookup f.info.nameSnake = some v → (attrs'.getD []).lookup f.info.nameSnake = some v' →
      ValAgree (AgreeOn (nameTree f.sub)) v v' →
      copyFromField ov f attrs st = copyFromField ov f attrs' st) := by
  intros; apply PGT.SameNames.C02_nesting_same <;> assumption

/-- … for a well-formed IR and a typed value the run of part 2 exists, reports nothing and the stored attributes render
the value (`C03_schema_typed`), so the tree statement is about an actual result -/
theorem C02_copyTo_schema_typed (m : Msg) (obj : GoVal) (hwf : IRWFs m.fields) (hv : ValOKs m.fields obj) :
    ∃ r as, copyTo m obj (.obj false false none (some (attrTypesOf m))) = .ok r ∧ r.diags = [] ∧
      r.tf = .obj false false (some as) (some (attrTypesOf m)) ∧
      Spec.rendersFields m.fields obj as = true ∧
      KeysTree (nameTree m.fields) as ∧ keys as = m.fields.map (·.info.nameSnake) := by
  intros; apply PGT.SameNames.C02_copyTo_schema_typed <;> assumption

/-- non-vacuity: the two-level message `s`, `l`, `n {m}` with injected `id` and `n.rev`: its name tree, the schema's tree, a
CopyTo run, and CopyFrom being blind to junk keys at both levels while sensitive to dropping `m` below `n` -/
theorem C02_nameTree_example : type_of% PGT.SameNames.Example.nameTree_example := PGT.SameNames.Example.nameTree_example
theorem C02_sTree_example : type_of% PGT.SameNames.Example.sTree_example := PGT.SameNames.Example.sTree_example
theorem C02_copyTo_example_runs : type_of% PGT.SameNames.Example.copyTo_example_runs := PGT.SameNames.Example.copyTo_example_runs
theorem C02_copyFrom_example_runs : type_of% PGT.SameNames.Example.copyFrom_example_runs := PGT.SameNames.Example.copyFrom_example_runs
theorem C02_copyFrom_example_sensitive : type_of% PGT.SameNames.Example.copyFrom_example_sensitive :=
  PGT.SameNames.Example.copyFrom_example_sensitive

end PGT.Props.C02
