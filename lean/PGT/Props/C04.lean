import PGT.Proofs.FromFlat
import PGT.Props.C19
import PGT.Props.C20
/-
C04 – Object → Terraform → object round trip is lossless.
Full statement: `C04_full`. Proved: the scalar template (`C04_scalar_roundtrip`), for every row of the type table but
float32, all values: composing the CopyTo block with the CopyFrom block returns the original value in normal form.
-/
namespace PGT.Props.C04
open PGT PGT.Spec

def C04_full : Prop :=
  ∀ (ov : List (String × String)) (m : Msg) (v : GoVal) (r : ToResult) (b : FromResult),
    copyTo m v (.obj false false none (some (attrTypesOf m))) = .ok r → copyFrom ov m r.tf (.struct []) = .ok b →
    r.diags = [] ∧ b.diags = [] ∧ c04Check m v b.obj = true

theorem scNfEq_refl (x : Sc) : scNfEq x x = true := by
  cases x <;> simp [scNfEq]

theorem scNfEq_of_equiv (y x : Sc) (h : C19.scEquiv y x) : scNfEq y x = true := by
  cases y <;> cases x <;> simp [C19.scEquiv] at h <;> try (subst h; exact scNfEq_refl _)
  simp [scNfEq, h]

/-- the zero value of the representation is the normal form of every zero value -/
theorem zero_nf (r : GoRep) (s : Sc) (hr : C19.HasRep r s) (hz : scIsZero s = true) : scNfEq (zeroOfRep r) s = true := by
  cases r <;> cases s <;> simp [C19.HasRep] at hr <;> simp [scIsZero] at hz <;> simp [zeroOfRep, scNfEq, scIsZero, hz]
  all_goals first
    | (subst hz; simp)
    | (right; decide)
    | (left; right; decide)
    | (rename_i v; cases v <;> simp_all)
    | skip

/-- Round trip of one scalar field: the attribute written by the CopyTo block (`PlainOK` gives its value:
payload `c = castTo s`, `Null = null`), read by the CopyFrom block into any struct, yields a value equal to the
original `s` in normal form – for all values `s` of the field's Go type. -/
theorem C04_scalar_roundtrip (ov : List (String × String)) (f : Field) (obj : GoVal)
    (atys : Option (List (String × TfTy))) (k : PrimK) (s c : Sc) (null : Bool)
    (hpo : PlainOK f obj atys k s c null) (hvt : f.info.tf.valueType = f.info.tf.elemValueType)
    (hrep : C19.HasRep f.info.rep s) (hnf : f.info.rep ≠ .f32)
    (hmid : k.rep = C19.mid f.info.rep) (hto : repOfGoType f.info.tf.valueCastToType = some (C19.mid f.info.rep))
    (hz : C20.ZeroTestFaithful f.info) (rest : List (String × TfVal)) (st : FromSt) :
    ∃ y, copyFromField ov f (some ((f.info.nameSnake, .prim k false null c) :: rest)) st =
        .ok { st with obj := st.obj.setField f.info.name (.sc y) } ∧ scNfEq y s = true := by
  rw [copyFromField_plain ov f k hpo.plain hvt]
  simp only [Option.getD, List.lookup, beq_self_eq_true, if_true]
  obtain ⟨c', hc', y, hy, he⟩ := C19.C19_field f.info k hmid hto hnf s hrep
  have hcc : c' = c := by
    have := hpo.ren.cast
    rw [hc'] at this
    exact Option.some.inj this
  subst hcc
  cases null with
  | false =>
    simp [hy]
    exact ⟨y, rfl, scNfEq_of_equiv y s he⟩
  | true =>
    simp
    have hzero := hpo.ren.zero
    by_cases hzv : (f.info.tf.zeroValue != "") = true
    · simp only [hzv, if_true] at hzero
      have : true = scIsZero s := hz s c' true hc' hzero hrep
      exact ⟨_, rfl, zero_nf _ _ hrep this.symm⟩
    · simp only [hzv] at hzero
      simp at hzero

end PGT.Props.C04
