import PGT.Proofs.FromFlat
import PGT.Proofs.RoundTrip
import PGT.Props.C19
import PGT.Props.C20
import PGT.Props.C03
/-
C04 – Object → Terraform → object round trip is lossless.
Full statement: `C04_full`. Proved: the scalar template (`C04_scalar_roundtrip`), for every row of the type table but
float32, all values: composing the CopyTo block with the CopyFrom block returns the original value in normal form.
-/
namespace PGT.Props.C04
open PGT PGT.Spec

def C04_full : Prop :=
  ∀ (ov : List (String × String)) (m : Msg) (v : GoVal) (r : ToResult) (b : FromResult),
    copyTo m v (.obj false false none (some (attrTypesOf m))) = .ok r → copyFrom ov m r.tf (.struct []) = .ok b →
    r.diags = [] ∧ b.diags = [] ∧ c04Check m v b.obj = true

theorem scNfEq_refl (x : Sc) : scNfEq x x = true := by
  cases x <;> simp [scNfEq]

theorem scNfEq_of_equiv (y x : Sc) (h : C19.scEquiv y x) : scNfEq y x = true := by
  cases y <;> cases x <;> simp [C19.scEquiv] at h <;> try (subst h; exact scNfEq_refl _)
  simp [scNfEq, h]

/-- the zero value of the representation is the normal form of every zero value -/
theorem zero_nf (r : GoRep) (s : Sc) (hr : C19.HasRep r s) (hz : scIsZero s = true) : scNfEq (zeroOfRep r) s = true := by
  cases r <;> cases s <;> simp [C19.HasRep] at hr <;> simp [scIsZero] at hz <;> simp [zeroOfRep, scNfEq, scIsZero, hz]
  all_goals first
    | (subst hz; simp)
    | (right; decide)
    | (left; right; decide)
    | (rename_i v; cases v <;> simp_all)
    | skip

/-- Round trip of one scalar field: the attribute written by the CopyTo block (`PlainOK` gives its value:
payload `c = castTo s`, `Null = null`), read by the CopyFrom block into any struct, yields a value equal to the
original `s` in normal form – for all values `s` of the field's Go type. -/
theorem C04_scalar_roundtrip (ov : List (String × String)) (f : Field) (obj : GoVal)
    (atys : Option (List (String × TfTy))) (k : PrimK) (s c : Sc) (null : Bool)
    (hpo : PlainOK f obj atys k s c null) (hvt : f.info.tf.valueType = f.info.tf.elemValueType)
    (hrep : C19.HasRep f.info.rep s) (hnf : f.info.rep ≠ .f32)
    (hmid : k.rep = C19.mid f.info.rep) (hto : repOfGoType f.info.tf.valueCastToType = some (C19.mid f.info.rep))
    (hz : C20.ZeroTestFaithful f.info) (rest : List (String × TfVal)) (st : FromSt) :
    ∃ y, copyFromField ov f (some ((f.info.nameSnake, .prim k false null c) :: rest)) st =
        .ok { st with obj := st.obj.setField f.info.name (.sc y) } ∧ scNfEq y s = true := by
  rw [copyFromField_plain ov f k hpo.plain hvt]
  simp only [Option.getD, List.lookup, beq_self_eq_true, if_true]
  obtain ⟨c', hc', y, hy, he⟩ := C19.C19_field f.info k hmid hto hnf s hrep
  have hcc : c' = c := by
    have := hpo.ren.cast
    rw [hc'] at this
    exact Option.some.inj this
  subst hcc
  cases null with
  | false =>
    simp [hy]
    exact ⟨y, rfl, scNfEq_of_equiv y s he⟩
  | true =>
    simp
    have hzero := hpo.ren.zero
    by_cases hzv : (f.info.tf.zeroValue != "") = true
    · simp only [hzv, if_true] at hzero
      have : true = scIsZero s := hz s c' true hc' hzero hrep
      exact ⟨_, rfl, zero_nf _ _ hrep this.symm⟩
    · simp only [hzv] at hzero
      simp at hzero

/-- **C04 for the plain tree, at every nesting depth.** For every message IR built from scalars, pointer scalars
(nullable time / duration), placeholders, nested messages (by pointer and by value, also without fields), lists and maps
of scalars and lists and maps of messages (elements by pointer and by value, nil elements included) – any number of
fields, nested to any depth – and every typed struct value:
CopyTo into the object that carries the attribute types and no values succeeds without diagnostics, and CopyFrom of
the result into a fresh struct succeeds without diagnostics and returns a struct equal to the original in the normal
form of C04 (`Spec.c04Check`: nil ≡ empty slices / maps / byte strings, ±0 identified, …).

Hypotheses: `ToOKs` (what `C03_total` needs: the value is typed, every attribute has its type) and `RTOKs` (what
reading back needs: Go field names pairwise distinct, value types fit the kinds, every scalar row round-trips –
`PrimRT`, established from the regenerated table by `primRT_of_row` / `C19_field` –, map keys distinct; no oneof
branches, no children of nullable embedded messages, no custom types: those are `C04_scalar_roundtrip` and the
correspondence). Proof: `C03_total` (mutual induction, `ToRender.lean`) composed with `fromFields_reads` (mutual
induction, `RoundTrip.lean`). -/
theorem C04_roundtrip_plain (ov : List (String × String)) (m : Msg) (obj : GoVal) (atys : List (String × TfTy))
    (hto : ToOKs m.fields obj atys) (hrt : RTOKs m.fields obj) :
    ∃ r b, copyTo m obj (.obj false false none (some atys)) = .ok r ∧ r.diags = [] ∧
      copyFrom ov m r.tf (.struct []) = .ok b ∧ b.diags = [] ∧ c04Check m obj b.obj = true := by
  obtain ⟨r, as, hrun, hd, htf, hren⟩ := C03.C03_total m obj atys hto
  obtain ⟨o, hfrom, _, hall, _⟩ := fromFields_reads ov m.fields obj (some as)
    { obj := resetOneOfs m.info.oneOfNames (.struct []) } hren hrt (isStruct_resetOneOfs _ _ trivial)
  refine ⟨r, { obj := o, diags := [], hooks := [] }, hrun, hd, ?_, rfl, ?_⟩
  · rw [htf]
    simp [copyFrom, hfrom]
  · unfold c04Check
    exact nfEqFields_of_valNfEq m.fields obj o (fun f hf => ⟨rtoks_oneof m.fields obj hrt f hf, hall f hf⟩)

-- non-vacuity of `C04_roundtrip_plain`: a string, and a nullable nested message holding a list of int32
def tyS : String := "github.com/hashicorp/terraform-plugin-framework/types.String"
def tyI : String := "github.com/hashicorp/terraform-plugin-framework/types.Int64"
def tyL : String := "github.com/hashicorp/terraform-plugin-framework/types.List"
def tyO : String := "github.com/hashicorp/terraform-plugin-framework/types.Object"

def rtStr : FieldInfo :=
  { name := "S", nameSnake := "s", kind := .primitive, protoType := "string",
    tf := { valueType := tyS, elemValueType := tyS, valueCastToType := "string", valueCastFromType := "string", zeroValue := "\"\"" } }
def rtList : FieldInfo :=
  { name := "L", nameSnake := "l", kind := .primitiveList, isRepeated := true, protoType := "int32",
    tf := { valueType := tyL, elemValueType := tyI, valueCastToType := "int64", valueCastFromType := "int32", zeroValue := "0" } }
def rtNested : FieldInfo := { name := "N", nameSnake := "n", kind := .object, isNullable := true, tf := { valueType := tyO, elemValueType := tyO } }
def rtFields : List Field := [{ info := rtStr }, { info := rtNested, msg := some { name := "Inner" }, sub := [{ info := rtList }] }]
def rtObj : GoVal := .struct [("S", .sc (.str [104, 105])), ("N", .ptr (some (.struct [("L", .slice (some [.sc (.w32 7), .sc (.w32 0xffffffff)]))])))]
def rtTys : List (String × TfTy) := [("s", .prim .string), ("n", .obj (some [("l", .list (some (.prim .int64)))]))]

theorem rtStr_rt : PrimRT rtStr .string :=
  primRT_of_row rtStr .string (by decide) (by decide) (by decide) (by decide) (by decide)
theorem rtList_rt : PrimRT rtList .int64 :=
  primRT_of_row rtList .int64 (by decide) (by decide) (by decide) (by decide) (by decide)

theorem C04_example_hyp : RTOKs rtFields rtObj := by
  unfold rtFields
  simp only [RTOKs, RTOK, List.map_cons, List.map_nil, List.mem_cons, List.mem_nil_iff, or_false, not_false_eq_true, and_true]
  refine ⟨⟨rfl, rfl, by simp [EmptyOK, isEmptyMsg], by decide, ?_⟩, by decide, ⟨rfl, rfl, by simp [EmptyOK, isEmptyMsg], by decide, ?_⟩⟩
  · right
    exact ⟨.string, rtStr_rt, by decide, by
      unfold PrimVal
      simp only [show rtStr.isNullable = false from rfl, Bool.false_eq_true, if_false]
      exact ⟨.str [104, 105], by simp [getVal, rtStr, rtObj, GoVal.field?, List.lookup], by simp [rtStr, FieldInfo.rep, repOfGoType, C19.HasRep]⟩⟩
  · refine ⟨by decide, ?_⟩
    unfold MsgTyped
    simp only [show rtNested.isNullable = true from rfl, if_true]
    right
    refine ⟨[("L", .slice (some [.sc (.w32 7), .sc (.w32 0xffffffff)]))], by simp [getVal, rtNested, rtObj, GoVal.field?, List.lookup], ?_⟩
    simp only [RTOKs, RTOK, List.map_nil, List.mem_nil_iff, not_false_eq_true, and_true]
    refine ⟨rfl, rfl, by simp [EmptyOK, isEmptyMsg], by decide, by decide, by decide, .int64, rtList_rt, ?_⟩
    intro e he
    have : e = .sc (.w32 7) ∨ e = .sc (.w32 0xffffffff) := by
      simpa [getVal, rtList, GoVal.field?, List.lookup, sliceElems] using he
    unfold PrimVal
    simp only [show rtList.isNullable = false from rfl, Bool.false_eq_true, if_false]
    rcases this with rfl | rfl
    · exact ⟨.w32 7, rfl, by simp [rtList, FieldInfo.rep, repOfGoType, C19.HasRep]⟩
    · exact ⟨.w32 0xffffffff, rfl, by simp [rtList, FieldInfo.rep, repOfGoType, C19.HasRep]⟩

/-- the example runs: −1 (0xffffffff as int32) in a nested list survives the round trip -/
theorem C04_example_runs :
    (match copyTo { info := { name := "M" }, fields := rtFields } rtObj (.obj false false none (some rtTys)) with
     | .ok r => (match copyFrom [] { info := { name := "M" }, fields := rtFields } r.tf (.struct []) with
        | .ok b => c04Check { info := { name := "M" }, fields := rtFields } rtObj b.obj && b.diags.isEmpty && r.diags.isEmpty
        | _ => false)
     | _ => false) = true := by
  decide

end PGT.Props.C04
