import PGT.Proofs.RoundTripEmbed
import PGT.Proofs.FromFlat
import PGT.Proofs.RoundTrip
import PGT.Proofs.RoundTripOneof
import PGT.Props.C19
import PGT.Props.C20
import PGT.Props.C03
/-
C04 – Object → Terraform → object round trip is lossless.
Full statement: `C04_full`. Proved: the scalar template (`C04_scalar_roundtrip`), for every row of the type table but
float32, all values: composing the CopyTo block with the CopyFrom block returns the original value in normal form.
-/
namespace PGT.Props.C04
open PGT PGT.Spec

def C04_full : Prop :=
  ∀ (ov : List (String × String)) (m : Msg) (v : GoVal) (r : ToResult) (b : FromResult),
    copyTo m v (.obj false false none (some (attrTypesOf m))) = .ok r → copyFrom ov m r.tf (.struct []) = .ok b →
    r.diags = [] ∧ b.diags = [] ∧ c04Check m v b.obj = true

theorem scNfEq_refl (x : Sc) : scNfEq x x = true := by
  cases x <;> simp [scNfEq]

theorem scNfEq_of_equiv (y x : Sc) (h : C19.scEquiv y x) : scNfEq y x = true := by
  cases y <;> cases x <;> simp [C19.scEquiv] at h <;> try (subst h; exact scNfEq_refl _)
  simp [scNfEq, h]

/-- the zero value of the representation is the normal form of every zero value -/
theorem zero_nf (r : GoRep) (s : Sc) (hr : C19.HasRep r s) (hz : scIsZero s = true) : scNfEq (zeroOfRep r) s = true := by
  cases r <;> cases s <;> simp [C19.HasRep] at hr <;> simp [scIsZero] at hz <;> simp [zeroOfRep, scNfEq, scIsZero, hz]
  all_goals first
    | (subst hz; simp)
    | (right; decide)
    | (left; right; decide)
    | (rename_i v; cases v <;> simp_all)
    | skip

/-- Round trip of one scalar field: the attribute written by the CopyTo block (`PlainOK` gives its value:
payload `c = castTo s`, `Null = null`), read by the CopyFrom block into any struct, yields a value equal to the
original `s` in normal form – for all values `s` of the field's Go type. -/
theorem C04_scalar_roundtrip (ov : List (String × String)) (f : Field) (obj : GoVal)
    (atys : Option (List (String × TfTy))) (k : PrimK) (s c : Sc) (null : Bool)
    (hpo : PlainOK f obj atys k s c null) (hvt : f.info.tf.valueType = f.info.tf.elemValueType)
    (hrep : C19.HasRep f.info.rep s) (hnf : f.info.rep ≠ .f32)
    (hmid : k.rep = C19.mid f.info.rep) (hto : repOfGoType f.info.tf.valueCastToType = some (C19.mid f.info.rep))
    (hz : C20.ZeroTestFaithful f.info) (rest : List (String × TfVal)) (st : FromSt) :
    ∃ y, copyFromField ov f (some ((f.info.nameSnake, .prim k false null c) :: rest)) st =
        .ok { st with obj := st.obj.setField f.info.name (.sc y) } ∧ scNfEq y s = true := by
  rw [copyFromField_plain ov f k hpo.plain hvt]
  simp only [Option.getD, List.lookup, beq_self_eq_true, if_true]
  obtain ⟨c', hc', y, hy, he⟩ := C19.C19_field f.info k hmid hto hnf s hrep
  have hcc : c' = c := by
    have := hpo.ren.cast
    rw [hc'] at this
    exact Option.some.inj this
  subst hcc
  cases null with
  | false =>
    simp [hy]
    exact ⟨y, rfl, scNfEq_of_equiv y s he⟩
  | true =>
    simp
    have hzero := hpo.ren.zero
    by_cases hzv : (f.info.tf.zeroValue != "") = true
    · simp only [hzv, if_true] at hzero
      have : true = scIsZero s := hz s c' true hc' hzero hrep
      exact ⟨_, rfl, zero_nf _ _ hrep this.symm⟩
    · simp only [hzv] at hzero
      simp at hzero

/-- **C04 for the plain tree, at every nesting depth.** For every message IR built from scalars, pointer scalars
(nullable time / duration), placeholders, nested messages (by pointer and by value, also without fields), lists and maps
of scalars and lists and maps of messages (elements by pointer and by value, nil elements included) – any number of
fields, nested to any depth – and every typed struct value:
CopyTo into the object that carries the attribute types and no values succeeds without diagnostics, and CopyFrom of
the result into a fresh struct succeeds without diagnostics and returns a struct equal to the original in the normal
form of C04 (`Spec.c04Check`: nil ≡ empty slices / maps / byte strings, ±0 identified, …).

Hypotheses: `ToOKs` (what `C03_total` needs: the value is typed, every attribute has its type) and `RTOKs` (what
reading back needs: Go field names pairwise distinct, value types fit the kinds, every scalar row round-trips –
`PrimRT`, established from the regenerated table by `primRT_of_row` / `C19_field` –, map keys distinct; no oneof
branches, no children of nullable embedded messages, no custom types: those are `C04_scalar_roundtrip` and the
correspondence). Proof: `C03_total` (mutual induction, `ToRender.lean`) composed with `fromFields_reads` (mutual
induction, `RoundTrip.lean`). -/
theorem C04_roundtrip_plain (ov : List (String × String)) (m : Msg) (obj : GoVal) (atys : List (String × TfTy))
    (hto : ToOKs m.fields obj atys) (hrt : RTOKs m.fields obj) :
    ∃ r b, copyTo m obj (.obj false false none (some atys)) = .ok r ∧ r.diags = [] ∧
      copyFrom ov m r.tf (.struct []) = .ok b ∧ b.diags = [] ∧ c04Check m obj b.obj = true := by
  obtain ⟨r, as, hrun, hd, htf, hren⟩ := C03.C03_total m obj atys hto
  obtain ⟨o, hfrom, _, hall, _⟩ := fromFields_reads ov m.fields obj (some as)
    { obj := resetOneOfs m.info.oneOfNames (.struct []) } hren hrt (isStruct_resetOneOfs _ _ trivial)
  refine ⟨r, { obj := o, diags := [], hooks := [] }, hrun, hd, ?_, rfl, ?_⟩
  · rw [htf]
    simp [copyFrom, hfrom]
  · unfold c04Check
    exact nfEqFields_of_valNfEq m.fields obj o (fun f hf => ⟨rtoks_oneof m.fields obj hrt f hf, hall f hf⟩)

-- non-vacuity of `C04_roundtrip_plain`: a string, and a nullable nested message holding a list of int32
def tyS : String := "github.com/hashicorp/terraform-plugin-framework/types.String"
def tyI : String := "github.com/hashicorp/terraform-plugin-framework/types.Int64"
def tyL : String := "github.com/hashicorp/terraform-plugin-framework/types.List"
def tyO : String := "github.com/hashicorp/terraform-plugin-framework/types.Object"

def rtStr : FieldInfo :=
  { name := "S", nameSnake := "s", kind := .primitive, protoType := "string",
    tf := { valueType := tyS, elemValueType := tyS, valueCastToType := "string", valueCastFromType := "string", zeroValue := "\"\"" } }
def rtList : FieldInfo :=
  { name := "L", nameSnake := "l", kind := .primitiveList, isRepeated := true, protoType := "int32",
    tf := { valueType := tyL, elemValueType := tyI, valueCastToType := "int64", valueCastFromType := "int32", zeroValue := "0" } }
def rtNested : FieldInfo := { name := "N", nameSnake := "n", kind := .object, isNullable := true, tf := { valueType := tyO, elemValueType := tyO } }
def rtFields : List Field := [{ info := rtStr }, { info := rtNested, msg := some { name := "Inner" }, sub := [{ info := rtList }] }]
def rtObj : GoVal := .struct [("S", .sc (.str [104, 105])), ("N", .ptr (some (.struct [("L", .slice (some [.sc (.w32 7), .sc (.w32 0xffffffff)]))])))]
def rtTys : List (String × TfTy) := [("s", .prim .string), ("n", .obj (some [("l", .list (some (.prim .int64)))]))]

theorem rtStr_rt : PrimRT rtStr .string :=
  primRT_of_row rtStr .string (by decide) (by decide) (by decide) (by decide) (by decide)
theorem rtList_rt : PrimRT rtList .int64 :=
  primRT_of_row rtList .int64 (by decide) (by decide) (by decide) (by decide) (by decide)

theorem C04_example_hyp : RTOKs rtFields rtObj := by
  unfold rtFields
  simp only [RTOKs, RTOK, List.map_cons, List.map_nil, List.mem_cons, List.mem_nil_iff, or_false, not_false_eq_true, and_true]
  refine ⟨⟨rfl, rfl, by simp [EmptyOK, isEmptyMsg], by decide, ?_⟩, by decide, ⟨rfl, rfl, by simp [EmptyOK, isEmptyMsg], by decide, ?_⟩⟩
  · right
    exact ⟨.string, rtStr_rt, by decide, by
      unfold PrimVal
      simp only [show rtStr.isNullable = false from rfl, Bool.false_eq_true, if_false]
      exact ⟨.str [104, 105], by simp [getVal, rtStr, rtObj, GoVal.field?, List.lookup], by simp [rtStr, FieldInfo.rep, repOfGoType, C19.HasRep]⟩⟩
  · refine ⟨by decide, ?_⟩
    unfold MsgTyped
    simp only [show rtNested.isNullable = true from rfl, if_true]
    right
    refine ⟨[("L", .slice (some [.sc (.w32 7), .sc (.w32 0xffffffff)]))], by simp [getVal, rtNested, rtObj, GoVal.field?, List.lookup], ?_⟩
    simp only [RTOKs, RTOK, List.map_nil, List.mem_nil_iff, not_false_eq_true, and_true]
    refine ⟨rfl, rfl, by simp [EmptyOK, isEmptyMsg], by decide, by decide, by decide, .int64, rtList_rt, ?_⟩
    intro e he
    have : e = .sc (.w32 7) ∨ e = .sc (.w32 0xffffffff) := by
      simpa [getVal, rtList, GoVal.field?, List.lookup, sliceElems] using he
    unfold PrimVal
    simp only [show rtList.isNullable = false from rfl, Bool.false_eq_true, if_false]
    rcases this with rfl | rfl
    · exact ⟨.w32 7, rfl, by simp [rtList, FieldInfo.rep, repOfGoType, C19.HasRep]⟩
    · exact ⟨.w32 0xffffffff, rfl, by simp [rtList, FieldInfo.rep, repOfGoType, C19.HasRep]⟩

/-- the example runs: −1 (0xffffffff as int32) in a nested list survives the round trip -/
theorem C04_example_runs :
    (match copyTo { info := { name := "M" }, fields := rtFields } rtObj (.obj false false none (some rtTys)) with
     | .ok r => (match copyFrom [] { info := { name := "M" }, fields := rtFields } r.tf (.struct []) with
        | .ok b => c04Check { info := { name := "M" }, fields := rtFields } rtObj b.obj && b.diags.isEmpty && r.diags.isEmpty
        | _ => false)
     | _ => false) = true := by
  decide

-- ------------------------------------------------------------------------------------------------------
-- the round trip with oneof groups

/-- **C04 for the plain tree with oneof groups, every depth.** As `C04_roundtrip_plain`, and fields may be branches of oneof
groups – scalar branches and message branches –, at every nesting depth (`RT2OKs`: the Go fields assigned by two blocks
differ unless both are branches of the same group, and then their wrapper types differ; a holder that carries a branch's
wrapper carries it under the branch's field name). The comparison of a branch is the documented normal form: "this branch
is active with a non-zero payload", so an active branch with a zero payload reads back as unset. Proof: `C03_total` composed
with `fromFields_reads2` (mutual induction, `RoundTripOneof.lean`): after the blocks of a message the holder of each group
carries a branch that was read back, or every branch of the group was idle and the holder is what `resetOneOfs` left
(`HolderSpec`); `branch_nfEq` turns that into the comparison, using that in the source at most one wrapper is held. -/
theorem C04_roundtrip_oneof (ov : List (String × String)) (m : Msg) (obj : GoVal) (atys : List (String × TfTy))
    (hto : ToOKs m.fields obj atys) (hrt : RT2OKs m.fields obj) :
    ∃ r b, copyTo m obj (.obj false false none (some atys)) = .ok r ∧ r.diags = [] ∧
      copyFrom ov m r.tf (.struct []) = .ok b ∧ b.diags = [] ∧ c04Check m obj b.obj = true := by
  obtain ⟨r, as, hrun, hd, htf, hren⟩ := C03.C03_total m obj atys hto
  obtain ⟨o, hfrom, _, hall, hspec, _⟩ := fromFields_reads2 ov m.fields obj (some as)
    { obj := resetOneOfs m.info.oneOfNames (.struct []) } hren hrt (isStruct_resetOneOfs _ _ trivial)
  refine ⟨r, { obj := o, diags := [], hooks := [] }, hrun, hd, ?_, rfl, ?_⟩
  · rw [htf]
    simp [copyFrom, hfrom]
  · unfold c04Check
    apply nfEqFields_of_forall
    intro f hf
    by_cases ho : f.info.oneOfName = ""
    · rw [nfEqField_eq_valNfEq f obj o ho]; exact hall f hf ho
    · exact branch_nfEq m.fields obj _ o hrt f hf ho (initNone_reset _ _ (.struct []) trivial (initNone_empty _))
        (hspec _ ho (no_plain_named m.fields obj hrt f hf ho))

-- non-vacuity: a plain string, and a group `Kind` with a string branch `A` and a message branch `B` (active)
def ooA : FieldInfo :=
  { name := "A", nameSnake := "a", kind := .primitive, protoType := "string", oneOfName := "Kind", oneOfType := "pkg.M_A",
    tf := { valueType := tyS, elemValueType := tyS, valueCastToType := "string", valueCastFromType := "string", zeroValue := "\"\"" } }
def ooB : FieldInfo :=
  { name := "B", nameSnake := "b", kind := .object, isNullable := true, oneOfName := "Kind", oneOfType := "pkg.M_B",
    tf := { valueType := tyO, elemValueType := tyO } }
def ooFields : List Field :=
  [{ info := rtStr }, { info := ooA }, { info := ooB, msg := some { name := "Inner" }, sub := [{ info := rtList }] }]
def ooInner : List (String × GoVal) := [("L", .slice (some [.sc (.w32 7)]))]
def ooObj : GoVal := .struct [("S", .sc (.str [104, 105])), ("Kind", .iface (some ("M_B", "B", .ptr (some (.struct ooInner)))))]
def ooTys : List (String × TfTy) :=
  [("s", .prim .string), ("a", .prim .string), ("b", .obj (some [("l", .list (some (.prim .int64)))]))]
def ooMsg : Msg := { info := { name := "M", oneOfNames := ["Kind"] }, fields := ooFields }

theorem ooA_rt : PrimRT ooA .string :=
  primRT_of_row ooA .string (by decide) (by decide) (by decide) (by decide) (by decide)

theorem ooS_ok : RT2OK { info := rtStr } ooObj := by
  unfold RT2OK
  refine ⟨rfl, by simp [EmptyOK, isEmptyMsg], by decide, Or.inl ⟨rfl, ?_⟩⟩
  simp only [show rtStr.kind = .primitive from rfl]
  right
  exact ⟨.string, rtStr_rt, by decide, by
    unfold PrimVal
    simp only [show rtStr.isNullable = false from rfl, Bool.false_eq_true, if_false]
    exact ⟨.str [104, 105], by simp [getVal, rtStr, ooObj, GoVal.field?, List.lookup], by simp [rtStr, FieldInfo.rep, repOfGoType, C19.HasRep]⟩⟩

theorem ooA_ok : RT2OK { info := ooA } ooObj := by
  unfold RT2OK
  refine ⟨rfl, by simp [EmptyOK, isEmptyMsg], by decide, Or.inr ⟨by decide, ?_, ?_⟩⟩
  · intro w fn p h hw
    simp [ooObj, ooA, GoVal.field?, List.lookup] at h
    obtain ⟨rfl, _, _⟩ := h
    exact absurd hw (by decide)
  · simp only [show ooA.kind = .primitive from rfl]
    refine ⟨rfl, by decide, .string, ooA_rt, by decide, ?_⟩
    unfold PrimVal
    simp only [show ooA.isNullable = false from rfl, Bool.false_eq_true, if_false]
    exact ⟨.str [], by simp [getVal, ooA, ooObj, GoVal.field?, List.lookup, oneOfShadow, lastSegment, zeroGoOf, FieldInfo.rep, repOfGoType, zeroOfRep], by simp [ooA, FieldInfo.rep, repOfGoType, C19.HasRep]⟩

theorem ooL_ok : RT2OK { info := rtList } (.struct ooInner) := by
  unfold RT2OK
  refine ⟨rfl, by simp [EmptyOK, isEmptyMsg], by decide, Or.inl ⟨rfl, ?_⟩⟩
  simp only [show rtList.kind = .primitiveList from rfl]
  refine ⟨by decide, by decide, .int64, rtList_rt, ?_⟩
  intro e he
  have : e = .sc (.w32 7) := by
    simpa [getVal, rtList, ooInner, GoVal.field?, List.lookup, sliceElems] using he
  subst this
  unfold PrimVal
  simp only [show rtList.isNullable = false from rfl, Bool.false_eq_true, if_false]
  exact ⟨.w32 7, rfl, by simp [rtList, FieldInfo.rep, repOfGoType, C19.HasRep]⟩

theorem ooB_ok : RT2OK { info := ooB, msg := some { name := "Inner" }, sub := [{ info := rtList }] } ooObj := by
  unfold RT2OK
  refine ⟨rfl, by simp [EmptyOK, isEmptyMsg], by decide, Or.inr ⟨by decide, ?_, ?_⟩⟩
  · intro w fn p h _
    simp [ooObj, ooB, GoVal.field?, List.lookup] at h
    exact h.2.1.symm
  · simp only [show ooB.kind = .object from rfl]
    refine ⟨rfl, by decide, ?_⟩
    unfold MsgTyped
    simp only [if_true]
    right
    refine ⟨ooInner, by simp [getVal, ooB, ooObj, GoVal.field?, List.lookup, oneOfShadow, lastSegment], ?_⟩
    unfold RT2OKs
    refine ⟨ooL_ok, by simp, ?_⟩
    unfold RT2OKs
    trivial

theorem C04_oneof_example_hyp : RT2OKs ooFields ooObj := by
  unfold ooFields
  unfold RT2OKs
  refine ⟨ooS_ok, ?_, ?_⟩
  · intro g hg
    simp only [List.mem_cons, List.mem_nil_iff, or_false] at hg
    rcases hg with rfl | rfl <;> (intro h; exact absurd h (by decide))
  · unfold RT2OKs
    refine ⟨ooA_ok, ?_, ?_⟩
    · intro g hg
      simp only [List.mem_cons, List.mem_nil_iff, or_false] at hg
      subst hg
      intro _
      exact ⟨by decide, rfl, by decide⟩
    · unfold RT2OKs
      refine ⟨ooB_ok, by simp, ?_⟩
      unfold RT2OKs
      trivial

/-- the example runs: the active message branch survives, the inactive scalar branch stays unset -/
theorem C04_oneof_example_runs :
    (match copyTo ooMsg ooObj (.obj false false none (some ooTys)) with
     | .ok r => (match copyFrom [] ooMsg r.tf (.struct []) with
        | .ok b => c04Check ooMsg ooObj b.obj && b.diags.isEmpty && r.diags.isEmpty &&
            (match b.obj.field? "Kind" with | some (.iface (some (w, _, _))) => w == "M_B" | _ => false)
        | _ => false)
     | _ => false) = true := by
  decide

-- ------------------------------------------------------------------------------------------------------
-- the round trip with children of nullable embedded messages and custom types as well (proofs: `Proofs/RoundTripEmbed.lean`).
-- `RT3OKs` extends `RT2OKs` (`C04_rt3_extends_rt2`): children of a nullable embedded message of every kind (written through the
-- parent pointer, which CopyFrom allocates when a child attribute is known) and custom kinds (the string-based hooks of the model
-- round-trip: `C04_hook_roundtrip`). A non-nil embedded message whose children are all zero reads back as nil
-- (`C04_embed_zero_children_witness`) – the normal form the property names; `nfEqField` compares children through `getVal`.

/-- **C04 with children of nullable embedded messages and custom types, every depth.** As `C04_roundtrip_oneof`, and fields may
be children of a nullable embedded message (every kind: scalars, messages, lists, maps, custom) and may be of a custom type
(string-like values, the hooks of the harness), at every nesting depth. Proof: `copyTo_renders3` (CopyTo renders, with what
`Spec.rendersVal` leaves open for these two templates) composed with `fromFields_reads3`. -/
theorem C04_roundtrip_all (ov : List (String × String)) (m : Msg) (obj : GoVal) (atys : List (String × TfTy))
    (hto : ToOKs m.fields obj atys) (hrt : RT3OKs m.fields obj) :
    ∃ r b, copyTo m obj (.obj false false none (some atys)) = .ok r ∧ r.diags = [] ∧
      copyFrom ov m r.tf (.struct []) = .ok b ∧ b.diags = [] ∧ c04Check m obj b.obj = true := by
  intros; apply PGT.roundtrip_embed <;> assumption

/-- **the hooks of the harness round-trip** on string-like values: reading what the `CopyTo<S>` hook wrote gives the value
back in the normal form of C04 (nil ≡ empty list) -/
theorem C04_hook_roundtrip (rep : Bool) (x : GoVal) (a : TfVal) (ht : CustomTyped rep x) (h : custRenders rep x a = true) :
    custNfEq rep x (hookFrom rep a) = true := by
  intros; apply PGT.hook_roundtrip <;> assumption

theorem C04_rt3_extends_rt2 : ∀ (fs : List Field) (obj : GoVal), RT2OKs fs obj → RT3OKs fs obj := by
  intros; apply PGT.rt3oks_of_rt2oks <;> assumption

/-- **A non-nil embedded message whose children are all zero comes back as a nil pointer.** CopyTo renders every child null
(C20), so CopyFrom never allocates the parent: in the struct read back `P` is nil, in the original it is not. The round trip is
still the identity *in the normal form of C04*: `Spec.nfEqField` compares the children through `Spec.getVal`, which reads a
child through a nil parent as its zero value, and the IR has no field for the parent pointer itself – `c04Check` is `true`
(so `roundtrip_embed` needs no hypothesis that excludes this value). "nil embedded message ≡ embedded message with zero
children" is part of the normal form, next to "nil ≡ empty list". -/
theorem C04_embed_zero_children_witness : type_of% PGT.embed_zero_children_witness :=
  PGT.embed_zero_children_witness


end PGT.Props.C04
