import PGT.Props.C06_anytarget
import PGT.Proofs.BuiltWF
/-
C06, continued – for the IRs the front end builds (`Proofs/BuiltWF.lean`; see `Props/C03_built.lean` for the invariant, the gap
`gapFreeBs` and its witnesses).
-/
namespace PGT.Props.C06
open PGT PGT.Spec PGT.SchemaTyped PGT.Proofs.BuildErrors PGT.Proofs.PathUnique PGT.Proofs.ExclusionPrune PGT.Proofs.BuiltWF

/-- **`VFOKs` (FromDiags) holds for every built IR** – no hypothesis at all -/
theorem C06_built_vfoks (fuel : Nat) (V : CfgView) (req : Request) (desc : MsgD) (isRoot : Bool) (path : String) (m : Msg)
    (h : buildMessage fuel V req desc isRoot path = .ok m) : VFOKs m.fields := by
  intros; apply PGT.Proofs.BuiltWF.built_vfoks <;> assumption

/-- **C06 (CopyTo side) for every root the generator builds**: for EVERY struct value, no panic on the schema-typed target;
only the distinctness of attribute names per level is needed (no node fact, no condition on the configuration) -/
theorem C06_built_root (cfg : Config) (req : Request) (desc : MsgD) (m : Msg) (_hb : buildRoot cfg req desc = .ok (some m))
    (hn : namesOKsB m.fields = true) (obj : GoVal) (u n : Bool) (w : String) :
    copyTo m obj (.obj u n none (some (attrTypesOf m))) ≠ .panic w := by
  intros; apply PGT.Proofs.BuiltWF.C06_built_root <;> assumption

theorem C06_built_roots (cfg : Config) (req : Request) (m : Msg) (hm : m ∈ (buildRoots cfg req).1)
    (hn : namesOKsB m.fields = true) (obj : GoVal) (u n : Bool) (w : String) :
    copyTo m obj (.obj u n none (some (attrTypesOf m))) ≠ .panic w := by
  intros; apply PGT.Proofs.BuiltWF.C06_built_roots <;> assumption

end PGT.Props.C06
