import PGT.Model.Config
/-
C16 – Command-line and YAML configuration are equivalent channels.
Statements are about `readConfig` (model of config.go `ReadConfig`), whose rows come from the regenerated
table `Generated.cliTable` (translator T2).
-/
namespace PGT.Props.C16
open PGT

/-- The dual options of the regenerated table are exactly the nine the property names, with the documented
command-line keys, accessor kinds and order. -/
theorem C16_table :
    Generated.cliTable =
      [("Types", "types", "slice"), ("ExcludeFields", "exclude_fields", "slice"),
       ("ComputedFields", "computed_fields", "slice"), ("RequiredFields", "required_fields", "slice"),
       ("SensitiveFields", "sensitive", "slice"), ("DefaultPackageName", "default_package_name", "string"),
       ("TargetPackageName", "target_package_name", "string"), ("DurationCustomType", "custom_duration", "string"),
       ("Sort", "sort", "bool")] := by decide

/-- the YAML keys of the dual options are the documented ones (README, test/config.yaml) -/
theorem C16_yaml_keys :
    (["Types", "ExcludeFields", "ComputedFields", "RequiredFields", "SensitiveFields", "DefaultPackageName",
      "TargetPackageName", "DurationCustomType", "Sort"].map fun f => Generated.yamlTags.lookup f) =
    [some "types", some "exclude_fields", some "computed_fields", some "required_fields", some "sensitive_fields",
     some "default_package_name", some "target_package_name", some "duration_custom_type", some "sort"] := by decide

/-- list parameters are separated by `+` -/
theorem C16_delimiter : Generated.paramDelimiter = "+" := by decide

/-- the accessor functions have the bodies the model transcribes (a textual change re-opens the obligation) -/
theorem C16_accessor_sources :
    Generated.getStringParamSrc = "{ p := strings.TrimSpace(c.params[name]) if p == \"\" { return d } return p }" ∧
    Generated.getSliceParamSrc = "{ v := c.getStringParam(name, \"\") if v == \"\" { return d } return flagMapFromArray(strings.Split(v, paramDelimiter)) }" := by
  constructor <;> decide

/-- A configuration without any command-line parameter is what the YAML file says. -/
theorem C16_yaml_only (y : Config) (h : y.types ≠ []) :
    readConfig .ok y [] = .ok y := by
  have hs : ∀ n d, getStringParam [] n d = d := by
    intro n d; simp [getStringParam, paramLookup, trimSpace, dropWhileEnd]
  have hsl : ∀ n d, getSliceParam [] n d = d := by
    intro n d; simp [getSliceParam, hs]
  have hb : ∀ n d, getBoolParam [] n d = d := by
    intro n d; simp [getBoolParam, hs, asciiLower]
  have : readFromCLI [] y = y := by
    simp [readFromCLI, C16_table, applyCliRow, hs, hsl, hb, Config.setSlice, Config.getSlice, Config.setString,
      Config.getString, Config.setBool, Config.getBool]
  simp [readConfig, this]
  cases hy : y.types with
  | nil => exact absurd hy h
  | cons a l => simp

/-- Errors instead of defaults: no `types` on either channel, unreadable or unparsable file. -/
theorem C16_errors (y : Config) (cli : List (String × String)) :
    readConfig .missing y cli = .error .yamlUnreadable ∧
    readConfig .garbage y cli = .error .yamlUnparsable ∧
    ((readFromCLI cli (if (YamlState.ok == YamlState.ok) = true then y else {})).types = [] →
       readConfig .ok y cli = .error .noTypes) := by
  refine ⟨rfl, rfl, ?_⟩
  intro h
  simp only [readConfig]
  simp at h ⊢
  simp [h]

/-- Precedence and equivalence for string options, generically: the value after `readFromCLI` of a string row
is the trimmed command-line value when that is non-empty, else the YAML value. -/
theorem C16_string_precedence (cli : List (String × String)) (key d : String) :
    getStringParam cli key d =
      (if String.ofList (trimSpace (paramLookup cli key).toList) == "" then d
       else String.ofList (trimSpace (paramLookup cli key).toList)) := by
  simp [getStringParam]

/-- `A+B+C` on the command line denotes the list [A, B, C] (as a set: the configuration only tests membership) -/
example : getSliceParam [("types", "A+B+C")] "types" ["Y"] = ["A", "B", "C"] := by decide
/-- an absent or blank command-line value leaves the YAML value -/
example : getSliceParam [("types", "  ")] "types" ["Y"] = ["Y"] := by decide
example : getBoolParam [("sort", "TRUE")] "sort" false = true := by decide
example : getBoolParam [("sort", "maybe")] "sort" true = true := by decide

end PGT.Props.C16
