import PGT.Proofs.ConfigEquiv
import PGT.Model.Config
/-
C16 – Command-line and YAML configuration are equivalent channels.
Statements are about `readConfig` (model of config.go `ReadConfig`), whose rows come from the regenerated
table `Generated.cliTable` (translator T2).
-/
namespace PGT.Props.C16
open PGT

/-- The dual options of the regenerated table are exactly the nine the property names, with the documented
command-line keys, accessor kinds and order. -/
theorem C16_table :
    Generated.cliTable =
      [("Types", "types", "slice"), ("ExcludeFields", "exclude_fields", "slice"),
       ("ComputedFields", "computed_fields", "slice"), ("RequiredFields", "required_fields", "slice"),
       ("SensitiveFields", "sensitive", "slice"), ("DefaultPackageName", "default_package_name", "string"),
       ("TargetPackageName", "target_package_name", "string"), ("DurationCustomType", "custom_duration", "string"),
       ("Sort", "sort", "bool")] := by decide

/-- the YAML keys of the dual options are the documented ones (README, test/config.yaml) -/
theorem C16_yaml_keys :
    (["Types", "ExcludeFields", "ComputedFields", "RequiredFields", "SensitiveFields", "DefaultPackageName",
      "TargetPackageName", "DurationCustomType", "Sort"].map fun f => Generated.yamlTags.lookup f) =
    [some "types", some "exclude_fields", some "computed_fields", some "required_fields", some "sensitive_fields",
     some "default_package_name", some "target_package_name", some "duration_custom_type", some "sort"] := by decide

/-- list parameters are separated by `+` -/
theorem C16_delimiter : Generated.paramDelimiter = "+" := by decide

/-- the accessor functions have the bodies the model transcribes (a textual change re-opens the obligation) -/
theorem C16_accessor_sources :
    Generated.getStringParamSrc = "{ p := strings.TrimSpace(c.params[name]) if p == \"\" { return d } return p }" ∧
    Generated.getSliceParamSrc = "{ v := c.getStringParam(name, \"\") if v == \"\" { return d } return flagMapFromArray(strings.Split(v, paramDelimiter)) }" := by
  constructor <;> decide

/-- A configuration without any command-line parameter is what the YAML file says. -/
theorem C16_yaml_only (y : Config) (h : y.types ≠ []) :
    readConfig .ok y [] = .ok y := by
  have hs : ∀ n d, getStringParam [] n d = d := by
    intro n d; simp [getStringParam, paramLookup, trimSpace, dropWhileEnd]
  have hsl : ∀ n d, getSliceParam [] n d = d := by
    intro n d; simp [getSliceParam, hs]
  have hb : ∀ n d, getBoolParam [] n d = d := by
    intro n d; simp [getBoolParam, hs, asciiLower]
  have : readFromCLI [] y = y := by
    simp [readFromCLI, C16_table, applyCliRow, hs, hsl, hb, Config.setSlice, Config.getSlice, Config.setString,
      Config.getString, Config.setBool, Config.getBool]
  simp [readConfig, this]
  cases hy : y.types with
  | nil => exact absurd hy h
  | cons a l => simp

/-- Errors instead of defaults: no `types` on either channel, unreadable or unparsable file. -/
theorem C16_errors (y : Config) (cli : List (String × String)) :
    readConfig .missing y cli = .error .yamlUnreadable ∧
    readConfig .garbage y cli = .error .yamlUnparsable ∧
    ((readFromCLI cli (if (YamlState.ok == YamlState.ok) = true then y else {})).types = [] →
       readConfig .ok y cli = .error .noTypes) := by
  refine ⟨rfl, rfl, ?_⟩
  intro h
  simp only [readConfig]
  simp at h ⊢
  simp [h]

/-- Precedence and equivalence for string options, generically: the value after `readFromCLI` of a string row
is the trimmed command-line value when that is non-empty, else the YAML value. -/
theorem C16_string_precedence (cli : List (String × String)) (key d : String) :
    getStringParam cli key d =
      (if String.ofList (trimSpace (paramLookup cli key).toList) == "" then d
       else String.ofList (trimSpace (paramLookup cli key).toList)) := by
  simp [getStringParam]

/-- `A+B+C` on the command line denotes the list [A, B, C] (as a set: the configuration only tests membership) -/
example : getSliceParam [("types", "A+B+C")] "types" ["Y"] = ["A", "B", "C"] := by decide
/-- an absent or blank command-line value leaves the YAML value -/
example : getSliceParam [("types", "  ")] "types" ["Y"] = ["Y"] := by decide
example : getBoolParam [("sort", "TRUE")] "sort" false = true := by decide
example : getBoolParam [("sort", "maybe")] "sort" true = true := by decide

-- ------------------------------------------------------------------------------------------------------
-- the two channels, for every row of the regenerated table (proofs: `Proofs/ConfigEquiv.lean`, for any table that
-- passes the decidable check `TableOK`: distinct Config fields, distinct keys, every row names a field its accessor writes)
section
open PGT.ConfigEquiv

/-- After `readFromCLI`, the field of every row of the regenerated table holds exactly what the row's accessor
returns on (command line, key, YAML value); what no row of that kind names is the input's. -/
theorem C16_read_from_cli (cli : List (String × String)) (c : Config) :
    (∀ f k, (f, k, "slice") ∈ Generated.cliTable →
      (readFromCLI cli c).getSlice f = getSliceParam cli k (c.getSlice f)) ∧
    (∀ f k, (f, k, "string") ∈ Generated.cliTable →
      (readFromCLI cli c).getString f = getStringParam cli k (c.getString f)) ∧
    (∀ f k, (f, k, "bool") ∈ Generated.cliTable →
      (readFromCLI cli c).getBool f = getBoolParam cli k (c.getBool f)) ∧
    (∀ g, (∀ k, (g, k, "slice") ∉ Generated.cliTable) → (readFromCLI cli c).getSlice g = c.getSlice g) ∧
    (∀ g, (∀ k, (g, k, "string") ∉ Generated.cliTable) → (readFromCLI cli c).getString g = c.getString g) ∧
    (∀ g, (∀ k, (g, k, "bool") ∉ Generated.cliTable) → (readFromCLI cli c).getBool g = c.getBool g) ∧
    rest (readFromCLI cli c) = rest c := by
  intros; apply readFromCLI_field <;> assumption

/-- accessor level: a non-blank command-line value hides the default; a blank or absent one returns it.
For booleans "non-blank" is not enough: a value `strconv.ParseBool` rejects is logged and the default is kept. -/
theorem C16_accessor_precedence (cli : List (String × String)) (k : String) :
    (cliValue cli k ≠ "" → ∀ d d', getSliceParam cli k d = getSliceParam cli k d') ∧
    (cliValue cli k ≠ "" → ∀ d d', getStringParam cli k d = getStringParam cli k d') ∧
    ((parseBool (asciiLower (cliValue cli k))).isSome → ∀ d d', getBoolParam cli k d = getBoolParam cli k d') ∧
    (cliValue cli k = "" → ∀ d, getSliceParam cli k d = d) ∧
    (cliValue cli k = "" → ∀ d, getStringParam cli k d = d) ∧
    (parseBool (asciiLower (cliValue cli k)) = none → ∀ d, getBoolParam cli k d = d) ∧
    (cliValue cli k = "" → parseBool (asciiLower (cliValue cli k)) = none) := by
  intros; apply accessor_precedence <;> assumption

/-- The command line wins: with a non-blank value for the key of a row, the whole result of `readFromCLI` (hence of
`readConfig`) is independent of the YAML value of that row's field. -/
theorem C16_cli_wins {f k : String} (cli : List (String × String)) (y : Config) :
    ((f, k, "slice") ∈ Generated.cliTable → cliValue cli k ≠ "" →
      ∀ d d', readFromCLI cli (y.setSlice f d) = readFromCLI cli (y.setSlice f d')) ∧
    ((f, k, "string") ∈ Generated.cliTable → cliValue cli k ≠ "" →
      ∀ d d', readFromCLI cli (y.setString f d) = readFromCLI cli (y.setString f d')) ∧
    ((f, k, "bool") ∈ Generated.cliTable → (parseBool (asciiLower (cliValue cli k))).isSome →
      ∀ d d', readFromCLI cli (y.setBool f d) = readFromCLI cli (y.setBool f d')) := by
  intros; apply cli_wins <;> assumption

/-- Without a (non-blank, for booleans: parsable) command-line value the YAML value stays. -/
theorem C16_yaml_stays {f k : String} (cli : List (String × String)) (y : Config) :
    ((f, k, "slice") ∈ Generated.cliTable → cliValue cli k = "" → (readFromCLI cli y).getSlice f = y.getSlice f) ∧
    ((f, k, "string") ∈ Generated.cliTable → cliValue cli k = "" → (readFromCLI cli y).getString f = y.getString f) ∧
    ((f, k, "bool") ∈ Generated.cliTable → parseBool (asciiLower (cliValue cli k)) = none →
      (readFromCLI cli y).getBool f = y.getBool f) := by
  intros; apply yaml_stays <;> assumption

/-- CHANNEL EQUIVALENCE, string options. Side conditions: the command line does not already give a non-blank value for
the key (else that value wins on the left-hand side too), and `v` is expressible. -/
theorem C16_channel_string {f k : String} (hm : (f, k, "string") ∈ Generated.cliTable) {cli : List (String × String)}
    (hcli : cliValue cli k = "") {v : String} (hv : Expressible v) (y : Config) (d : String) :
    readConfig .ok (y.setString f v) cli = readConfig .ok (y.setString f d) (cli ++ [(k, v)]) := by
  intros; apply channel_string <;> assumption

/-- CHANNEL EQUIVALENCE, boolean options (no side condition on `b`). -/
theorem C16_channel_bool {f k : String} (hm : (f, k, "bool") ∈ Generated.cliTable) {cli : List (String × String)}
    (hcli : cliValue cli k = "") (b : Bool) (y : Config) (d : Bool) :
    readConfig .ok (y.setBool f b) cli = readConfig .ok (y.setBool f d) (cli ++ [(k, renderBool b)]) := by
  intros; apply channel_bool <;> assumption

/-- CHANNEL EQUIVALENCE, list options, `+` as separator. Side conditions: no element contains `+`, and the joined
string is expressible (not empty - so `l` is neither `[]` nor `[""]` - and neither starts nor ends with a blank). -/
theorem C16_channel_slice {f k : String} (hm : (f, k, "slice") ∈ Generated.cliTable) {cli : List (String × String)}
    (hcli : cliValue cli k = "") {l : List String} (hv : Expressible (renderSlice l))
    (hplus : ∀ x ∈ l, '+' ∉ x.toList) (y : Config) (d : List String) :
    readConfig .ok (y.setSlice f l) cli = readConfig .ok (y.setSlice f d) (cli ++ [(k, renderSlice l)]) := by
  intros; apply channel_slice <;> assumption

/-- a sufficient condition on the elements: blank-free elements (e.g. type or field names), `l` neither `[]` nor `[""]` -/
theorem C16_expressible_slice {l : List String} (hne : l ≠ []) (hne' : l ≠ [""])
    (hsp : ∀ x ∈ l, ∀ ch ∈ x.toList, isGoSpace ch = false) : Expressible (renderSlice l) := by
  intros; apply expressible_renderSlice <;> assumption

/-- The nine dual options, in record notation: moving the option from the YAML record to the command line (appended to
a command line that gives no value for the key), with ANY value `d` left in the YAML field, gives the same
`readConfig` result. -/
theorem C16_channel_equiv_table (cli : List (String × String)) (y : Config) :
    (∀ l d, cliValue cli "types" = "" → SliceExpressible l →
      readConfig .ok { y with types := l } cli =
        readConfig .ok { y with types := d } (cli ++ [("types", renderSlice l)])) ∧
    (∀ l d, cliValue cli "exclude_fields" = "" → SliceExpressible l →
      readConfig .ok { y with excludeFields := l } cli =
        readConfig .ok { y with excludeFields := d } (cli ++ [("exclude_fields", renderSlice l)])) ∧
    (∀ l d, cliValue cli "computed_fields" = "" → SliceExpressible l →
      readConfig .ok { y with computedFields := l } cli =
        readConfig .ok { y with computedFields := d } (cli ++ [("computed_fields", renderSlice l)])) ∧
    (∀ l d, cliValue cli "required_fields" = "" → SliceExpressible l →
      readConfig .ok { y with requiredFields := l } cli =
        readConfig .ok { y with requiredFields := d } (cli ++ [("required_fields", renderSlice l)])) ∧
    (∀ l d, cliValue cli "sensitive" = "" → SliceExpressible l →
      readConfig .ok { y with sensitiveFields := l } cli =
        readConfig .ok { y with sensitiveFields := d } (cli ++ [("sensitive", renderSlice l)])) ∧
    (∀ v d, cliValue cli "default_package_name" = "" → Expressible v →
      readConfig .ok { y with defaultPackageName := v } cli =
        readConfig .ok { y with defaultPackageName := d } (cli ++ [("default_package_name", v)])) ∧
    (∀ v d, cliValue cli "target_package_name" = "" → Expressible v →
      readConfig .ok { y with targetPackageName := v } cli =
        readConfig .ok { y with targetPackageName := d } (cli ++ [("target_package_name", v)])) ∧
    (∀ v d, cliValue cli "custom_duration" = "" → Expressible v →
      readConfig .ok { y with durationCustomType := v } cli =
        readConfig .ok { y with durationCustomType := d } (cli ++ [("custom_duration", v)])) ∧
    (∀ b d, cliValue cli "sort" = "" →
      readConfig .ok { y with sort := b } cli =
        readConfig .ok { y with sort := d } (cli ++ [("sort", renderBool b)])) := by
  intros; apply channel_equiv_table <;> assumption

end

end PGT.Props.C16
