import PGT.Props.C20
import PGT.Proofs.SchemaTyped
/-
C20, continued – on the empty schema-typed object (`attrTypesOf m`) the null-ness statement holds for every well-formed IR
(`IRWFs`) and every typed struct value (`ValOKs`): the type-side hypotheses of `C20_nullness` are discharged by the schema
(`Proofs/SchemaTyped.lean`). `C20_full_schema_typed` has the shape of `C20_full`.
-/
namespace PGT.Props.C20
open PGT PGT.Spec PGT.SchemaTyped

/-- **C20, schema-typed target**: the result satisfies the executable statement of C20 -/
theorem C20_schema_typed (m : Msg) (obj : GoVal) (hwf : IRWFs m.fields) (hv : ValOKs m.fields obj) :
    ∃ r, copyTo m obj (.obj false false none (some (attrTypesOf m))) = .ok r ∧ c20Check m obj r.tf = true := by
  intros; apply PGT.SchemaTyped.C20_schema_typed <;> assumption

/-- C20 in the shape of `Props.C20.C20_full` (every successful run on the schema-typed empty object), for a well-formed IR
and a typed value -/
theorem C20_full_schema_typed (m : Msg) (obj : GoVal) (hwf : IRWFs m.fields) (hv : ValOKs m.fields obj) (r : ToResult)
    (h : copyTo m obj (.obj false false none (some (attrTypesOf m))) = .ok r) : c20Check m obj r.tf = true := by
  intros; apply PGT.SchemaTyped.C20_full_schema_typed <;> assumption

end PGT.Props.C20
