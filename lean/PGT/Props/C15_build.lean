import PGT.Props.C15
/-
C15 (continuation) – declaration order at the level of the BUILD: with `sort` on, permuting the fields of a message
descriptor leaves the IR the front end builds for it unchanged (every nesting depth below the permuted message, every
request, every configuration), provided the build succeeds and the Go names of the built fields are distinct.
The first error of a failing build does depend on the order (`C15_failure_differs`), hence the success hypothesis.
-/
namespace PGT.Props.C15
open PGT

/-- a field's build looks at the enclosing descriptor only through its name and oneof names, never through its field list -/
theorem core_ctx_fields (cfg : CfgView) (req : Request) (desc : MsgD) (fs' : List FieldD) (p : String) :
    ∀ (fuel : Nat) (f : FieldD) (keys : Keys) (goType : String) (a b c : Bool),
    buildFieldCore fuel cfg req { desc := { desc with fields := fs' }, path := p } f keys goType a b c =
    buildFieldCore fuel cfg req { desc := desc, path := p } f keys goType a b c := by
  intro fuel
  induction fuel with
  | zero => intros; rfl
  | succ n ih =>
    intro f keys goType a b c
    unfold buildFieldCore
    simp only [ih]

/-- `collectFields` of a permuted list of successful results succeeds with a permutation of the fields -/
theorem collectFields_perm {ε α} {l l' : List (Except ε (List α))} (h : l.Perm l') :
    ∀ fs, collectFields l = .ok fs → ∃ fs', collectFields l' = .ok fs' ∧ fs'.Perm fs := by
  induction h with
  | nil => intro fs h; exact ⟨fs, h, List.Perm.refl _⟩
  | cons x _ ih =>
    intro fs h
    cases x with
    | error e => simp [collectFields] at h
    | ok a =>
      simp only [collectFields] at h ⊢
      split at h
      · cases h
      · rename_i more hm
        cases h
        obtain ⟨more', hm', hp'⟩ := ih more hm
        rw [hm']
        exact ⟨a ++ more', rfl, hp'.append_left a⟩
  | swap x y l =>
    intro fs h
    cases x with
    | error e =>
      cases y with
      | error e' => simp [collectFields] at h
      | ok b => simp [collectFields] at h
    | ok a =>
      cases y with
      | error e' => simp [collectFields] at h
      | ok b =>
        simp only [collectFields] at h ⊢
        cases hl : collectFields l with
        | error e => simp [hl] at h
        | ok more =>
          simp only [hl] at h ⊢
          cases h
          refine ⟨a ++ (b ++ more), rfl, ?_⟩
          rw [← List.append_assoc, ← List.append_assoc]
          exact List.Perm.append_right more List.perm_append_comm
  | trans _ _ ih1 ih2 =>
    intro fs h
    obtain ⟨f1, h1, p1⟩ := ih1 fs h
    obtain ⟨f2, h2, p2⟩ := ih2 f1 h1
    exact ⟨f2, h2, p2.trans p1⟩

/-- **Declaration order does not matter for the built IR (sort on).** -/
theorem C15_build_perm (fuel : Nat) (cfg : CfgView) (req : Request) (desc : MsgD) (fs' : List FieldD)
    (isRoot : Bool) (path : String) (hp : fs'.Perm desc.fields) (hsort : cfg.sort = true) (m : Msg)
    (h : buildMessage (fuel + 1) cfg req desc isRoot path = .ok m)
    (hn : (m.fields.map (·.info.name)).Nodup) :
    buildMessage (fuel + 1) cfg req { desc with fields := fs' } isRoot path = .ok m := by
  unfold buildMessage at h ⊢
  simp only [hsort, if_true] at h ⊢
  by_cases he : desc.fields.isEmpty = true
  · have : fs' = [] := by
      have : desc.fields = [] := by simpa using he
      rw [this] at hp; exact List.Perm.eq_nil hp
    subst this
    have hd : desc.fields = [] := by simpa using he
    simp only [hd, List.isEmpty_nil, if_true] at h ⊢
    exact h
  · have he' : fs'.isEmpty = false := by
      cases hf : fs' with
      | nil => rw [hf] at hp; have := List.Perm.nil_eq hp; simp [← this] at he
      | cons _ _ => rfl
    have hed : desc.fields.isEmpty = false := by simpa using he
    simp only [he', hed, Bool.false_eq_true, if_false, core_ctx_fields] at h ⊢
    have hk : ∀ f, keysOf { desc := { desc with fields := fs' }, path := if isRoot = true then desc.name else path } f =
        keysOf { desc := desc, path := if isRoot = true then desc.name else path } f := fun _ => rfl
    have hg : ∀ f, goTypeOf cfg { desc := { desc with fields := fs' }, path := if isRoot = true then desc.name else path } f =
        goTypeOf cfg { desc := desc, path := if isRoot = true then desc.name else path } f := fun _ => rfl
    simp only [hk, hg]
    generalize hgd : (fun f : FieldD => buildFieldCore fuel cfg req { desc := desc, path := if isRoot = true then desc.name else path } f
      (keysOf { desc := desc, path := if isRoot = true then desc.name else path } f)
      (goTypeOf cfg { desc := desc, path := if isRoot = true then desc.name else path } f)
      (f.card == Card.map) (f.card == Card.repeated) f.comment.isSome) = g at h ⊢
    cases hc : collectFields (List.map g desc.fields) with
    | error e => simp [hc] at h
    | ok fs =>
      simp only [hc] at h
      obtain ⟨fs2, h2, p2⟩ := collectFields_perm (hp.symm.map g) fs hc
      have hm : m.fields = sortFieldsByName fs := by cases h; rfl
      have hnd : (fs.map (·.info.name)).Nodup := by
        rw [hm] at hn
        exact (((C15_sort_is_perm fs).map (·.info.name)).nodup_iff).mp hn
      have hnd2 : (fs2.map (·.info.name)).Nodup := ((p2.map (·.info.name)).nodup_iff).mpr hnd
      simp only [h2, C15_sort_perm p2 hnd2]
      exact h

/-- the same for a top-level message as `buildRoot` sees it (the fuel of `buildRoot` is positive) -/
theorem C15_buildRoot_perm (c : Config) (req : Request) (desc : MsgD) (fs' : List FieldD)
    (hp : fs'.Perm desc.fields) (hsort : c.sort = true) (m : Msg)
    (h : buildRoot c req desc = .ok (some m)) (hn : (m.fields.map (·.info.name)).Nodup) :
    buildRoot c req { desc with fields := fs' } = .ok (some m) := by
  unfold buildRoot at h ⊢
  by_cases ht : c.types.contains desc.name = true
  · simp only [ht, Bool.not_true, Bool.false_eq_true, if_false] at h ⊢
    have hf : defaultFuel req = (defaultFuel req - 1) + 1 := by unfold defaultFuel; omega
    rw [hf] at h ⊢
    cases hb : buildMessage (defaultFuel req - 1 + 1) (viewOf c) req desc true "" with
    | error e => simp [hb] at h
    | ok m0 =>
      simp only [hb] at h
      have : m0 = m := by cases h; rfl
      subst this
      rw [C15_build_perm _ _ _ _ _ _ _ hp (by simp [viewOf, hsort]) m0 hb hn]
  · have ht' : c.types.contains desc.name = false := by simpa using ht
    rw [ht'] at h
    simp only [Bool.not_false, if_true] at h
    cases h

/-- **Declaration order, sort on or off:** permuting the fields of a message descriptor permutes the fields of the IR
built for it (and nothing else but the order-dependent `oneOfNames` list); no hypothesis on names. -/
theorem C15_build_perm_fields (fuel : Nat) (cfg : CfgView) (req : Request) (desc : MsgD) (fs' : List FieldD)
    (isRoot : Bool) (path : String) (hp : fs'.Perm desc.fields) (m : Msg)
    (h : buildMessage (fuel + 1) cfg req desc isRoot path = .ok m) :
    ∃ m', buildMessage (fuel + 1) cfg req { desc with fields := fs' } isRoot path = .ok m' ∧
      m'.fields.Perm m.fields ∧ m'.info.name = m.info.name ∧ m'.info.goType = m.info.goType ∧
      m'.info.path = m.info.path ∧ m'.info.injected = m.info.injected := by
  unfold buildMessage at h ⊢
  by_cases he : desc.fields.isEmpty = true
  · have hd : desc.fields = [] := by simpa using he
    have : fs' = [] := by rw [hd] at hp; exact List.Perm.eq_nil hp
    subst this
    simp only [hd, List.isEmpty_nil, if_true] at h ⊢
    exact ⟨m, h, List.Perm.refl _, rfl, rfl, rfl, rfl⟩
  · have he' : fs'.isEmpty = false := by
      cases hf : fs' with
      | nil => rw [hf] at hp; have := List.Perm.nil_eq hp; simp [← this] at he
      | cons _ _ => rfl
    have hed : desc.fields.isEmpty = false := by simpa using he
    simp only [he', hed, Bool.false_eq_true, if_false, core_ctx_fields] at h ⊢
    have hk : ∀ f, keysOf { desc := { desc with fields := fs' }, path := if isRoot = true then desc.name else path } f =
        keysOf { desc := desc, path := if isRoot = true then desc.name else path } f := fun _ => rfl
    have hg : ∀ f, goTypeOf cfg { desc := { desc with fields := fs' }, path := if isRoot = true then desc.name else path } f =
        goTypeOf cfg { desc := desc, path := if isRoot = true then desc.name else path } f := fun _ => rfl
    simp only [hk, hg]
    generalize hgd : (fun f : FieldD => buildFieldCore fuel cfg req { desc := desc, path := if isRoot = true then desc.name else path } f
      (keysOf { desc := desc, path := if isRoot = true then desc.name else path } f)
      (goTypeOf cfg { desc := desc, path := if isRoot = true then desc.name else path } f)
      (f.card == Card.map) (f.card == Card.repeated) f.comment.isSome) = g at h ⊢
    cases hc : collectFields (List.map g desc.fields) with
    | error e => simp [hc] at h
    | ok fs =>
      simp only [hc] at h
      obtain ⟨fs2, h2, p2⟩ := collectFields_perm (hp.symm.map g) fs hc
      simp only [h2]
      cases h
      refine ⟨_, rfl, ?_, rfl, rfl, rfl, rfl⟩
      by_cases hs : cfg.sort = true
      · simp only [hs, if_true]
        exact ((C15_sort_is_perm fs2).trans p2).trans (C15_sort_is_perm fs).symm
      · have hs' : cfg.sort = false := by simpa using hs
        simp only [hs', Bool.false_eq_true, if_false]
        exact p2

/-- **Declaration order does not change what CopyTo does – sort on or off**: the converter generated for the permuted
descriptor and the one for the original succeed on the same inputs and return the same attributes (as lookup
functions), the same diagnostics and hook calls up to order. -/
theorem C15_declaration_order_copyTo (fuel : Nat) (cfg : CfgView) (req : Request) (desc : MsgD) (fs' : List FieldD)
    (isRoot : Bool) (path : String) (hp : fs'.Perm desc.fields) (m : Msg)
    (h : buildMessage (fuel + 1) cfg req desc isRoot path = .ok m)
    (hnd : (m.fields.map (·.info.nameSnake)).Nodup) :
    ∃ m', buildMessage (fuel + 1) cfg req { desc with fields := fs' } isRoot path = .ok m' ∧
      ∀ (obj : GoVal) (tf : TfVal),
        ((∃ r', copyTo m' obj tf = .ok r') ↔ (∃ r, copyTo m obj tf = .ok r)) ∧
        ∀ r' r, copyTo m' obj tf = .ok r' → copyTo m obj tf = .ok r →
          (∃ as' as atys, r'.tf = .obj false false (some as') atys ∧ r.tf = .obj false false (some as) atys ∧
            ∀ key, as'.lookup key = as.lookup key) ∧
          r'.diags.Perm r.diags ∧ r'.hooks.Perm r.hooks := by
  obtain ⟨m', hb, hperm, _⟩ := C15_build_perm_fields fuel cfg req desc fs' isRoot path hp m h
  exact ⟨m', hb, fun obj tf => C15_copyTo_perm m' m hperm hnd obj tf⟩

/-- non-vacuity: two scalar fields in both orders build the same sorted IR -/
def exD : MsgD := { name := "M", fields := [{ name := "b", type := "string" }, { name := "a", type := "int32" }] }
def exReq : Request := { file := { name := "f.proto", package := "p", messages := [exD] } }
def exNames (d : MsgD) : Option (List String) :=
  (buildMessage 5 (viewOf { sort := true }) exReq d true "").toOption.map fun m => m.fields.map (·.info.name)
example : exNames exD = some ["A", "B"] ∧ exNames { exD with fields := exD.fields.reverse } = some ["A", "B"] := by
  decide

end PGT.Props.C15
