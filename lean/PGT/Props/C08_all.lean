import PGT.Props.C08_deep
import PGT.Proofs.EchoAll
/-
C08, continued – ONE judgement for the apply echo (proofs: `Proofs/EchoAll.lean`): `PlanObjA` = the clauses of `PlanObj3` (oneof
groups at every position) and of `PlanObjE` (children of nullable embedded messages, custom kinds) together, in the same message,
through singular nested messages and through message branches; `C08_echo_oneof3` and `C08_echo_embed` are corollaries
(`C08_planObj3_planObjA`, `C08_planObjE_planObjA`). IR conditions: blocks of one message assign different Go fields (`SepOK3`
pairwise) and no parent pointer is listed as a holder. Still outside: embedded children / custom kinds inside list / map ELEMENT
messages and inside the zero struct of a null by-value nested message (`echo_all_full`; the instance asked for evaluates to true:
`C08_echo_all_list_example_runs` – an evaluation, not a theorem).
-/
namespace PGT.Props.C08
open PGT PGT.Spec

/-- **C08, apply echo, ONE judgement**: the plain tree, oneof groups at every position (`PlanOK3`), children of nullable
embedded messages of every kind and custom kinds – in the SAME message as oneof groups, at the top level and in nested
messages reached through singular message fields at every depth.  Conclusion exactly as in `C08_echo`. -/
theorem C08_echo_all (X : String → TfVal → Prop) (ov : List (String × String)) (m : Msg) (plan : TfVal) (skN skE : List String)
    (hX : ExtraOK X skN skE) (hp : PlanObjA X skE m plan) :
    ∃ s1 e s2, copyFrom ov m plan (.struct []) = .ok s1 ∧ s1.diags = [] ∧
      copyTo m s1.obj plan = .ok e ∧ e.diags = [] ∧
      copyFrom ov m e.tf (.struct []) = .ok s2 ∧ s2.diags = [] ∧
      noUnknownDeep skN e.tf = true ∧ echoKeeps skE plan e.tf = true ∧ nfEqFields m.fields s1.obj s2.obj = true := by
  intros; apply PGT.C08_echo_all <;> assumption

/-- **C08 in the shape of `PGT.Props.C08.C08_full`** with the skip lists of `Spec.c08Check`: whatever the three calls return,
they return no diagnostic and `c08Check` holds -/
theorem C08_echo_all_check (X : String → TfVal → Prop) (ov : List (String × String)) (m : Msg) (plan : TfVal)
    (s1 : FromResult) (e : ToResult) (s2 : FromResult)
    (hX : ExtraOK X (injectedNames m.fields m.info.injected ++ customNames m.fields) (customNames m.fields))
    (hp : PlanObjA X (customNames m.fields) m plan)
    (h1 : copyFrom ov m plan (.struct []) = .ok s1) (h2 : copyTo m s1.obj plan = .ok e)
    (h3 : copyFrom ov m e.tf (.struct []) = .ok s2) :
    s1.diags = [] ∧ e.diags = [] ∧ s2.diags = [] ∧ c08Check m plan s1.obj e.tf s2.obj = true := by
  intros; apply PGT.C08_echo_all_check <;> assumption

/-- **`PlanOKs3` (oneof groups at every position) is a special case** -/
theorem C08_planOKs3_planOKsA (X : String → TfVal → Prop) (skE : List String) : ∀ (fs : List Field) (A : List (String × TfVal))
    (atys : List (String × TfTy)), PlanOKs3 X fs A atys → PlanOKsA X skE fs A atys := by
  intros; apply PGT.planOKs3_planOKsA <;> assumption

theorem C08_planObj3_planObjA (X : String → TfVal → Prop) (skE : List String) (m : Msg) (plan : TfVal) (h : PlanObj3 X m plan) :
    PlanObjA X skE m plan := by
  intros; apply PGT.planObj3_planObjA <;> assumption

theorem C08_planObjE_planObjA (X : String → TfVal → Prop) (skE : List String) (m : Msg) (plan : TfVal) (h : PlanObjE X skE m plan) :
    PlanObjA X skE m plan := by
  intros; apply PGT.planObjE_planObjA <;> assumption

theorem C08_echo_all_list_example_runs : type_of% PGT.EchoAllOpen.list_example_runs := PGT.EchoAllOpen.list_example_runs

end PGT.Props.C08
