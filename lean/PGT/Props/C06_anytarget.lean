import PGT.Props.C06
import PGT.Proofs.ToTotalAny
import PGT.Proofs.SchemaTyped
/-
C06, continued – the CopyTo half on targets that already hold values (proofs: `Proofs/ToTotalAny.lean`) and on the schema-typed
target (`Proofs/SchemaTyped.lean`).

`C06_to_total` speaks about a target that carries attribute types and no values. A nested object block of the emitted code takes
its attribute types from the EXISTING VALUE when the target holds a `types.Object` there (`v, ok := tf.Attrs[name].(types.Object)`;
`tf := &v`), so `TysOK` on the target's type says nothing about the types actually used: the statement "no panic for every target
under `TysOK` alone" is false (`C06_to_any_needs_value_types`: a nested object value whose own `AttrTypes` hold a list type without
element type – outside the property's quantifier, which removes attribute types but does not corrupt element types). Under
`AttrsOK` – every object value the code re-uses carries types satisfying `TysOK` for its message, nothing else is asked: duplicate
keys, foreign / nil values, nil containers, flags anywhere – CopyTo never panics (`C06_to_total_any`); decoded plan / state objects
(`ShapedAttrs`) satisfy it (`C06_to_total_shaped`), the invariant is closed under calls (`C06_to_result_attrsOK`,
`C06_to_twice_total`), and the diagnostic half holds on any target (`C06_to_diag_half`). On the schema's own types the type-side
hypothesis is discharged by well-formedness of the IR alone (`C06_to_total_schema_typed`).
-/
namespace PGT.Props.C06
open PGT PGT.Spec

/-- **`Copy<T>ToTerraform` never panics on ANY target object**: every IR, every struct value, every attribute map `as`
(nil or not, values of any Go type, unknown / null anywhere, duplicate keys, nested to any depth), every sub-family of
attribute types – provided the attribute types of the target (`TysOK`) and the attribute types carried by the nested
object VALUES the code re-uses (`AttrsOK`) are well formed. -/
theorem C06_to_total_any (m : Msg) (obj : GoVal) (u n : Bool) (as : Option (List (String × TfVal)))
    (atys : Option (List (String × TfTy))) (h : TysOK m.fields atys) (hv : AttrsOK m.fields atys (as.getD []))
    (w : String) : copyTo m obj (.obj u n as atys) ≠ .panic w := by
  intros; apply PGT.copyTo_noPanic_any <;> assumption

/-- … so `copyTo` never panics on any target value at all -/
theorem C06_to_total_anyTarget (m : Msg) (obj : GoVal) (tf : TfVal)
    (h : ∀ u n as atys, tf = .obj u n as atys → TysOK m.fields atys ∧ AttrsOK m.fields atys (as.getD [])) (w : String) :
    copyTo m obj tf ≠ .panic w := by
  intros; apply PGT.copyTo_noPanic_anyTarget <;> assumption

/-- … in particular on every target `ShapedAttrs` of ToInPlace.lean describes (C08 / C09: repeated calls in place) -/
theorem C06_to_total_shaped (m : Msg) (obj : GoVal) (u n : Bool) (as : Option (List (String × TfVal)))
    (atys : List (String × TfTy)) (h : TysOK m.fields (some atys)) (hv : ShapedAttrs m.fields (as.getD []) atys)
    (w : String) : copyTo m obj (.obj u n as (some atys)) ≠ .panic w := by
  intros; apply PGT.copyTo_noPanic_shaped <;> assumption

/-- the executable form of the theorem: what a harness can check on a concrete target before the call -/
theorem C06_to_total_checked (m : Msg) (obj : GoVal) (u n : Bool) (as : Option (List (String × TfVal)))
    (atys : Option (List (String × TfTy)))
    (h : (tysOKb m.fields atys && attrsOKb m.fields atys (as.getD [])) = true) (w : String) :
    copyTo m obj (.obj u n as atys) ≠ .panic w := by
  intros; apply PGT.copyTo_noPanic_checked <;> assumption

/-- **the result of a call is a harmless target again**: calls can be iterated on the object they return (C08 / C09) and
never panic -/
theorem C06_to_result_attrsOK (m : Msg) (obj : GoVal) (u n : Bool) (as : Option (List (String × TfVal)))
    (atys : Option (List (String × TfTy))) (h : TysOK m.fields atys) (hv : AttrsOK m.fields atys (as.getD []))
    (r : ToResult) (hr : copyTo m obj (.obj u n as atys) = .ok r) :
    ∃ attrs', r.tf = .obj false false (some attrs') atys ∧ AttrsOK m.fields atys attrs' := by
  intros; apply PGT.copyTo_result_attrsOK <;> assumption

/-- two calls in a row (any two struct values): the second never panics -/
theorem C06_to_twice_total (m : Msg) (obj obj' : GoVal) (u n : Bool) (as : Option (List (String × TfVal)))
    (atys : Option (List (String × TfTy))) (h : TysOK m.fields atys) (hv : AttrsOK m.fields atys (as.getD []))
    (r : ToResult) (hr : copyTo m obj (.obj u n as atys) = .ok r) (w : String) : copyTo m obj' r.tf ≠ .panic w := by
  intros; apply PGT.copyTo_twice_noPanic <;> assumption

/-- … for the converter: any target object -/
theorem C06_to_diag_half (m : Msg) (obj : GoVal) (u n : Bool) (as : Option (List (String × TfVal)))
    (atys : Option (List (String × TfTy))) (r : ToResult) (h : copyTo m obj (.obj u n as atys) = .ok r) :
    ∃ attrs', r.tf = .obj false false (some attrs') atys ∧ ∀ f ∈ m.fields,
      ((atys.getD []).lookup f.info.nameSnake = none → Diag.writeMissing f.info.path ∈ r.diags) ∧
      (∀ ty, (atys.getD []).lookup f.info.nameSnake = some ty →
        (∃ v, attrs'.lookup f.info.nameSnake = some v) ∨ Diag.writeConv f.info.path f.info.tf.type ∈ r.diags) := by
  intros; apply PGT.copyTo_diag_half <;> assumption

/-- on a target that is not an object the model stops (the Go signature takes `*types.Object`: not expressible) -/
theorem C06_to_nonObject (m : Msg) (obj : GoVal) (tf : TfVal) (h : ∀ u n as atys, tf ≠ .obj u n as atys) :
    copyTo m obj tf = .stuck "target is not an object" := by
  intros; apply PGT.copyTo_nonObject <;> assumption


/-- **`TysOK` on the target's type is not enough once the target holds values**: the requested statement without `AttrsOK` is
false. Witness (`Proofs/ToTotalAny.lean`, by `decide`): `message M { Inner nested = 1; } message Inner { repeated string xs = 1; }`,
a target whose `nested` VALUE is a `types.Object` carrying `AttrTypes = {"xs": ListType{ElemType: nil}}` – the block of `xs` runs
on the value's own types and calls `ValueFromTerraform` on the nil element type. -/
theorem C06_to_any_needs_value_types : ¬ PGT.copyTo_noPanic_any_full := PGT.copyTo_noPanic_any_full_false

theorem C06_to_any_witness_panics : type_of% PGT.copyTo_any_witness_panics := PGT.copyTo_any_witness_panics

/-- the empty attribute map satisfies `AttrsOK`: `C06_to_total` is the special case `as = none` -/
theorem C06_attrsOK_nil : type_of% @PGT.attrsOK_nil := @PGT.attrsOK_nil

/-- `AttrsOK` and `TysOK` are decidable (boolean checkers with `iff` lemmas) -/
theorem C06_attrsOKb_iff : type_of% @PGT.attrsOKb_iff := @PGT.attrsOKb_iff

/-- non-vacuity: a target with duplicate keys, a foreign value and an unknown null object without `AttrTypes` holding a list with
nil and foreign elements satisfies `AttrsOK`, and the run ends with one `writeMissing` diagnostic -/
theorem C06_to_any_example_hyp : type_of% PGT.junk_attrsOK := PGT.junk_attrsOK
theorem C06_to_any_example_runs : type_of% PGT.junk_runs := PGT.junk_runs

/-- **CopyTo into the empty SCHEMA-TYPED object never panics, for every struct value**: well-formedness of the IR (`IRWFs`:
node-level facts and pairwise distinct attribute names, no reference to values or types; decidable: `irwfsB`) discharges `TysOK`
for the attribute types the schema declares (`attrTypesOf m`). -/
theorem C06_to_total_schema_typed : type_of% @PGT.SchemaTyped.C06_schema_typed := @PGT.SchemaTyped.C06_schema_typed

theorem C06_tysOK_of_schema : type_of% @PGT.SchemaTyped.tysOK_of_schema := @PGT.SchemaTyped.tysOK_of_schema

end PGT.Props.C06
