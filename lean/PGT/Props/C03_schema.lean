import PGT.Props.C03
import PGT.Proofs.SchemaTyped
/-
C03, continued – "an empty SCHEMA-TYPED object" literally (proofs: `Proofs/SchemaTyped.lean`).

`C03_total` is stated for a type list `atys` under `ToOKs m.fields obj atys`, which mixes (i) well-formedness of the IR node,
(ii) "the attribute has its type in `atys` and it is the right one", (iii) typing of the struct value. Here (ii) is discharged by
the schema: for the types the schema declares (`attrTypesOf m`, injected attributes included) `ToOKs` is EQUIVALENT to the typing
of the value alone (`C03_toOKs_schema_iff`), given `IRWFs` – node-level facts only (kind vs. the row of the regenerated type
table the `tf` record comes from, flags, `sub ≠ []`, pairwise distinct attribute names per level; decidable: `irwfsB`,
`C03_irwfs_of_b`). The bridge between the value kind CopyTo asserts and the type the schema declares is proved for every row of
the regenerated type table by `decide` (`C03_table_agree`); `time` / `duration` rows take their types from the configuration
(`ConfigAgrees`). `C03_getTerraformType_origin` ties the `tf` record of a built node to the table or the configuration.
-/
namespace PGT.Props.C03
open PGT PGT.Spec PGT.SchemaTyped

/-- **C03, schema-typed target, every template and depth**: for a well-formed IR (`IRWFs`: node-level facts, rows of the
regenerated type table, distinct names per level) and a typed struct value (`ValOKs`), CopyTo into the object that carries
*the attribute types of the generated schema* and no values succeeds, returns no diagnostic, and the stored attributes
render the value. No hypothesis on attribute types is left. (`InjectedDisjoint` is not needed: see `C03_schema_typed'`.) -/
theorem C03_schema_typed (m : Msg) (obj : GoVal) (hwf : IRWFs m.fields) (hv : ValOKs m.fields obj) :
    ∃ r as, copyTo m obj (.obj false false none (some (attrTypesOf m))) = .ok r ∧ r.diags = [] ∧
      r.tf = .obj false false (some as) (some (attrTypesOf m)) ∧ rendersFields m.fields obj as = true := by
  intros; apply PGT.SchemaTyped.C03_schema_typed <;> assumption

/-- **MAIN**: a well-formed IR and a typed value satisfy `ToOKs` against the attribute types of the schema – part (ii) of
`ToOK` ("every attribute has its type in the target, and it is the right one") is discharged, at every depth -/
theorem C03_toOKs_of_schema (fs : List Field) (obj : GoVal) (hwf : IRWFs fs) (hv : ValOKs fs obj) :
    ToOKs fs obj ((schemaAttrs fs).map fun (n, a) => (n, a.ty)) := by
  intros; apply PGT.SchemaTyped.toOKs_of_schema <;> assumption

theorem C03_toOKs_attrTypesOf (m : Msg) (obj : GoVal) (hwf : IRWFs m.fields) (hv : ValOKs m.fields obj) :
    ToOKs m.fields obj (attrTypesOf m) := by
  intros; apply PGT.SchemaTyped.toOKs_attrTypesOf <;> assumption

/-- **the split is exact on the value side**: for a well-formed IR, `ToOKs` against the schema's types ⇔ `ValOKs` -/
theorem C03_toOKs_schema_iff (m : Msg) (obj : GoVal) (hwf : IRWFs m.fields) :
    ToOKs m.fields obj (attrTypesOf m) ↔ ValOKs m.fields obj := by
  intros; apply PGT.SchemaTyped.toOKs_schema_iff <;> assumption

/-- **`schema_lookup`** (on the attributes): with pairwise distinct names, the attribute a field's name selects in the
schema – also with further attributes (`extra`: the injected ones) appended – is the one `schemaField` generates for it -/
theorem C03_schema_lookup : ∀ (fs : List Field) (extra : List (String × SAttr)), (fs.map (·.info.nameSnake)).Nodup →
    ∀ f ∈ fs, (schemaAttrs fs ++ extra).lookup f.info.nameSnake = some (schemaField f).2 := by
  intros; apply PGT.SchemaTyped.schema_lookup <;> assumption

/-- **`SAttr.ty (schemaField f).2` for every kind** -/
theorem C03_schemaField_ty (f : Field) : (schemaField f).2.ty = schemaTy f := by
  intros; apply PGT.SchemaTyped.schemaField_ty <;> assumption

/-- **the bridge**: on a scalar node the schema declares `prim k` exactly when CopyTo asserts the value struct of kind `k` -/
theorem C03_scalarTf_bridge (tf : TfType) (h : ScalarTf tf) :
    ∃ k, vkindOf tf.elemValueType = .prim k ∧ primTyOf tf.elemType = .prim k := by
  intros; apply PGT.SchemaTyped.scalarTf_bridge <;> assumption

theorem C03_messageTf_bridge (tf : TfType) (h : MessageTf tf) : vkindOf tf.elemValueType = .obj := by
  intros; apply PGT.SchemaTyped.messageTf_bridge <;> assumption

/-- **`GetTerraformType` and the table**: whatever record it returns, its (`ElemType`, `ElemValueType`) pair is the pair of the
base record of a row of the regenerated table, with the row's message flag, or the pair of the configured time / duration type.
(The statements after the switch only change `Type`, `ValueType`, `ValueCastFromType`.) -/
theorem C03_getTerraformType_origin (cfg : CfgView) (f : FieldD) (isMap isRep : Bool) (goType path : String) (t : TfType)
    (h : getTerraformType cfg f isMap isRep goType path = .ok t) :
    FromTable t.isMessage t.elemType t.elemValueType ∨
    (∃ s, (cfg.timeType = some s ∨ cfg.durationType = some s) ∧ t.isMessage = false ∧
        t.elemType = s.type ∧ t.elemValueType = s.valueType) := by
  intros; apply PGT.SchemaTyped.getTerraformType_origin <;> assumption

theorem C03_irwfs_of_b : ∀ fs : List Field, irwfsB fs = true → IRWFs fs := by
  intros; apply PGT.SchemaTyped.irwfs_of_b <;> assumption

/-- the kind of the attribute type and the kind of the value type agree for every row of the regenerated type table -/
theorem C03_table_agree : type_of% PGT.SchemaTyped.table_agree := PGT.SchemaTyped.table_agree
theorem C03_table_scalar : type_of% PGT.SchemaTyped.table_scalar := PGT.SchemaTyped.table_scalar
theorem C03_table_message : type_of% PGT.SchemaTyped.table_message := PGT.SchemaTyped.table_message

/-- non-vacuity: a root with a string, a list of int32 and a nullable nested message holding a map, injected attributes at both
levels: the schema's type list, `IRWFs`, `ValOKs`, and the run -/
theorem C03_schema_example_target : type_of% PGT.SchemaTyped.Example.target_is := PGT.SchemaTyped.Example.target_is
theorem C03_schema_example_irwfs : type_of% PGT.SchemaTyped.Example.irwfs := PGT.SchemaTyped.Example.irwfs
theorem C03_schema_example_valoks : type_of% PGT.SchemaTyped.Example.valoks := PGT.SchemaTyped.Example.valoks
theorem C03_schema_example_runs : type_of% PGT.SchemaTyped.Example.C03_example_runs := PGT.SchemaTyped.Example.C03_example_runs

end PGT.Props.C03
