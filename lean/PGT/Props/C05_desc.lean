import PGT.Props.C05_builtfrom
import PGT.Proofs.DescOK
/-
C05, continued – descriptor-level form (`Proofs/DescOK.lean`): prior independence for every root built from a descriptor whose Go names
pass `goNamesDescOKb` (no condition on exclusions, custom types or overrides).
-/
namespace PGT.Props.C05
open PGT PGT.Spec PGT.SchemaTyped PGT.Proofs.BuildErrors PGT.Proofs.PathUnique PGT.Proofs.ExclusionPrune PGT.Proofs.BuiltWF PGT.Proofs.BuiltRT PGT.Proofs.BuiltFrom PGT.Proofs.DescOK
open PGT.PriorIndep PGT.OrderIndep PGT.Props

/-- **C05 from the descriptor**: `BuiltFrom.C05_built_root_prior_independent` with `hygieneB` replaced by the condition on request
and configuration (exclusions, custom types and name overrides allowed) -/
theorem C05_desc_root_prior_independent (ov : List (String × String)) (cfg : Config) (req : Request) (desc : MsgD) (m : Msg)
    (hb : buildRoot cfg req desc = .ok (some m)) (hc : ConfigTypesAgree (viewOf cfg))
    (hh : goNamesDescOKb cfg req desc = true)
    (tf : TfVal) (p1 p2 : List (String × GoVal)) (hw1 : PriorWF m p1) (hw2 : PriorWF m p2) :
    ((∃ r, copyFrom ov m tf (.struct p1) = .ok r) ↔ (∃ r, copyFrom ov m tf (.struct p2) = .ok r)) ∧
    (∀ r1 r2, copyFrom ov m tf (.struct p1) = .ok r1 → copyFrom ov m tf (.struct p2) = .ok r2 →
      PriorIndepRes m (attrsOf tf) p1 p2 r1 r2) ∧
    GroupsListed m := by
  intros; apply PGT.Proofs.DescOK.C05_desc_root_prior_independent <;> assumption

end PGT.Props.C05
