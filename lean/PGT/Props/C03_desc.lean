import PGT.Props.C03_built
import PGT.Proofs.DescOK
/-
C03, continued – descriptor-level form (`Proofs/DescOK.lean`; see `Props/C04_desc.lean`): for every descriptor passing `reqOKb` and
`attrNamesDescOKb` (path-aware form with name overrides), every root the generator builds and every typed struct value.
-/
namespace PGT.Props.C03
open PGT PGT.Spec PGT.SchemaTyped PGT.Proofs.BuildErrors PGT.Proofs.PathUnique PGT.Proofs.ExclusionPrune PGT.Proofs.BuiltWF PGT.Proofs.BuiltRT PGT.Proofs.BuiltFrom PGT.Proofs.DescOK
open PGT.PriorIndep PGT.OrderIndep PGT.Props

/-- **C03 from the descriptor**: every hypothesis is a condition on the configuration (`ConfigTypesAgree`, no exclusions, no
configured custom types, no name overrides) or a decidable Boolean on request and configuration (`reqOKb`, `attrNamesDescOKb`),
or the typing of the struct value -/
theorem C03_desc_root (cfg : Config) (req : Request) (desc : MsgD) (m : Msg) (hb : buildRoot cfg req desc = .ok (some m))
    (hc : ConfigTypesAgree (viewOf cfg)) (hx : cfg.excludeFields = []) (hcu : cfg.customTypes = [])
    (hov : cfg.nameOverrides = []) (hreq : reqOKb req desc = true) (hn : attrNamesDescOKb cfg req desc = true)
    (obj : GoVal) (hv : ValOKs m.fields obj) :
    ∃ r as, copyTo m obj (.obj false false none (some (attrTypesOf m))) = .ok r ∧ r.diags = [] ∧
      r.tf = .obj false false (some as) (some (attrTypesOf m)) ∧ rendersFields m.fields obj as = true := by
  intros; apply PGT.Proofs.DescOK.C03_desc_root <;> assumption

/-- **C03 from the descriptor, every configuration without exclusions / configured custom types** (`name_overrides` allowed) -/
theorem C03_desc_root_overrides (cfg : Config) (req : Request) (desc : MsgD) (m : Msg)
    (hb : buildRoot cfg req desc = .ok (some m))
    (hc : ConfigTypesAgree (viewOf cfg)) (hx : cfg.excludeFields = []) (hcu : cfg.customTypes = [])
    (hreq : reqOKb req desc = true) (hn : attrNamesPathDescOKb cfg req desc = true)
    (obj : GoVal) (hv : ValOKs m.fields obj) :
    ∃ r as, copyTo m obj (.obj false false none (some (attrTypesOf m))) = .ok r ∧ r.diags = [] ∧
      r.tf = .obj false false (some as) (some (attrTypesOf m)) ∧ rendersFields m.fields obj as = true := by
  intros; apply PGT.Proofs.DescOK.C03_desc_root_overrides <;> assumption

end PGT.Props.C03
