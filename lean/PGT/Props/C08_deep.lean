import PGT.Props.C08
import PGT.Proofs.EchoEmbed
import PGT.Proofs.EchoOneofDeep
/-
C08, continued – the apply echo beyond the plain tree and top-level groups.

`Proofs/EchoEmbed.lean`: children of a nullable embedded message (every kind) and custom-type fields, at the top level and
recursively through singular nested messages (`PlanObjE`; `PlanObj` is the special case: `C08_planObjE_of_planObj`).
`Proofs/EchoOneofDeep.lean`: oneof groups at EVERY position of the tree – inside list / map element messages, inside the zero
struct a null / unknown by-value nested message decodes to, message branches without fields, pointer-backed scalar branches
(`PlanOKs3`). The statement left open as `C08_echo_oneof_full` is FALSE as it stood (`C08_echo_oneof_full_false`: a by-value
scalar branch whose Terraform type has no zero literal, below a list element, declared after the branch that is set – elements
are rendered from scratch, the branch comes out not null and the second decode switches the holder; such branches are outside D,
the generator never draws temporal oneof branches); the corrected statement adds the IR condition `ElemsFreshs` and is proved at
full strength (`C08_echo_oneof_deep`).
-/
namespace PGT.Props.C08
open PGT PGT.Spec

/-- **C08, apply echo, with children of nullable embedded messages and custom types** – at the top level and in nested
messages reached through singular message fields, at every depth; everything `C08_echo` covers (the plain tree) elsewhere.
`skN` / `skE` are the skip lists of `Spec.noUnknownDeep` / `Spec.echoKeeps` (any lists); `X` describes the extra attributes.
Conclusion exactly as in `C08_echo`. -/
theorem C08_echo_embed (X : String → TfVal → Prop) (ov : List (String × String)) (m : Msg) (plan : TfVal) (skN skE : List String)
    (hX : ExtraOK X skN skE) (hp : PlanObjE X skE m plan) :
    ∃ s1 e s2, copyFrom ov m plan (.struct []) = .ok s1 ∧ s1.diags = [] ∧
      copyTo m s1.obj plan = .ok e ∧ e.diags = [] ∧
      copyFrom ov m e.tf (.struct []) = .ok s2 ∧ s2.diags = [] ∧
      noUnknownDeep skN e.tf = true ∧ echoKeeps skE plan e.tf = true ∧ nfEqFields m.fields s1.obj s2.obj = true := by
  intros; apply PGT.C08_echo_embed <;> assumption

/-- **C08 in the shape of `PGT.Props.C08.C08_full`** with the skip lists of `Spec.c08Check`: whatever the three calls return,
they return no diagnostic and `c08Check` holds. (`customNames` is an opaque `partial def`: a custom attribute is either shown
to be in it – first alternative of clause (b) – or carries a value the hooks accept.) -/
theorem C08_echo_embed_check (X : String → TfVal → Prop) (ov : List (String × String)) (m : Msg) (plan : TfVal)
    (s1 : FromResult) (e : ToResult) (s2 : FromResult)
    (hX : ExtraOK X (injectedNames m.fields m.info.injected ++ customNames m.fields) (customNames m.fields))
    (hp : PlanObjE X (customNames m.fields) m plan)
    (h1 : copyFrom ov m plan (.struct []) = .ok s1) (h2 : copyTo m s1.obj plan = .ok e)
    (h3 : copyFrom ov m e.tf (.struct []) = .ok s2) :
    s1.diags = [] ∧ e.diags = [] ∧ s2.diags = [] ∧ c08Check m plan s1.obj e.tf s2.obj = true := by
  intros; apply PGT.C08_echo_embed_check <;> assumption

/-- `PlanObjE` extends `PlanObj`: `C08_echo` is the special case of `C08_echo_embed` without embedded children and custom types -/
theorem C08_planObjE_of_planObj (X : String → TfVal → Prop) (skE : List String) (m : Msg) (plan : TfVal) (h : PlanObj X m plan) :
    PlanObjE X skE m plan := by
  intros; apply PGT.planObjE_of_planObj <;> assumption

/-- **The corrected statement at full strength.** The conclusion of `C08_echo_oneof_full` for plans satisfying `PlanOKsD`
– oneof groups at every position – holds for every IR satisfying `ElemsFreshs`: below the element message of a list / map
of messages every scalar branch is held by pointer or has a zero literal. Without that condition the statement is false
(`C08_echo_oneof_full_false`: a scalar branch held by value without a zero literal). -/
theorem C08_echo_oneof_deep (X : String → TfVal → Prop) (ov : List (String × String)) (m : Msg) (plan : TfVal)
    (skN skE : List String) (hX : ExtraOK X skN skE) (hIR : ElemsFreshs m.fields)
    (hp : ∃ u n as atys, plan = .obj u n as (some atys) ∧ (u = false → n = false) ∧
      PlanOKsD X m.fields (as.getD []) atys ∧ KeysOK X m.fields (as.getD [])) :
    ∃ s1 e s2, copyFrom ov m plan (.struct []) = .ok s1 ∧ s1.diags = [] ∧
      copyTo m s1.obj plan = .ok e ∧ e.diags = [] ∧
      copyFrom ov m e.tf (.struct []) = .ok s2 ∧ s2.diags = [] ∧
      noUnknownDeep skN e.tf = true ∧ echoKeeps skE plan e.tf = true ∧ nfEqFields m.fields s1.obj s2.obj = true := by
  intros; apply PGT.C08_echo_oneof_deep <;> assumption

/-- **C08, apply echo, with oneof groups** (same conclusion as `C08_echo`): for a plan object satisfying `PlanObj3` – the
plain tree plus scalar and message branches of oneof groups, of each group at most one branch attribute not null –
* `CopyFrom(plan)` into a fresh struct succeeds without diagnostics (`s1`),
* `CopyTo(s1)` into the plan object itself succeeds without diagnostics (`e`),
* a second `CopyFrom(e)` into a fresh struct succeeds without diagnostics (`s2`),
* nothing is unknown in `e` at any depth, every attribute that was known in the plan is unchanged in `e`, and `s2`
  equals `s1` in normal form. -/
theorem C08_echo_oneof3 (X : String → TfVal → Prop) (ov : List (String × String)) (m : Msg) (plan : TfVal) (skN skE : List String)
    (hX : ExtraOK X skN skE) (hp : PlanObj3 X m plan) :
    ∃ s1 e s2, copyFrom ov m plan (.struct []) = .ok s1 ∧ s1.diags = [] ∧
      copyTo m s1.obj plan = .ok e ∧ e.diags = [] ∧
      copyFrom ov m e.tf (.struct []) = .ok s2 ∧ s2.diags = [] ∧
      noUnknownDeep skN e.tf = true ∧ echoKeeps skE plan e.tf = true ∧ nfEqFields m.fields s1.obj s2.obj = true := by
  intros; apply PGT.C08_echo_oneof3 <;> assumption

/-- **C08 with oneof groups in the shape of `PGT.Props.C08.C08_full`**: whatever the three calls return, they return no
diagnostic and the executable statement `Spec.c08Check` holds. -/
theorem C08_echo_oneof3_check (X : String → TfVal → Prop) (ov : List (String × String)) (m : Msg) (plan : TfVal)
    (s1 : FromResult) (e : ToResult) (s2 : FromResult)
    (hX : ExtraOK X (injectedNames m.fields m.info.injected ++ customNames m.fields) (customNames m.fields))
    (hp : PlanObj3 X m plan)
    (h1 : copyFrom ov m plan (.struct []) = .ok s1) (h2 : copyTo m s1.obj plan = .ok e)
    (h3 : copyFrom ov m e.tf (.struct []) = .ok s2) :
    s1.diags = [] ∧ e.diags = [] ∧ s2.diags = [] ∧ c08Check m plan s1.obj e.tf s2.obj = true := by
  intros; apply PGT.C08_echo_oneof3_check <;> assumption

theorem C08_planOKs2_planOKs3 (X : String → TfVal → Prop) : ∀ (fs : List Field) (A : List (String × TfVal)) (atys : List (String × TfTy)),
    PlanOKs2 X fs A atys → PlanOKs3 X fs A atys := by
  intros; apply PGT.planOKs2_planOKs3 <;> assumption

theorem C08_planOKsD_planOKs3 (X : String → TfVal → Prop) : ∀ (fs : List Field) (A : List (String × TfVal)) (atys : List (String × TfTy)),
    ElemsFreshs fs → PlanOKsD X fs A atys → PlanOKs3 X fs A atys := by
  intros; apply PGT.planOKsD_planOKs3 <;> assumption

theorem C08_echo_oneof_full_false : ¬ PGT.C08_echo_oneof_full := PGT.C08_echo_oneof_full_false

/-- the witness evaluated: first decode and CopyTo are quiet, the second decode differs from the first -/
theorem C08_echo_oneof_witness_fails : type_of% PGT.EchoOneofDeepWitness.witness_fails := PGT.EchoOneofDeepWitness.witness_fails

/-- non-vacuity: a list of messages whose element message has a group, two elements choosing different branches -/
theorem C08_echo_oneof_deep_example_hyp : type_of% PGT.EchoOneofDeepExample.plan_ok := PGT.EchoOneofDeepExample.plan_ok
theorem C08_echo_oneof_deep_example_runs : type_of% PGT.EchoOneofDeepExample.example_runs := PGT.EchoOneofDeepExample.example_runs

/-- non-vacuity: a nullable embedded parent with two scalar children and a custom string field; one child known / all unknown -/
theorem C08_echo_embed_example_hyp1 : type_of% PGT.EchoEmbedExample.plan1_ok := PGT.EchoEmbedExample.plan1_ok
theorem C08_echo_embed_example_hyp2 : type_of% PGT.EchoEmbedExample.plan2_ok := PGT.EchoEmbedExample.plan2_ok

end PGT.Props.C08
