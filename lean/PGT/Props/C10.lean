import PGT.Proofs.FlattenWords
import PGT.Model.Schema
import PGT.Proofs.Strings
/-
C10 – Schema flags and metadata follow the configuration.
-/
namespace PGT.Props.C10
open PGT

/-- The flattened description never contains a line break – for **every** comment string
(multi-line, indented, CRLF, blank lines, any Unicode). -/
theorem C10_description_no_newline (s : Str) : '\n' ∉ toSingleLine s := by
  intro h
  have h1 := mem_trimSpace h
  rcases mem_joinWith h1 with h2 | ⟨p, hp, hx⟩
  · simp at h2
  · simp only [List.mem_map] at hp
    obtain ⟨q, hq, rfl⟩ := hp
    exact splitOnChar_no_sep '\n' s q hq (mem_trimSpace hx)

/-- … and it has no leading or trailing white space (Go's `unicode.IsSpace` set of `strings.TrimSpace`). -/
theorem C10_description_trimmed (s : Str) :
    (∀ x, (toSingleLine s).head? = some x → isGoSpace x = false) ∧
    (∀ x, (toSingleLine s).getLast? = some x → isGoSpace x = false) :=
  ⟨fun x h => trimSpace_head_not_space _ x h, fun x h => trimSpace_last_not_space _ x h⟩

/-- the same for the two entry points the generator uses (field and message comments) -/
theorem C10_comments_single_line (s : Str) : '\n' ∉ fieldComment s ∧ '\n' ∉ messageComment s :=
  ⟨C10_description_no_newline _, C10_description_no_newline _⟩

/-- Every generated attribute is exactly one of Required / Optional, and the flags, description, validators and
plan modifiers of the schema entry are those of the IR field (which `buildFieldCore` fills from the
configuration lookups `CfgView.required / computed / sensitive / validators`, `planModsOf`, `commentOf`). -/
theorem C10_flags (f : Field) :
    ∃ ty nest attrs sfx,
      (schemaField f).2 = .mk f.info.isRequired (!f.info.isRequired) f.info.isComputed f.info.isSensitive
        f.info.comment ty nest attrs f.info.validators f.info.planModifiers sfx := by
  obtain ⟨info, mapVal, msg, sub⟩ := f
  simp [schemaField]

/-- plan modifiers: the configured list (path key first, then `Message.Field`), else `UseStateForUnknown()`
exactly when the switch is on and the field is computed, else none -/
theorem C10_plan_modifiers (cfg : CfgView) (keys : Keys) :
    planModsOf cfg keys =
      match cfg.planModifiers keys with
      | some l => l
      | none =>
        if cfg.useStateForUnknownByDefault = true ∧ cfg.computed keys = true
        then ["github.com/hashicorp/terraform-plugin-framework/tfsdk.UseStateForUnknown()"] else [] := by
  unfold planModsOf
  cases cfg.planModifiers keys <;> simp

/-- the flag lookups consult both key forms (`Message.Field` and the full path), in the regenerated order -/
theorem C10_flag_keys : lookupKeyExprs "GetFlagValue" = ["c.GetNameWithTypeName()", "c.GetPath()"] ∧
    lookupKeyExprs "GetValidators" = ["c.GetPath()", "c.GetNameWithTypeName()"] ∧
    lookupKeyExprs "GetPlanModifiers" = ["c.GetPath()", "c.GetNameWithTypeName()"] := by
  refine ⟨?_, ?_, ?_⟩ <;> decide

/-- `Required ⇔ key ∈ required_fields` under either key form -/
theorem C10_flag_value (set : List String) (k : Keys) :
    flagValue set k = (set.contains k.typeName || set.contains k.path) := by
  simp [flagValue, C10_flag_keys.1, Keys.eval]

/-- an empty message is represented by the single computed optional Bool attribute `active` -/
theorem C10_placeholder (path : String) :
    schemaAttrs [placeholderField path] =
      [("active", .mk false true true false "Automatically generated field preventing empty message errors"
          (.prim .bool) "none" [] [] [] "")] := by
  simp [schemaAttrs, schemaField, placeholderField]
  rfl

/-- injected fields appear in the schema with their configured type, flags, validators and plan modifiers -/
theorem C10_injected (m : Msg) (i : InjectedField) (h : i ∈ m.info.injected) :
    (i.name, SAttr.mk i.required i.optional i.computed false "" (primTyOf i.type) "none" [] i.validators i.planModifiers "")
      ∈ schemaOf m := by
  simp [schemaOf, injectedAttr]
  exact Or.inr ⟨i, h, rfl, rfl, rfl, rfl, rfl, rfl, rfl⟩

example : (fieldComment " First line\r\n   second line  \n\n third\n".toList) = "First line second line  third".toList := by decide

-- ------------------------------------------------------------------------------------------------------
-- "flattened": the description has exactly the words of the comment, in order (`words` = `strings.Fields`, white space =
-- `unicode.IsSpace`); proofs in `Proofs/FlattenWords.lean`

/-- `ToSingleLine` keeps the words, for every string. -/
theorem C10_description_words (s : Str) : words (toSingleLine s) = words s := by
  intros; apply words_toSingleLine <;> assumption

/-- the description of a field has exactly the words of the leading proto comment -/
theorem C10_field_comment_words (s : Str) : words (fieldComment s) = words s := by
  intros; apply words_fieldComment <;> assumption

/-- the description of a message has exactly the words of the leading proto comment -/
theorem C10_message_comment_words (s : Str) : words (messageComment s) = words s := by
  intros; apply words_messageComment <;> assumption

/-- **Exact form of the output**: the trimmed lines, without the blank ones at both ends, joined by single spaces. -/
theorem C10_description_exact (s : Str) :
    toSingleLine s = joinWith [' '] (stripBlank ((splitOnChar '\n' s).map trimSpace)) := by
  intros; apply toSingleLine_eq <;> assumption

/-- two single lines -/
theorem C10_line_break_one_space (u v : Str) (hu : '\n' ∉ u) (hv : '\n' ∉ v)
    (hu' : trimSpace u ≠ []) (hv' : trimSpace v ≠ []) :
    toSingleLine (u ++ '\n' :: v) = trimSpace u ++ ' ' :: trimSpace v := by
  intros; apply toSingleLine_two_lines <;> assumption

/-- counterexample for the ASCII white-space set -/
theorem C10_words_need_unicode_space :
    asciiWords (toSingleLine ['a', '\x0b', '\n', 'b']) ≠ asciiWords ['a', '\x0b', '\n', 'b'] := by
  intros; apply asciiWords_toSingleLine_counterexample <;> assumption


end PGT.Props.C10
