import PGT.Model.Schema
/-
C18 – A selected type is generated whole or not at all.
-/
namespace PGT.Props.C18
open PGT

/-- an error in any field aborts the whole field list (the loop of `BuildFields` returns at the first error) -/
theorem C18_collect_error {ε α} (l : List (Except ε (List α))) (e : ε) (h : Except.error e ∈ l) :
    ∃ e', collectFields l = .error e' := by
  induction l with
  | nil => simp at h
  | cons x rest ih =>
    cases x with
    | error e0 => exact ⟨e0, rfl⟩
    | ok fs =>
      simp at h
      obtain ⟨e', he'⟩ := ih h
      exact ⟨e', by simp [collectFields, he']⟩

/-- conversely a field list is built only when every field is -/
theorem C18_collect_ok {ε α} (l : List (Except ε (List α))) (r : List α) (h : collectFields l = .ok r) :
    ∀ x ∈ l, ∃ fs, x = .ok fs := by
  induction l generalizing r with
  | nil => simp
  | cons x rest ih =>
    cases x with
    | error e0 => simp [collectFields] at h
    | ok fs =>
      simp only [collectFields] at h
      cases hr : collectFields rest with
      | error e => simp [hr] at h
      | ok more =>
        intro y hy
        simp at hy
        rcases hy with rfl | hy
        · exact ⟨fs, rfl⟩
        · exact ih more hr y hy

/-- a time (resp. duration) field without a configured `time_type` (`duration_type`) cannot be mapped -/
theorem C18_time_unmappable (cfg : CfgView) (f : FieldD) (isMap isRep : Bool) (goType path : String)
    (ht : f.isTime = true) (hc : cfg.timeType = none) :
    getTerraformType cfg f isMap isRep goType path = .error (.timeTypeMissing path) := by
  unfold getTerraformType
  have hrow : Generated.typeRows.find? (rowMatches cfg f isMap) =
      some { kind := "time", protos := [], stds := [], base := "", castFrom := "", isMessage := false } := by
    simp [Generated.typeRows, List.find?, rowMatches, ht]
  simp [hrow, hc]

/-- the exclusion test comes first: an excluded field yields no IR and no error, whatever its type -/
theorem C18_excluded_first (fuel : Nat) (cfg : CfgView) (req : Request) (ctx : MsgCtx) (f : FieldD) (keys : Keys)
    (goType : String) (isMap isRep hasComment : Bool) (h : cfg.excluded keys = true) :
    buildFieldCore (fuel + 1) cfg req ctx f keys goType isMap isRep hasComment = .ok [] := by
  unfold buildFieldCore
  simp [h]

/-- a root whose build fails is reported and contributes no function; the other roots are unaffected
(each root is built by its own call) -/
theorem C18_failed_root_not_emitted (cfg : Config) (req : Request) (m : Msg)
    (h : m ∈ (buildRoots cfg req).1) :
    ∃ d ∈ req.allFiles.flatMap (·.messages), buildRoot cfg req d = .ok (some m) := by
  unfold buildRoots at h
  simp only at h
  have hm : m ∈ (List.map (fun d => (d.name, buildRoot cfg req d)) (req.allFiles.flatMap (·.messages))).filterMap
      (fun x => match x.2 with | .ok (some m) => some m | _ => none) := by
    split at h
    · -- sorted: insertion keeps the elements
      have : ∀ (l : List Msg) (x : Msg), x ∈ l.foldr insertMsgByName [] → x ∈ l := by
        intro l
        induction l with
        | nil => simp
        | cons a l ih =>
          intro x hx
          simp only [List.foldr] at hx
          have hins : ∀ (s : List Msg) (y z : Msg), y ∈ insertMsgByName z s → y = z ∨ y ∈ s := by
            intro s
            induction s with
            | nil => intro y z hy; simp [insertMsgByName] at hy; exact Or.inl hy
            | cons g gs ihs =>
              intro y z hy
              simp only [insertMsgByName] at hy
              split at hy
              · simp at hy; rcases hy with rfl | rfl | hy
                · exact Or.inl rfl
                · exact Or.inr (by simp)
                · exact Or.inr (by simp [hy])
              · simp at hy; rcases hy with rfl | hy
                · exact Or.inr (by simp)
                · rcases ihs y z hy with rfl | h'
                  · exact Or.inl rfl
                  · exact Or.inr (by simp [h'])
          rcases hins _ x a hx with rfl | h'
          · simp
          · simp [ih x h']
      exact this _ m h
    · exact h
  simp only [List.mem_filterMap, List.mem_map] at hm
  obtain ⟨⟨n, r⟩, ⟨d, hd, hdr⟩, hr⟩ := hm
  simp only [Prod.mk.injEq] at hdr
  obtain ⟨rfl, rfl⟩ := hdr
  refine ⟨d, hd, ?_⟩
  simp only at hr
  split at hr
  · rename_i m' hm'
    simp at hr
    subst hr
    exact hm'
  · simp at hr

end PGT.Props.C18
