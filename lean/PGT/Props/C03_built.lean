import PGT.Props.C03_schema
import PGT.Proofs.BuiltWF
/-
C03 / C20 / C04 / C06, continued – for the IRs the FRONT END builds (proofs: `Proofs/BuiltWF.lean`).

`C03_schema_typed` needs `IRWFs` of the IR. Here the IR is the one `buildMessage` / `buildRoot` returns: an invariant of every
built node (`Built`, by induction over the fuel, no hypothesis) gives the node-level part of `IRWFs` except four conjuncts that
the build does NOT guarantee – each shown by a built witness (`C03_built_gap_*`): a list / map of a message WITHOUT fields
(`isEmptyMsg`), a nested message all of whose fields are excluded (no children, no placeholder), a oneof inside a message embedded
by pointer (finding F10's shape), a oneof branch that is a custom type / repeated. The gap is an exact Boolean on the IR
(`gapFreeBs`; `C03_built_irwfs_iff`: for a built IR under `ConfigTypesAgree`, `IRWFs ↔ gapFreeBs ∧ namesOKsB`), and it is closed
by decidable conditions on the descriptor and configuration (`reqOKb`, no exclusions, no configured custom types:
`C03_built_nodeWF`). Then the statements read "for every root the generator builds – gap-free, attribute names pairwise distinct
per level –, every typed struct value: CopyTo into the empty schema-typed object …" (`C03_built_root`, `C20_built_root`,
`C04_built_root`, `C06_built_root`; `…_roots` for `buildRoots`). Also for every built IR, without hypothesis: `VFOKs`
(`C06_built_vfoks`, the side condition of the diagnostics census), and under `ConfigTypesAgree` the node coherence facts the
round-trip theorems assume of a node alone (`C03_built_coherent`).
-/
namespace PGT.Props.C03
open PGT PGT.Spec PGT.SchemaTyped PGT.Proofs.BuildErrors PGT.Proofs.PathUnique PGT.Proofs.ExclusionPrune PGT.Proofs.BuiltWF

/-- **`IRWFs` = node part ∧ name part** (`NamesOKs`: SchemaTyped, pairwise distinct attribute names at every level reached
through message-valued fields) -/
theorem C03_irwfs_iff : ∀ fs : List Field, IRWFs fs ↔ NodeWFs fs ∧ NamesOKs fs := by
  intros; apply PGT.Proofs.BuiltWF.irwfs_iff <;> assumption

/-- **MAIN**: for every fuel, view, request, descriptor, root flag and path – the IR the front end builds satisfies the
guaranteed part of `IRWF`'s node facts at every depth. The only hypothesis: the configured time / duration types name a
type and a value type of the same primitive kind (`ConfigTypesAgree`, SchemaTyped). -/
theorem C03_built_nodeWF_guaranteed (fuel : Nat) (V : CfgView) (req : Request) (desc : MsgD) (isRoot : Bool) (path : String) (m : Msg)
    (h : buildMessage fuel V req desc isRoot path = .ok m) (hc : ConfigTypesAgree V) : NodeWFs' m.fields := by
  intros; apply PGT.Proofs.BuiltWF.built_nodeWF' <;> assumption

/-- … and `NodeWFs` itself exactly when the IR has none of the four gaps (a Boolean on the built IR) -/
theorem C03_built_nodeWF_iff (fuel : Nat) (V : CfgView) (req : Request) (desc : MsgD) (isRoot : Bool) (path : String) (m : Msg)
    (h : buildMessage fuel V req desc isRoot path = .ok m) (hc : ConfigTypesAgree V) :
    NodeWFs m.fields ↔ gapFreeBs m.fields = true := by
  intros; apply PGT.Proofs.BuiltWF.built_nodeWF_iff <;> assumption

/-- **built IRs: `IRWFs` ⇔ no gap ∧ distinct names** – both decidable on the IR -/
theorem C03_built_irwfs_iff (fuel : Nat) (V : CfgView) (req : Request) (desc : MsgD) (isRoot : Bool) (path : String) (m : Msg)
    (h : buildMessage fuel V req desc isRoot path = .ok m) (hc : ConfigTypesAgree V) :
    IRWFs m.fields ↔ gapFreeBs m.fields = true ∧ namesOKsB m.fields = true := by
  intros; apply PGT.Proofs.BuiltWF.built_irwfs_iff <;> assumption

/-- **the gap closed**: without exclusions, without configured custom types, under the descriptor conditions -/
theorem C03_built_gapFree (fuel : Nat) (V : CfgView) (req : Request) (desc : MsgD) (isRoot : Bool) (path : String) (m : Msg)
    (h : buildMessage fuel V req desc isRoot path = .ok m) (hx : NoExclusion V) (hcu : NoConfiguredCustom V)
    (hreq : reqOKb req desc = true) : gapFreeBs m.fields = true := by
  intros; apply PGT.Proofs.BuiltWF.built_gapFree <;> assumption

/-- **the gap closed, with exclusions allowed**: under the descriptor conditions (`reqOKb`, decidable on the request) and
without configured custom types, the only gap left is `sub ≠ []`, a Boolean on the built IR -/
theorem C03_built_gapFree_of_subs (fuel : Nat) (V : CfgView) (req : Request) (desc : MsgD) (isRoot : Bool) (path : String) (m : Msg)
    (h : buildMessage fuel V req desc isRoot path = .ok m) (hcu : NoConfiguredCustom V) (hreq : reqOKb req desc = true)
    (hsub : subsNEBs m.fields = true) : gapFreeBs m.fields = true := by
  intros; apply PGT.Proofs.BuiltWF.built_gapFree_of_subs <;> assumption

/-- **MAIN, full node predicate**: `buildMessage … = .ok m → NodeWFs m.fields`, for every fuel, view, request, descriptor,
root flag and path, under `ConfigTypesAgree` and the conditions that close the gap -/
theorem C03_built_nodeWF (fuel : Nat) (V : CfgView) (req : Request) (desc : MsgD) (isRoot : Bool) (path : String) (m : Msg)
    (h : buildMessage fuel V req desc isRoot path = .ok m) (hc : ConfigTypesAgree V) (hx : NoExclusion V)
    (hcu : NoConfiguredCustom V) (hreq : reqOKb req desc = true) : NodeWFs m.fields := by
  intros; apply PGT.Proofs.BuiltWF.built_nodeWF <;> assumption

/-- **every node of a built IR is coherent** (`NodeCoh`), for every fuel, view, request, descriptor, root flag, path -/
theorem C03_built_coherent (fuel : Nat) (V : CfgView) (req : Request) (desc : MsgD) (isRoot : Bool) (path : String) (m : Msg)
    (h : buildMessage fuel V req desc isRoot path = .ok m) (hc : ConfigTypesAgree V) : AllNodess NodeCoh m.fields := by
  intros; apply PGT.Proofs.BuiltWF.built_coherent <;> assumption

/-- **a built root is well formed** exactly when it has no gap and distinct names per level (two Booleans on the IR) -/
theorem C03_root_irwfs_iff (cfg : Config) (req : Request) (desc : MsgD) (m : Msg) (hb : buildRoot cfg req desc = .ok (some m))
    (hc : ConfigTypesAgree (viewOf cfg)) : IRWFs m.fields ↔ gapFreeBs m.fields = true ∧ namesOKsB m.fields = true := by
  intros; apply PGT.Proofs.BuiltWF.root_irwfs_iff <;> assumption

/-- … and under the descriptor / configuration conditions exactly when its attribute names are distinct per level -/
theorem C03_root_irwfs_desc (cfg : Config) (req : Request) (desc : MsgD) (m : Msg) (hb : buildRoot cfg req desc = .ok (some m))
    (hc : ConfigTypesAgree (viewOf cfg)) (hx : cfg.excludeFields = []) (hcu : cfg.customTypes = [])
    (hreq : reqOKb req desc = true) : IRWFs m.fields ↔ namesOKsB m.fields = true := by
  intros; apply PGT.Proofs.BuiltWF.root_irwfs_desc <;> assumption

/-- **C03 for every root the generator builds**: the configured time / duration types agree; the built IR has no gap and
pairwise distinct attribute names per level (Booleans on the IR); then for every typed struct value CopyTo into the empty
schema-typed object succeeds without diagnostics and the stored attributes render the value -/
theorem C03_built_root (cfg : Config) (req : Request) (desc : MsgD) (m : Msg) (hb : buildRoot cfg req desc = .ok (some m))
    (hc : ConfigTypesAgree (viewOf cfg)) (hg : gapFreeBs m.fields = true) (hn : namesOKsB m.fields = true)
    (obj : GoVal) (hv : ValOKs m.fields obj) :
    ∃ r as, copyTo m obj (.obj false false none (some (attrTypesOf m))) = .ok r ∧ r.diags = [] ∧
      r.tf = .obj false false (some as) (some (attrTypesOf m)) ∧ rendersFields m.fields obj as = true := by
  intros; apply PGT.Proofs.BuiltWF.C03_built_root <;> assumption

/-- **C03 from the descriptor**: no exclusions, no configured custom types, the descriptor conditions `reqOKb` (decidable
on the request), distinct attribute names per level (decidable on the IR) -/
theorem C03_built_root_desc (cfg : Config) (req : Request) (desc : MsgD) (m : Msg)
    (hb : buildRoot cfg req desc = .ok (some m))
    (hc : ConfigTypesAgree (viewOf cfg)) (hx : cfg.excludeFields = []) (hcu : cfg.customTypes = [])
    (hreq : reqOKb req desc = true) (hn : namesOKsB m.fields = true) (obj : GoVal) (hv : ValOKs m.fields obj) :
    ∃ r as, copyTo m obj (.obj false false none (some (attrTypesOf m))) = .ok r ∧ r.diags = [] ∧
      r.tf = .obj false false (some as) (some (attrTypesOf m)) ∧ rendersFields m.fields obj as = true := by
  intros; apply PGT.Proofs.BuiltWF.C03_built_root_desc <;> assumption

/-- the same for every message `buildRoots` emits -/
theorem C03_built_roots (cfg : Config) (req : Request) (m : Msg) (hm : m ∈ (buildRoots cfg req).1)
    (hc : ConfigTypesAgree (viewOf cfg)) (hg : gapFreeBs m.fields = true) (hn : namesOKsB m.fields = true)
    (obj : GoVal) (hv : ValOKs m.fields obj) :
    ∃ r as, copyTo m obj (.obj false false none (some (attrTypesOf m))) = .ok r ∧ r.diags = [] ∧
      r.tf = .obj false false (some as) (some (attrTypesOf m)) ∧ rendersFields m.fields obj as = true := by
  intros; apply PGT.Proofs.BuiltWF.C03_built_roots <;> assumption

/-- the unconditional statement (only `ConfigTypesAgree`) is false -/
theorem C03_built_nodeWF_full_false : ¬ PGT.Proofs.BuiltWF.built_nodeWF_full := PGT.Proofs.BuiltWF.built_nodeWF_full_false
theorem C03_built_noExclusion_needed : type_of% PGT.Proofs.BuiltWF.noExclusion_needed := PGT.Proofs.BuiltWF.noExclusion_needed
theorem C03_built_configTypesAgree_needed : type_of% PGT.Proofs.BuiltWF.configTypesAgree_needed := PGT.Proofs.BuiltWF.configTypesAgree_needed

/-- the four conjuncts of `IRWF` that built IRs need not satisfy, each with a built witness (`decide +kernel`) -/
theorem C03_built_gap_emptyElement : type_of% PGT.Proofs.BuiltWF.Witness.w1_emptyElement := PGT.Proofs.BuiltWF.Witness.w1_emptyElement
theorem C03_built_gap_noChildren : type_of% PGT.Proofs.BuiltWF.Witness.w2_noChildren := PGT.Proofs.BuiltWF.Witness.w2_noChildren
theorem C03_built_gap_branchUnderNullableEmbed : type_of% PGT.Proofs.BuiltWF.Witness.w3_branchUnderNullableEmbed :=
  PGT.Proofs.BuiltWF.Witness.w3_branchUnderNullableEmbed
theorem C03_built_gap_customBranch : type_of% PGT.Proofs.BuiltWF.Witness.w4_customBranch := PGT.Proofs.BuiltWF.Witness.w4_customBranch

/-- sanity: a built root with 15 attributes covering the templates is gap-free with distinct names, evaluated in the kernel -/
theorem C03_built_sanity : type_of% PGT.Proofs.BuiltWF.Sanity.built_checks := PGT.Proofs.BuiltWF.Sanity.built_checks
theorem C03_built_sanity_runs : type_of% PGT.Proofs.BuiltWF.Sanity.C03_sanity := PGT.Proofs.BuiltWF.Sanity.C03_sanity

end PGT.Props.C03
