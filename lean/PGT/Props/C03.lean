import PGT.Proofs.ToFlat
/-
C03 – CopyTo into an empty schema-typed object is total and schema-conformant.

Full statement: `C03_full`. Proved here: `C03_plain_partial` (messages of scalars held by value, any number of
fields). The other templates are covered by the correspondence and by `Spec.c03Check` evaluated on the
implementation's outputs; the unchanged code violates the full statement on values with a nil nullable embedded
message that has message / list / map children (finding F1b, `C03_full_false_witness`).
-/
namespace PGT.Props.C03
open PGT PGT.Spec

def C03_full : Prop :=
  ∀ (m : Msg) (v : GoVal), ∃ r, copyTo m v (.obj false false none (some (attrTypesOf m))) = .ok r ∧
    c03Check m false r.diags r.tf = true

/-- totality and conformance for messages of scalars held by value: no panic, no diagnostic, every attribute present
with a known value of the kind the target's attribute type has, and attributes of other fields are not touched -/
theorem C03_plain_partial (m : Msg) (obj : GoVal) (atys : Option (List (String × TfTy)))
    (hnd : (m.fields.map (·.info.nameSnake)).Nodup)
    (hok : ∀ f ∈ m.fields, ∃ k s c null, PlainOK f obj atys k s c null) :
    ∃ r as, copyTo m obj (.obj false false none atys) = .ok r ∧ r.diags = [] ∧
      r.tf = .obj false false (some as) atys ∧
      ∀ f ∈ m.fields, ∃ k null c, (atys.getD []).lookup f.info.nameSnake = some (.prim k) ∧
        as.lookup f.info.nameSnake = some (.prim k false null c) := by
  obtain ⟨st', hrun, hd, _, hall, _⟩ :=
    copyToFields_plain obj atys m.fields { attrs := [] } hnd (by intro f _; simp [List.lookup]) hok
  refine ⟨{ tf := .obj false false (some st'.attrs) atys, diags := st'.diags, hooks := st'.hooks }, st'.attrs, ?_, ?_, rfl, ?_⟩
  · simp [copyTo, hrun]
  · simp [hd]
  · intro f hf
    obtain ⟨k, s, c, null, hpo, hlook⟩ := hall f hf
    exact ⟨k, null, c, hpo.ty, hlook⟩

/-- a missing attribute type is reported and the field skipped (never a panic) -/
theorem C03_missing_type (f : Field) (obj : GoVal) (atys : Option (List (String × TfTy))) (st : ToSt)
    (h : (atys.getD []).lookup f.info.nameSnake = none) :
    copyToField f obj atys st = .ok (st.diag (.writeMissing f.info.path)) := by
  obtain ⟨info, mapVal, msg, sub⟩ := f
  simp only at h
  simp [copyToField, copyToFieldWith, h]

/-- The witness of finding F1b: a nullable embedded message `Emb` that is nil and has a list child. -/
def f1bField : Field :=
  { info := { name := "L", nameSnake := "l", kind := .primitiveList, isRepeated := true, protoType := "string",
              parentIsOptionalEmbed := true, parentIsOptionalEmbedFieldName := "Emb", parentIsOptionalEmbedFullType := "Emb",
              tf := { type := "github.com/hashicorp/terraform-plugin-framework/types.ListType",
                      valueType := "github.com/hashicorp/terraform-plugin-framework/types.List",
                      elemValueType := "github.com/hashicorp/terraform-plugin-framework/types.String",
                      valueCastToType := "string", valueCastFromType := "string", zeroValue := "\"\"" } } }

theorem C03_full_false_witness :
    (match copyTo { info := { name := "Root" }, fields := [f1bField] } (.struct [("Emb", .ptr none)])
      (.obj false false none (some [("l", .list (some (.prim .string)))])) with
     | .panic w => w == "nil-deref"
     | _ => false) = true := by
  decide

end PGT.Props.C03
