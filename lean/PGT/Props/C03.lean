import PGT.Proofs.ToFlat
import PGT.Proofs.ToRender
/-
C03 – CopyTo into an empty schema-typed object is total and schema-conformant.

Full statement: `C03_full`. Proved here: `C03_plain_partial` (messages of scalars held by value, any number of
fields). The other templates are covered by the correspondence and by `Spec.c03Check` evaluated on the
implementation's outputs; finding F1b (nil nullable embedded message with message / list / map
children: panic) is repaired in /repo, its former witness now runs (`C03_f1b_witness_repaired`).
-/
namespace PGT.Props.C03
open PGT PGT.Spec

def C03_full : Prop :=
  ∀ (m : Msg) (v : GoVal), ∃ r, copyTo m v (.obj false false none (some (attrTypesOf m))) = .ok r ∧
    c03Check m false r.diags r.tf = true

/-- totality and conformance for messages of scalars held by value: no panic, no diagnostic, every attribute present
with a known value of the kind the target's attribute type has, and attributes of other fields are not touched -/
theorem C03_plain_partial (m : Msg) (obj : GoVal) (atys : Option (List (String × TfTy)))
    (hnd : (m.fields.map (·.info.nameSnake)).Nodup)
    (hok : ∀ f ∈ m.fields, ∃ k s c null, PlainOK f obj atys k s c null) :
    ∃ r as, copyTo m obj (.obj false false none atys) = .ok r ∧ r.diags = [] ∧
      r.tf = .obj false false (some as) atys ∧
      ∀ f ∈ m.fields, ∃ k null c, (atys.getD []).lookup f.info.nameSnake = some (.prim k) ∧
        as.lookup f.info.nameSnake = some (.prim k false null c) := by
  obtain ⟨st', hrun, hd, _, hall, _⟩ :=
    copyToFields_plain obj atys m.fields { attrs := [] } hnd (by intro f _; simp [List.lookup]) hok
  refine ⟨{ tf := .obj false false (some st'.attrs) atys, diags := st'.diags, hooks := st'.hooks }, st'.attrs, ?_, ?_, rfl, ?_⟩
  · simp [copyTo, hrun]
  · simp [hd]
  · intro f hf
    obtain ⟨k, s, c, null, hpo, hlook⟩ := hall f hf
    exact ⟨k, null, c, hpo.ty, hlook⟩

/-- **C03 for every template** (scalars, pointer scalars, placeholder, oneof branches, children of embedded
messages, nested messages, lists and maps of scalars and of messages, custom types), at every nesting depth, for
every number of fields: under `ToOKs` – the value is typed for the IR, every attribute has its type in the target,
attribute names are pairwise distinct, and no message / list / map / custom child is read through a nil
embedded pointer (finding F1b) – CopyTo into the object that carries the types and no values
* does not panic and returns no diagnostic,
* stores for every field an attribute that `Spec.rendersVal` accepts: present, known (nothing unknown at any depth),
  of the kind of the target's type, payload = cast of the field, null-ness per C20, lists / maps with exactly the
  source's elements / keys, nested objects recursively.
`ToOKs` is defined in `PGT/Proofs/ToAll.lean`; `C03_ToOKs_example` shows a non-trivial value satisfying it. -/
theorem C03_total (m : Msg) (obj : GoVal) (atys : List (String × TfTy)) (h : ToOKs m.fields obj atys) :
    ∃ r as, copyTo m obj (.obj false false none (some atys)) = .ok r ∧ r.diags = [] ∧
      r.tf = .obj false false (some as) (some atys) ∧ rendersFields m.fields obj as = true := by
  obtain ⟨st', hrun, hd, _, hr, _⟩ :=
    toFields_renders m.fields obj atys { attrs := [] } h (by intro f _; simp [List.lookup])
  refine ⟨{ tf := .obj false false (some st'.attrs) (some atys), diags := st'.diags, hooks := st'.hooks }, st'.attrs, ?_, ?_, rfl, hr⟩
  · simp [copyTo, hrun]
  · simpa using hd

/-- every generated attribute is present in a rendering -/
theorem C03_present : ∀ (fs : List Field) (obj : GoVal) (as : List (String × TfVal)),
    rendersFields fs obj as = true → ∀ f ∈ fs, (as.lookup f.info.nameSnake).isSome = true
  | [], _, _, _ => by simp
  | g :: rest, obj, as, h => by
    unfold rendersFields at h
    simp only [Bool.and_eq_true] at h
    intro f hf
    simp at hf
    rcases hf with rfl | hf
    · cases hl : as.lookup f.info.nameSnake with
      | none => simp [hl] at h
      | some a => rfl
    · exact C03_present rest obj as h.2 f hf

/-- a missing attribute type is reported and the field skipped (never a panic) -/
theorem C03_missing_type (f : Field) (obj : GoVal) (atys : Option (List (String × TfTy))) (st : ToSt)
    (h : (atys.getD []).lookup f.info.nameSnake = none) :
    copyToField f obj atys st = .ok (st.diag (.writeMissing f.info.path)) := by
  obtain ⟨info, mapVal, msg, sub⟩ := f
  simp only at h
  simp [copyToField, copyToFieldWith, h]

/-- The former witness of finding F1b (fixed in /repo): a nullable embedded message `Emb` that is nil and has a list child. -/
def f1bField : Field :=
  { info := { name := "L", nameSnake := "l", kind := .primitiveList, isRepeated := true, protoType := "string",
              parentIsOptionalEmbed := true, parentIsOptionalEmbedFieldName := "Emb", parentIsOptionalEmbedFullType := "Emb",
              tf := { type := "github.com/hashicorp/terraform-plugin-framework/types.ListType",
                      valueType := "github.com/hashicorp/terraform-plugin-framework/types.List",
                      elemValueType := "github.com/hashicorp/terraform-plugin-framework/types.String",
                      valueCastToType := "string", valueCastFromType := "string", zeroValue := "\"\"" } } }

/-- with the repaired generator the list child of a nil embedded message is rendered as a null list -/
theorem C03_f1b_witness_repaired :
    (match copyTo { info := { name := "Root" }, fields := [f1bField] } (.struct [("Emb", .ptr none)])
      (.obj false false none (some [("l", .list (some (.prim .string)))])) with
     | .ok r => (match r.tf with
        | .obj _ _ (some [("l", .list false true _ _)]) _ => r.diags.isEmpty
        | _ => false)
     | _ => false) = true := by
  decide

/-- non-vacuity of `ToOKs`: a message with a string, a nullable nested message holding a list of int32 and a map
of strings, typed value with non-trivial content -/
def exInner : List Field :=
  [{ info := { name := "L", nameSnake := "l", kind := .primitiveList, isRepeated := true, protoType := "int32",
               tf := { elemValueType := "github.com/hashicorp/terraform-plugin-framework/types.Int64", valueCastToType := "int64",
                       valueCastFromType := "int32", zeroValue := "0" } } }]
def exFields : List Field :=
  [{ info := { name := "S", nameSnake := "s", kind := .primitive, protoType := "string",
               tf := { elemValueType := "github.com/hashicorp/terraform-plugin-framework/types.String", valueCastToType := "string",
                       valueCastFromType := "string", zeroValue := "\"\"" } } },
   { info := { name := "N", nameSnake := "n", kind := .object, isNullable := true }, msg := some { name := "Inner" }, sub := exInner }]
def exObj : GoVal := .struct [("S", .sc (.str [104, 105])), ("N", .ptr (some (.struct [("L", .slice (some [.sc (.w32 7), .sc (.w32 0)]))])))]
def exTys : List (String × TfTy) := [("s", .prim .string), ("n", .obj (some [("l", .list (some (.prim .int64)))]))]

theorem C03_example_runs :
    (match copyTo { info := { name := "M" }, fields := exFields } exObj (.obj false false none (some exTys)) with
     | .ok r => (match r.tf with | .obj _ _ (some as) _ => rendersFields exFields exObj as && r.diags.isEmpty | _ => false)
     | _ => false) = true := by
  decide

end PGT.Props.C03
