import PGT.Proofs.HookCensus
import PGT.Model.Schema
import PGT.Model.CopyTo
import PGT.Model.CopyFrom
import PGT.Generated.Texts
/-
C17 – Custom-type fields are delegated to the user's three hooks.
-/
namespace PGT.Props.C17
open PGT

/-- `<S>` is the configured suffix for the custom type, else the type name with dots and slashes removed;
the custom type is the `custom_types` entry for the field's path, else the gogoproto.customtype option -/
theorem C17_suffix (cfg : CfgView) (f : FieldD) (keys : Keys) (h : isCustomOf cfg f keys = true) :
    suffixOf cfg f keys =
      match cfg.suffix ((cfg.customType keys).getD f.customType) with
      | some s => s
      | none => stripChars ((cfg.customType keys).getD f.customType) ['/', '.'] := by
  unfold suffixOf
  simp [h]
  cases cfg.customType keys <;> simp <;> rfl

/-- `custom_types` is keyed by the full path only (regenerated lookup order) -/
theorem C17_custom_key : lookupKeyExprs "GetCustomType" = ["c.GetPath()"] ∧ lookupKeyExprs "IsCustomType" = ["c.GetPath()"] := by
  constructor <;> decide

/-- the hook-call shapes of the three generators are those of the source (translator T5) -/
theorem C17_call_shapes :
    Generated.sourceFacts.lookup "customSchemaCall" = some true ∧
    Generated.sourceFacts.lookup "customFromCall" = some true ∧
    Generated.sourceFacts.lookup "customToCall" = some true := by
  refine ⟨?_, ?_, ?_⟩ <;> decide

/-- schema: a custom field's entry is `GenSchema<S>(ctx, attr)` where `attr` carries exactly the description and
flags of C10 (no type of its own, no nested attributes) -/
theorem C17_schema (f : Field) (h : f.info.kind = .custom) :
    ∃ ty, (schemaField f).2 = .mk f.info.isRequired (!f.info.isRequired) f.info.isComputed f.info.isSensitive
      f.info.comment ty "none" [] f.info.validators f.info.planModifiers f.info.suffix := by
  obtain ⟨info, mapVal, msg, sub⟩ := f
  simp only at h
  simp [schemaField, h]

/-- CopyTo: no conversion of its own – the attribute becomes the value returned by
`CopyTo<S>(diags, obj.F, AttrTypes[name], Attrs[name])`, and exactly that call is made -/
theorem C17_copy_to (rec : ToRec) (info : FieldInfo) (msg : Option MsgInfo) (se : Bool) (obj : GoVal)
    (atys : Option (List (String × TfTy))) (st : ToSt) (a : TfTy) (x : GoVal) (v : TfVal)
    (hk : info.kind = .custom) (hty : (atys.getD []).lookup info.nameSnake = some a)
    (hx : readField info obj = .ok x) (hv : hookTo info.isRepeated x = some v) :
    copyToFieldWith rec info msg se obj atys st =
      .ok { attrs := setKey info.nameSnake v st.attrs, diags := st.diags,
            hooks := st.hooks ++ [.copyTo ("CopyTo" ++ info.suffix) x (some a) ((st.attrs.lookup info.nameSnake).getD .nilv)] } := by
  unfold copyToFieldWith
  simp [hty, hk, hx, hv, ToSt.set]

/-- a missing attribute type is reported as a diagnostic and the hook is not called -/
theorem C17_copy_to_missing (rec : ToRec) (info : FieldInfo) (msg : Option MsgInfo) (se : Bool) (obj : GoVal)
    (atys : Option (List (String × TfTy))) (st : ToSt)
    (hty : (atys.getD []).lookup info.nameSnake = none) :
    copyToFieldWith rec info msg se obj atys st = .ok (st.diag (.writeMissing info.path)) := by
  unfold copyToFieldWith
  simp [hty]

/-- CopyFrom: `CopyFrom<S>(diags, Attrs[name], &obj.F)` is called – also when the attribute is missing, which is
still reported as a diagnostic first – and the field holds what the hook stored -/
theorem C17_copy_from (rec : FromRec) (ov : List (String × String)) (info : FieldInfo) (mv : Option FieldInfo)
    (msg : Option MsgInfo) (attrs : Option (List (String × TfVal))) (st : FromSt) (hk : info.kind = .custom)
    (hp : info.parentIsOptionalEmbed = false) :
    copyFromFieldWith rec ov info mv msg attrs st =
      let a? := (attrs.getD []).lookup info.nameSnake
      let st' := match a? with | none => st.diag (.readMissing info.path) | some _ => st
      .ok { st' with obj := st'.obj.setField info.name (hookFrom info.isRepeated (a?.getD .nilv)),
                     hooks := st'.hooks ++ [.copyFrom ("CopyFrom" ++ info.suffix) (a?.getD .nilv)] } := by
  unfold copyFromFieldWith
  simp [hk, writeField, hp]
  cases (attrs.getD []).lookup info.nameSnake <;> simp [FromSt.diag]

-- ------------------------------------------------------------------------------------------------------
-- the hook log is an exact census (proofs: `Proofs/HookCensus.lean`; no hypothesis on the IR, the Terraform value or the prior
-- state for CopyFrom): a CopyFrom call appends exactly one `CopyFrom<Suffix>` call per custom field it visits – also when the
-- attribute is missing, null or unknown –, handed the attribute as found, in visiting order, and nothing else; CopyTo appends one
-- `CopyTo<Suffix>` call per readable custom field whose attribute type is present, handed the struct value, the attribute type
-- and the attribute the target holds at that moment.

/-- **the hook calls of the field blocks of a message are exactly the census** `fromHooksFields`, appended in order to
the log present before – every IR, every Terraform value, every prior state; independent of the import path overrides -/
theorem C17_from_hooks_exact (ov : List (String × String)) : ∀ (fs : List Field) (attrs : Option (List (String × TfVal)))
    (st st' : FromSt), copyFromFields ov fs attrs st = .ok st' →
      st'.hooks = st.hooks ++ fromHooksFields fs (attrs.getD []) := by
  intros; apply PGT.fromFields_hooks <;> assumption

/-- **`Copy<T>FromTerraform` calls exactly the census**: the source is an object and the hook log returned is
`fromHooksFields` of its attributes -/
theorem C17_copyFrom_hooks_exact (ov : List (String × String)) (m : Msg) (tf : TfVal) (obj : GoVal) (r : FromResult)
    (h : copyFrom ov m tf obj = .ok r) :
    ∃ u n as tys, tf = .obj u n as tys ∧ r.hooks = fromHooksFields m.fields (as.getD []) := by
  intros; apply PGT.copyFrom_hooks <;> assumption

/-- **(a) on runs**: every completed run of the field blocks has made at least one call per custom field of the
message, whatever the input and the prior state … -/
theorem C17_from_calls_every_custom_field (ov : List (String × String)) (fs : List Field) (attrs : Option (List (String × TfVal)))
    (st st' : FromSt) (h : copyFromFields ov fs attrs st = .ok st') :
    st.hooks.length + customCount fs ≤ st'.hooks.length := by
  intros; apply PGT.copyFromFields_calls_ge <;> assumption

/-- **(b) on runs**: every call a completed run appends is the call of a custom-field occurrence of the IR -/
theorem C17_from_calls_only_custom_fields (ov : List (String × String)) (fs : List Field) (attrs : Option (List (String × TfVal)))
    (st st' : FromSt) (h : copyFromFields ov fs attrs st = .ok st') (c : HookCall) (hc : c ∈ st'.hooks) :
    c ∈ st.hooks ∨ (CustomAt fs (attrs.getD []) c ∧
      ∃ (f : Field) (attrs' : List (String × TfVal)), Field.OccursIn f fs ∧ f.info.isPlaceholder = false ∧ f.info.kind = .custom ∧
        c = .copyFrom ("CopyFrom" ++ f.info.suffix) ((attrs'.lookup f.info.nameSnake).getD .nilv)) := by
  intros; apply PGT.copyFromFields_calls_custom <;> assumption

/-- **(c)** an IR without custom fields at any depth: the log is unchanged -/
theorem C17_from_no_custom_no_calls (ov : List (String × String)) (fs : List Field) (attrs : Option (List (String × TfVal)))
    (st st' : FromSt) (hn : noCustomFields fs = true) (h : copyFromFields ov fs attrs st = .ok st') :
    st'.hooks = st.hooks := by
  intros; apply PGT.copyFromFields_noCustom <;> assumption

/-- **the hook calls of the field blocks of `Copy<T>ToTerraform` are exactly the census** `toHooksFields`, appended in
order to the log present before – every IR, every struct value, every attribute-type family, ANY target state
(in place too) -/
theorem C17_to_hooks_exact : ∀ (fs : List Field) (obj : GoVal) (atys : Option (List (String × TfTy))) (st st' : ToSt),
    copyToFields fs obj atys st = .ok st' → st'.hooks = st.hooks ++ toHooksFields fs obj atys st.attrs := by
  intros; apply PGT.toFields_hooks <;> assumption

theorem C17_copyTo_hooks_closed_form (m : Msg) (obj : GoVal) (u n : Bool) (as : Option (List (String × TfVal)))
    (atys : Option (List (String × TfTy))) (r : ToResult) (hd : snakeDistinctFields m.fields)
    (h : copyTo m obj (.obj u n as atys) = .ok r) : r.hooks = toHooksFieldsS m.fields obj atys (as.getD []) := by
  intros; apply PGT.copyTo_hooksS <;> assumption

/-- **(b) on runs of CopyTo** -/
theorem C17_to_calls_only_custom_fields (fs : List Field) (obj : GoVal) (atys : Option (List (String × TfTy))) (st st' : ToSt)
    (h : copyToFields fs obj atys st = .ok st') (c : HookCall) (hc : c ∈ st'.hooks) : c ∈ st.hooks ∨ ToCallOf fs c := by
  intros; apply PGT.copyToFields_calls_custom <;> assumption


end PGT.Props.C17
