import PGT.Model.Schema
import PGT.Model.CopyTo
import PGT.Model.CopyFrom
import PGT.Generated.Texts
/-
C17 – Custom-type fields are delegated to the user's three hooks.
-/
namespace PGT.Props.C17
open PGT

/-- `<S>` is the configured suffix for the custom type, else the type name with dots and slashes removed;
the custom type is the `custom_types` entry for the field's path, else the gogoproto.customtype option -/
theorem C17_suffix (cfg : CfgView) (f : FieldD) (keys : Keys) (h : isCustomOf cfg f keys = true) :
    suffixOf cfg f keys =
      match cfg.suffix ((cfg.customType keys).getD f.customType) with
      | some s => s
      | none => stripChars ((cfg.customType keys).getD f.customType) ['/', '.'] := by
  unfold suffixOf
  simp [h]
  cases cfg.customType keys <;> simp <;> rfl

/-- `custom_types` is keyed by the full path only (regenerated lookup order) -/
theorem C17_custom_key : lookupKeyExprs "GetCustomType" = ["c.GetPath()"] ∧ lookupKeyExprs "IsCustomType" = ["c.GetPath()"] := by
  constructor <;> decide

/-- the hook-call shapes of the three generators are those of the source (translator T5) -/
theorem C17_call_shapes :
    Generated.sourceFacts.lookup "customSchemaCall" = some true ∧
    Generated.sourceFacts.lookup "customFromCall" = some true ∧
    Generated.sourceFacts.lookup "customToCall" = some true := by
  refine ⟨?_, ?_, ?_⟩ <;> decide

/-- schema: a custom field's entry is `GenSchema<S>(ctx, attr)` where `attr` carries exactly the description and
flags of C10 (no type of its own, no nested attributes) -/
theorem C17_schema (f : Field) (h : f.info.kind = .custom) :
    ∃ ty, (schemaField f).2 = .mk f.info.isRequired (!f.info.isRequired) f.info.isComputed f.info.isSensitive
      f.info.comment ty "none" [] f.info.validators f.info.planModifiers f.info.suffix := by
  obtain ⟨info, mapVal, msg, sub⟩ := f
  simp only at h
  simp [schemaField, h]

/-- CopyTo: no conversion of its own – the attribute becomes the value returned by
`CopyTo<S>(diags, obj.F, AttrTypes[name], Attrs[name])`, and exactly that call is made -/
theorem C17_copy_to (rec : ToRec) (info : FieldInfo) (msg : Option MsgInfo) (se : Bool) (obj : GoVal)
    (atys : Option (List (String × TfTy))) (st : ToSt) (a : TfTy) (x : GoVal) (v : TfVal)
    (hk : info.kind = .custom) (hty : (atys.getD []).lookup info.nameSnake = some a)
    (hx : readField info obj = .ok x) (hv : hookTo info.isRepeated x = some v) :
    copyToFieldWith rec info msg se obj atys st =
      .ok { attrs := setKey info.nameSnake v st.attrs, diags := st.diags,
            hooks := st.hooks ++ [.copyTo ("CopyTo" ++ info.suffix) x (some a) ((st.attrs.lookup info.nameSnake).getD .nilv)] } := by
  unfold copyToFieldWith
  simp [hty, hk, hx, hv, ToSt.set]

/-- a missing attribute type is reported as a diagnostic and the hook is not called -/
theorem C17_copy_to_missing (rec : ToRec) (info : FieldInfo) (msg : Option MsgInfo) (se : Bool) (obj : GoVal)
    (atys : Option (List (String × TfTy))) (st : ToSt)
    (hty : (atys.getD []).lookup info.nameSnake = none) :
    copyToFieldWith rec info msg se obj atys st = .ok (st.diag (.writeMissing info.path)) := by
  unfold copyToFieldWith
  simp [hty]

/-- CopyFrom: `CopyFrom<S>(diags, Attrs[name], &obj.F)` is called – also when the attribute is missing, which is
still reported as a diagnostic first – and the field holds what the hook stored -/
theorem C17_copy_from (rec : FromRec) (ov : List (String × String)) (info : FieldInfo) (mv : Option FieldInfo)
    (msg : Option MsgInfo) (attrs : Option (List (String × TfVal))) (st : FromSt) (hk : info.kind = .custom)
    (hp : info.parentIsOptionalEmbed = false) :
    copyFromFieldWith rec ov info mv msg attrs st =
      let a? := (attrs.getD []).lookup info.nameSnake
      let st' := match a? with | none => st.diag (.readMissing info.path) | some _ => st
      .ok { st' with obj := st'.obj.setField info.name (hookFrom info.isRepeated (a?.getD .nilv)),
                     hooks := st'.hooks ++ [.copyFrom ("CopyFrom" ++ info.suffix) (a?.getD .nilv)] } := by
  unfold copyFromFieldWith
  simp [hk, writeField, hp]
  cases (attrs.getD []).lookup info.nameSnake <;> simp [FromSt.diag]

end PGT.Props.C17
