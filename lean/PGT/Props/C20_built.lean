import PGT.Props.C20_schema
import PGT.Proofs.BuiltWF
/-
C20, continued – for the IRs the front end builds (`Proofs/BuiltWF.lean`; see `Props/C03_built.lean` for the invariant, the gap
`gapFreeBs` and its witnesses).
-/
namespace PGT.Props.C20
open PGT PGT.Spec PGT.SchemaTyped PGT.Proofs.BuildErrors PGT.Proofs.PathUnique PGT.Proofs.ExclusionPrune PGT.Proofs.BuiltWF

/-- **C20 for every root the generator builds** -/
theorem C20_built_root (cfg : Config) (req : Request) (desc : MsgD) (m : Msg) (hb : buildRoot cfg req desc = .ok (some m))
    (hc : ConfigTypesAgree (viewOf cfg)) (hg : gapFreeBs m.fields = true) (hn : namesOKsB m.fields = true)
    (obj : GoVal) (hv : ValOKs m.fields obj) :
    ∃ r, copyTo m obj (.obj false false none (some (attrTypesOf m))) = .ok r ∧ c20Check m obj r.tf = true := by
  intros; apply PGT.Proofs.BuiltWF.C20_built_root <;> assumption

end PGT.Props.C20
