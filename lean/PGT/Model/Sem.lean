import PGT.Model.IR
import PGT.Model.Values
/-
Semantic reading of the strings stored in the IR (which Terraform value struct an assertion names,
which Go representation a cast denotes) and the behaviour of the harness's instrumented custom-type hooks.
-/
namespace PGT

def lastSegment (s : String) : String :=
  String.ofList ((s.toList.reverse.takeWhile (· != '.')).reverse)

/-- what a `types.X` / configured value-type name denotes in a type assertion `a.(X)` -/
inductive VKind | prim (k : PrimK) | list | map | obj | unknown
deriving DecidableEq, Repr, Inhabited

def vkindOf (valueType : String) : VKind :=
  let n := lastSegment valueType
  if n == "String" then .prim .string else if n == "Int64" then .prim .int64
  else if n == "Float64" then .prim .float64 else if n == "Bool" then .prim .bool
  else if n == "TimeValue" then .prim .time else if n == "DurationValue" then .prim .duration
  else if n == "List" then .list else if n == "Map" then .map else if n == "Object" then .obj
  else .unknown

/-- what a `types.XType` name denotes in a type assertion on an `attr.Type` -/
def tkindOf (typeName : String) : VKind :=
  let n := lastSegment typeName
  if n == "StringType" then .prim .string else if n == "Int64Type" then .prim .int64
  else if n == "Float64Type" then .prim .float64 else if n == "BoolType" then .prim .bool
  else if n == "TimeType" then .prim .time else if n == "DurationType" then .prim .duration
  else if n == "ListType" then .list else if n == "MapType" then .map else if n == "ObjectType" then .obj
  else .unknown

def TfVal.vkind : TfVal → VKind
  | .prim k _ _ _ => .prim k | .list .. => .list | .map .. => .map | .obj .. => .obj | _ => .unknown

def TfTy.vkind : TfTy → VKind
  | .prim k => .prim k | .list _ => .list | .map _ => .map | .obj _ => .obj | .other _ => .unknown

/-- Go representation of the struct field (or element) a field of the IR describes -/
def FieldInfo.rep (f : FieldInfo) : GoRep :=
  match repOfGoType f.tf.valueCastFromType with
  | some r => r
  | none => repOfProto f.protoType

/-- `<ValueCastToType>(x)` -/
def FieldInfo.castTo (f : FieldInfo) (x : Sc) : Option Sc :=
  match repOfGoType f.tf.valueCastToType with
  | some dst => conv f.rep dst x
  | none => none

/-- `<ValueCastFromType>(v.Value)` for a Terraform value of kind `k` -/
def FieldInfo.castFrom (f : FieldInfo) (k : PrimK) (p : Sc) : Option Sc := conv k.rep f.rep p

/-- one call of an instrumented hook -/
inductive HookCall
  | copyTo (fn : String) (obj : GoVal) (ty : Option TfTy) (cur : TfVal)
  | copyFrom (fn : String) (a : TfVal)
deriving Repr, Inhabited

def hWrap (s : List UInt8) : List UInt8 := [72, 40] ++ s ++ [41]   -- "H(" ++ s ++ ")"

def hUnwrap (s : List UInt8) : List UInt8 :=
  if s.length ≥ 3 && s.take 2 == [72, 40] && s.getLast? == some 41 then (s.drop 2).dropLast else []

/-- harness `CopyTo<S>` hooks (pipe/batch.go): singular string-like, repeated string-like -/
def hookTo (repeated : Bool) (v : GoVal) : Option TfVal :=
  if !repeated then
    match v with
    | .sc (.str s) => some (.prim .string false false (.str (hWrap s)))
    | _ => none
  else
    match v with
    | .slice none => some (.list false true (some []) (some (.prim .string)))
    | .slice (some l) =>
      let es := l.map fun e => match e with
        | .sc (.str s) => TfVal.prim .string false false (.str (hWrap s))
        | _ => .nilv
      some (.list false l.isEmpty (some es) (some (.prim .string)))
    | _ => none

def unH (a : TfVal) : List UInt8 :=
  match a with
  | .prim .string false false (.str s) => hUnwrap s
  | _ => []

/-- harness `CopyFrom<S>` hooks -/
def hookFrom (repeated : Bool) (a : TfVal) : GoVal :=
  if !repeated then .sc (.str (unH a))
  else
    match a with
    | .list false false (some es) _ => .slice (some (es.map fun e => .sc (.str (unH e))))
    | .list false false none _ => .slice (some [])
    | _ => .slice none

end PGT
