/-
String functions of the plugin and of the libraries it calls, on `List Char`:
stoewer/go-strcase v1.2.0 (`SnakeCase`, `UpperCamelCase`), Go's `strings.TrimSpace`, `strings.Trim(s, "\n")`,
`Comment.ToSingleLine` (comments.go) and the json-tag rule of `GetJSONName`.
-/
namespace PGT

abbrev Str := List Char

namespace Strcase

def isLower (c : Char) : Bool := 'a' ≤ c && c ≤ 'z'
def isUpper (c : Char) : Bool := 'A' ≤ c && c ≤ 'Z'
def toLower (c : Char) : Char := if isUpper c then Char.ofNat (c.toNat + 32) else c
def toUpper (c : Char) : Char := if isLower c then Char.ofNat (c.toNat - 32) else c
def isSpace (c : Char) : Bool := c == ' ' || c == '\t' || c == '\n' || c == '\r'
def isDelimiter (c : Char) : Bool := c == '-' || c == '_' || isSpace c

/-- NUL plays the role of Go's zero rune ("no character"). -/
def nul : Char := Char.ofNat 0

/-- One step of `delimiterCase`'s loop body for the triple (prev, curr, next). -/
def snakeStep (prev curr next : Char) : Str :=
  if isDelimiter curr then
    (if !isDelimiter prev then ['_'] else [])
  else if isUpper curr then
    (if isLower prev || (isUpper prev && isLower next) then ['_'] else []) ++ [toLower curr]
  else if curr != nul then [toLower curr]
  else []

/-- The loop of `delimiterCase`: `prev`, `curr` are the loop-carried variables, the list the remaining `next`s. -/
def snakeLoop : Char → Char → Str → Str
  | prev, curr, [] =>
      -- after the loop: `if len(s) > 0` (checked by the caller)
      (if isUpper curr && isLower prev && prev != nul then ['_'] else []) ++ [toLower curr]
  | prev, curr, next :: rest => snakeStep prev curr next ++ snakeLoop curr next rest

end Strcase

/-- Go's `unicode.IsSpace` restricted to what `strings.TrimSpace` tests (Latin-1 and the Unicode spaces). -/
def isGoSpace (c : Char) : Bool :=
  c == ' ' || c == '\t' || c == '\n' || c == '\x0b' || c == '\x0c' || c == '\r' ||
  c.toNat == 0x85 || c.toNat == 0xA0 || c.toNat == 0x1680 ||
  (0x2000 ≤ c.toNat && c.toNat ≤ 0x200a) || c.toNat == 0x2028 || c.toNat == 0x2029 ||
  c.toNat == 0x202f || c.toNat == 0x205f || c.toNat == 0x3000

def dropWhileEnd (p : Char → Bool) (s : Str) : Str := (s.reverse.dropWhile p).reverse

/-- `strings.TrimSpace`. -/
def trimSpace (s : Str) : Str := dropWhileEnd isGoSpace (s.dropWhile isGoSpace)

/-- `strings.Trim(s, "\n")`. -/
def trimNewlines (s : Str) : Str := dropWhileEnd (· == '\n') (s.dropWhile (· == '\n'))

/-- `strcase.SnakeCase`: TrimSpace (ASCII space set of the library is applied by Go's TrimSpace), then the loop. -/
def snakeCase (s : Str) : Str :=
  match trimSpace s with
  | [] => []
  | c :: rest => Strcase.snakeLoop Strcase.nul Strcase.nul (c :: rest)

namespace Strcase

/-- callback of `camelCase` for (prev, curr, next) with `upper = true`. -/
def camelStep (prev curr : Char) : Str :=
  if !isDelimiter curr then
    if isDelimiter prev || prev == nul then [toUpper curr]
    else if isLower prev then [curr]
    else [toLower curr]
  else []

/-- `stringIter`: the callback is invoked for every character with its predecessor (0 for the first). -/
def camelLoop : Char → Str → Str
  | _, [] => []
  | prev, curr :: rest => camelStep prev curr ++ camelLoop curr rest

end Strcase

/-- `strcase.UpperCamelCase`. -/
def upperCamelCase (s : Str) : Str := Strcase.camelLoop Strcase.nul (trimSpace s)

/-- The plugin's rule for Go names (`GetName`, `GetOneOfFieldName`, `GetOneOfNames`):
names starting with a lower-case letter (more exactly: whose first byte equals its `ToLower`) are upper-camel-cased. -/
def goName (s : Str) : Str :=
  match s with
  | [] => []
  | c :: _ => if Strcase.isUpper c then s else upperCamelCase s

/-- gogo/protobuf `generator.CamelCase`, as a state machine: `run` = "inside the run of lower-case letters
that follows a character copied by the main branch" (those are copied verbatim). -/
def gogoCamelLoop : Bool → Str → Str
  | _, [] => []
  | run, c :: rest =>
    if run && Strcase.isLower c then c :: gogoCamelLoop true rest
    else if c == '_' && (match rest with | d :: _ => Strcase.isLower d | [] => false) then gogoCamelLoop false rest
    else if c.isDigit then c :: gogoCamelLoop false rest
    else (if Strcase.isLower c then Strcase.toUpper c else c) :: gogoCamelLoop true rest

def gogoCamelCase (s : Str) : Str :=
  match s with
  | [] => []
  | '_' :: rest => 'X' :: gogoCamelLoop false rest
  | _ => gogoCamelLoop false s

/-- split on a separator character -/
def splitOnChar (sep : Char) : Str → List Str
  | [] => [[]]
  | c :: rest =>
    match splitOnChar sep rest with
    | [] => [[]]  -- unreachable
    | hd :: tl => if c == sep then [] :: hd :: tl else (c :: hd) :: tl

def joinWith (sep : Str) : List Str → Str
  | [] => []
  | [x] => x
  | x :: rest => x ++ sep ++ joinWith sep rest

/-- `Comment.ToSingleLine` (comments.go). -/
def toSingleLine (s : Str) : Str :=
  trimSpace (joinWith [' '] ((splitOnChar '\n' s).map trimSpace))

/-- Field comment: `Comment(strings.TrimSpace(strings.Trim(leading, "\n"))).ToSingleLine()`. -/
def fieldComment (leading : Str) : Str := toSingleLine (trimSpace (trimNewlines leading))

/-- Message comment: `Comment(strings.Trim(leading, "\n")).ToSingleLine()`. -/
def messageComment (leading : Str) : Str := toSingleLine (trimNewlines leading)

/-- `GetJSONName`: first element of the json tag unless it is "-"; "" when there is no tag. -/
def jsonName (tag : Option Str) : Str :=
  match tag with
  | none => []
  | some t =>
    match splitOnChar ',' t with
    | [] => []
    | j :: _ => if j == ['-'] then [] else j

def Str.toS (s : Str) : String := String.ofList s

/-- `strings.ReplaceAll(s, "[]", "")` -/
def removeBrackets : Str → Str
  | '[' :: ']' :: rest => removeBrackets rest
  | c :: rest => c :: removeBrackets rest
  | [] => []

/-- `strings.TrimPrefix(s, "*")` -/
def dropStar : Str → Str
  | '*' :: rest => rest
  | s => s

end PGT
