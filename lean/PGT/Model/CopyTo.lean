import PGT.Model.Sem
/-
Semantics of the emitted `Copy<T>ToTerraform` (gen_copy_to.go), statement by statement, for any IR,
any struct value and any target object (in place).
-/
namespace PGT

/-- mutable state of one call: the attribute map of the object being filled, diagnostics, hook log -/
structure ToSt where
  attrs : List (String × TfVal)
  diags : List Diag := []
  hooks : List HookCall := []
deriving Repr, Inhabited

def ToSt.diag (s : ToSt) (d : Diag) : ToSt := { s with diags := s.diags ++ [d] }
def ToSt.set (s : ToSt) (k : String) (v : TfVal) : ToSt := { s with attrs := setKey k v s.attrs }

/-- the struct a message-typed Go value denotes (`obj := obj.F`): pointers are followed -/
def GoVal.asStruct : GoVal → Option GoVal
  | .struct fs => some (.struct fs)
  | .ptr (some (.struct fs)) => some (.struct fs)
  | _ => none

/-- Go zero value of the struct field an IR field describes (used for the empty oneof wrapper) -/
def zeroGoOf (f : FieldInfo) : GoVal :=
  match f.kind with
  | .primitive => if f.isNullable then .ptr none else .sc (zeroOfRep f.rep)
  | .object => if f.isNullable then .ptr none else .struct []
  | .primitiveList | .objectList => .slice none
  | .primitiveMap | .objectMap => .map none
  | .custom => if f.isRepeated then .slice none else .sc (zeroOfRep f.rep)

/-- `obj, ok := obj.<OneOf>.(*Wrapper); if !ok { obj = &Wrapper{} }` -/
def oneOfShadow (f : FieldInfo) (obj : GoVal) : GoVal :=
  if f.oneOfName == "" then obj
  else
    match obj.field? f.oneOfName with
    | some (.iface (some (w, fname, payload))) =>
      if w == lastSegment f.oneOfType then .struct [(fname, payload)] else .struct []
    | _ => .struct []

/-- is the nullable embedded parent of `f` nil in `obj`? (`obj.<Parent> == nil`) -/
def parentIsNil (f : FieldInfo) (obj : GoVal) : Bool :=
  match obj.field? f.parentIsOptionalEmbedFieldName with
  | some (.ptr none) => true
  | none => true
  | _ => false

/-- evaluate the field: `obj.<Name>`, or for a child of a nullable embedded message
`var e T; if obj.<Parent> != nil { e = obj.<Name> }` (message, list, map and custom children; scalar children are
guarded by `obj.<Parent> == nil` tests before they are read) -/
def readField (f : FieldInfo) (obj : GoVal) : Outcome GoVal :=
  if f.parentIsOptionalEmbed then
    match obj.field? f.parentIsOptionalEmbedFieldName with
    | some (.ptr none) => .ok (zeroGoOf f)
    | some (.ptr (some s)) =>
      .ok ((s.field? f.name).getD (zeroGoOf f))
    | none => .ok (zeroGoOf f)           -- absent = zero value = nil pointer
    | _ => .stuck ("embedded parent " ++ f.parentIsOptionalEmbedFieldName ++ " is not a pointer")
  else
    -- absent = zero value (also: the empty oneof wrapper)
    .ok ((obj.field? f.name).getD (zeroGoOf f))

/-- `genAssignValue` + the `ParentIsOptionalEmbed` guard + `v.Unknown = false` on a primitive value
`(unk, null, payload)`; `rd` evaluates the Go expression read (`obj.F` or the loop variable `a`). -/
def assignPrim (f : FieldInfo) (obj : GoVal) (rd : Outcome GoVal) (v : Bool × Sc) : Outcome (Bool × Sc) :=
  let assign : Outcome (Bool × Sc) :=
    if f.isNullable then
      match rd with
      | .ok (.ptr none) => .ok (true, v.2)
      | .ok (.ptr (some (.sc s))) => .ok (false, s)
      | .ok _ => .stuck "nullable primitive is not a pointer to a scalar"
      | .panic w => .panic w
      | .stuck w => .stuck w
    else
      match rd with
      | .ok (.sc s) =>
        match f.castTo s with
        | some c => .ok (v.1, c)
        | none => .stuck "cast not modelled"
      | .ok _ => .stuck "primitive field is not a scalar"
      | .panic w => .panic w
      | .stuck w => .stuck w
  if f.isPlaceholder then .ok v
  else if f.parentIsOptionalEmbed then
    if parentIsNil f obj then .ok (true, v.2) else assign
  else assign

/-- `v, ok := tf.Attrs[name].(ElemValueType)` succeeded: the existing value's (Null, payload) -/
def primStart (k : PrimK) (cur : Option TfVal) : Outcome ((Bool × Sc) × List Diag) :=
  match cur with
  | some (.prim k' _ n p) => if k' == k then .ok ((n, p), []) else .stuck "absent"
  | _ => .stuck "absent"

/-- `genZeroValue`: the assertion failed, a null value of the attribute / element type `t` is made and its
`Null` computed from the source -/
def primFresh (f : FieldInfo) (k : PrimK) (obj : GoVal) (t : Option TfTy) (rd : Outcome GoVal) :
    Outcome ((Bool × Sc) × List Diag) :=
  -- i, err := t.ValueFromTerraform(ctx, tftypes.NewValue(t.TerraformType(ctx), nil))
  match t with
  | none => .panic "nil-deref"
  | some ty =>
    match nullOfTy ty with
    | none => .stuck "ValueFromTerraform of an unmodelled type"
    | some i =>
      -- v, ok = i.(ElemValueType)
      let (p, ds) : Sc × List Diag :=
        match i with
        | .prim k' _ _ p => if k' == k then (p, []) else (k.zeroSc, [Diag.writeConv f.path f.tf.elemValueType])
        | _ => (k.zeroSc, [Diag.writeConv f.path f.tf.elemValueType])
      if f.isPlaceholder then .ok ((true, p), ds)
      else if f.tf.zeroValue != "" then
        -- v.Null = [obj.<Parent> == nil ||] <ValueCastToType>(field) == <ZeroValue>
        if f.parentIsOptionalEmbed && parentIsNil f obj then .ok ((true, p), ds) else
        match rd with
        | .ok (.sc s) =>
          match f.castTo s with
          | some c =>
            match eqLiteral f.tf.zeroValue c with
            | some b => .ok ((b, p), ds)
            | none => .stuck "zero literal not modelled"
          | none => .stuck "cast not modelled"
        | .ok _ => .stuck "zero test on a non-scalar"
        | .panic w => .panic w
        | .stuck w => .stuck w
      else .ok ((false, p), ds)

/-- `genPrimitiveBody`: returns the value to store and the diagnostics to append.
`cur` = `tf.Attrs[<NameSnake>]` of the enclosing object, `t` = the attribute / element type. -/
def primBody (f : FieldInfo) (obj : GoVal) (cur : Option TfVal) (t : Option TfTy) (rd : Outcome GoVal) :
    Outcome (TfVal × List Diag) :=
  match vkindOf f.tf.elemValueType with
  | .prim k =>
    -- v, ok := tf.Attrs[name].(ElemValueType)
    let isCur : Bool := match cur with | some (.prim k' _ _ _) => k' == k | _ => false
    let v0 := if isCur then primStart k cur else primFresh f k obj t rd
    match v0 with
    | .ok (np, ds) =>
      match assignPrim f obj rd np with
      | .ok (n, p) => .ok (.prim k false n p, ds)
      | .panic w => .panic w
      | .stuck w => .stuck w
    | .panic w => .panic w
    | .stuck w => .stuck w
  | _ => .stuck ("unknown value type " ++ f.tf.elemValueType)

/-- replace element `k` of a list -/
def setIdx {α} (l : List α) (k : Nat) (v : α) : List α := l.set k v

/-- the recursive call on the nested message's fields, as a parameter: `rec obj atys st` -/
abbrev ToRec := GoVal → Option (List (String × TfTy)) → ToSt → Outcome ToSt

/-- `genObjectBody`: `cur` = `tf.Attrs[<NameSnake>]` of the enclosing object, `oty` = the asserted ObjectType's
AttrTypes, `x` the Go value (`obj.F` or `a`); `rec` runs the nested message's field blocks. -/
def objBody (rec : ToRec) (info : FieldInfo) (msg : Option MsgInfo) (subEmpty : Bool) (cur : Option TfVal)
    (oty : Option (List (String × TfTy))) (x : Outcome GoVal) (diags : List Diag) (hooks : List HookCall) :
    Outcome (TfVal × List Diag × List HookCall) :=
  -- v, ok := tf.Attrs[name].(types.Object)
  let (null, attrs, atys) : Bool × List (String × TfVal) × Option (List (String × TfTy)) :=
    match cur with
    | some (.obj _ n (some as) tys) => (n, as, tys)
    | some (.obj _ n none tys) => (n, [], tys)
    | _ => (false, [], oty)
  let isEmpty := (isEmptyMsg msg)
  let copyObj (s : GoVal) : Outcome (TfVal × List Diag × List HookCall) :=
    if subEmpty then .ok (.obj false null (some attrs) atys, diags, hooks)
    else
      let inner : GoVal := if isEmpty then .struct [] else s
      match rec inner atys { attrs := attrs, diags := diags, hooks := hooks } with
      | .ok st => .ok (.obj false null (some st.attrs) atys, st.diags, st.hooks)
      | .panic w => .panic w
      | .stuck w => .stuck w
  if !info.isNullable && (subEmpty || isEmpty) then copyObj (.struct []) else
  match x with
  | .panic w => .panic w
  | .stuck w => .stuck w
  | .ok xv =>
    if info.isNullable then
      match xv with
      | .ptr none => .ok (.obj false true (some attrs) atys, diags, hooks)
      | .ptr (some s) => copyObj s
      | _ => .stuck "nullable message is not a pointer"
    else
      match xv with
      | .struct _ => copyObj xv
      | _ => .stuck "message value is not a struct"

/-- the body of one loop iteration: element value ↦ element attribute value -/
abbrev ElemBody := GoVal → List Diag → List HookCall → Outcome (TfVal × List Diag × List HookCall)

/-- the loop `for k, a := range obj.List { …; c.Elems[k] = v }` -/
def copyToElemsList (body : ElemBody) (elems : List GoVal) (k : Nat) (acc : List TfVal)
    (diags : List Diag) (hooks : List HookCall) : Outcome (List TfVal × List Diag × List HookCall) :=
  match elems with
  | [] => .ok (acc, diags, hooks)
  | a :: rest =>
    match body a diags hooks with
    | .ok (v, ds, hs) => copyToElemsList body rest (k + 1) (setIdx acc k v) ds hs
    | .panic w => .panic w
    | .stuck w => .stuck w

/-- the loop `for k, a := range obj.Map { …; c.Elems[k] = v }` (canonical key order; iterations are independent) -/
def copyToElemsMap (body : ElemBody) (elems : List (String × GoVal)) (acc : List (String × TfVal))
    (diags : List Diag) (hooks : List HookCall) : Outcome (List (String × TfVal) × List Diag × List HookCall) :=
  match elems with
  | [] => .ok (acc, diags, hooks)
  | (k, a) :: rest =>
    match body a diags hooks with
    | .ok (v, ds, hs) => copyToElemsMap body rest (setKey k v acc) ds hs
    | .panic w => .panic w
    | .stuck w => .stuck w

/-- element body of primitive lists / maps -/
def primElemBody (info : FieldInfo) (obj : GoVal) (ety : Option TfTy) : ElemBody := fun a diags hooks =>
  match primBody info obj none ety (.ok a) with
  | .ok (v, ds) => .ok (v, diags ++ ds, hooks)
  | .panic w => .panic w
  | .stuck w => .stuck w

/-- `c, ok := tf.Attrs[name].(types.List)`; not ok: a fresh null list of `n` nil elements; ok: re-used, re-allocated
when `c.Elems == nil || len(obj.F) != len(c.Elems)`. Result: (Null, Elems, ElemType). -/
def reuseList (cur : Option TfVal) (n : Nat) (ety : Option TfTy) : Bool × List TfVal × Option TfTy :=
  match cur with
  | some (.list _ nl (some es) et) => (nl, if es.length != n then List.replicate n .nilv else es, et)
  | some (.list _ nl none et) => (nl, List.replicate n .nilv, et)
  | _ => (true, List.replicate n .nilv, ety)

/-- `c, ok := tf.Attrs[name].(types.Map)`; a re-used map is always rebuilt -/
def reuseMap (cur : Option TfVal) (ety : Option TfTy) : Bool × List (String × TfVal) × Option TfTy :=
  match cur with
  | some (.map _ nl _ et) => (nl, [], et)
  | _ => (true, [], ety)

/-- `o := o.ElemType.(types.ObjectType)`: a single-value assertion (panics on failure) -/
def elemObjTy (isObj : Bool) (ety : Option TfTy) : Outcome (Option (List (String × TfTy))) :=
  if isObj then
    match ety with
    | some (.obj as) => .ok as
    | _ => .panic "assertion"
  else .ok none

/-- is `tf.Attrs[name]` of the element's value type? (then the element would alias it; not modelled) -/
def curIsElemKind (info : FieldInfo) (cur : Option TfVal) : Bool :=
  match cur with
  | some c => c.vkind == vkindOf info.tf.elemValueType
  | none => false

/-- the body of the element loop of a list / map field -/
def elemBodyOf (rec : ToRec) (info : FieldInfo) (msg : Option MsgInfo) (subEmpty : Bool) (obj0 : GoVal)
    (ety : Option TfTy) (oty : Option (List (String × TfTy))) : ElemBody :=
  if info.kind == .objectList || info.kind == .objectMap then
    fun a diags hooks => objBody rec info msg subEmpty none oty (.ok a) diags hooks
  else primElemBody info obj0 ety

/-- `genListOrMap` after the attribute type has been asserted to a list / map type with element type `ety`;
`src` is the value of `obj.F`. -/
def listOrMapBody (rec : ToRec) (info : FieldInfo) (msg : Option MsgInfo) (subEmpty : Bool) (obj0 : GoVal)
    (cur : Option TfVal) (ety : Option TfTy) (src : GoVal) (st : ToSt) : Outcome ToSt :=
  let isObj := info.kind == .objectList || info.kind == .objectMap
  if info.isRepeated then
    let srcElems : Option (List GoVal) := match src with | .slice o => o | _ => none
    let c := reuseList cur (srcElems.getD []).length ety
    match srcElems with
    | none => .ok (st.set info.nameSnake (.list false c.1 (some c.2.1) c.2.2))
    | some elems =>
      match elemObjTy isObj ety with
      | .panic w => .panic w
      | .stuck w => .stuck w
      | .ok oty =>
        if curIsElemKind info cur then .stuck "element aliases the enclosing attribute (not modelled)" else
        match copyToElemsList (elemBodyOf rec info msg subEmpty obj0 ety oty) elems 0 c.2.1 st.diags st.hooks with
        | .ok (es, ds, hs) =>
          .ok { attrs := setKey info.nameSnake (.list false (if elems.length > 0 then false else c.1) (some es) c.2.2) st.attrs,
                diags := ds, hooks := hs }
        | .panic w => .panic w
        | .stuck w => .stuck w
  else
    let srcElems : Option (List (String × GoVal)) := match src with | .map o => o | _ => none
    let c := reuseMap cur ety
    match srcElems with
    | none => .ok (st.set info.nameSnake (.map false c.1 (some c.2.1) c.2.2))
    | some elems =>
      match elemObjTy isObj ety with
      | .panic w => .panic w
      | .stuck w => .stuck w
      | .ok oty =>
        if curIsElemKind info cur then .stuck "element aliases the enclosing attribute (not modelled)" else
        match copyToElemsMap (elemBodyOf rec info msg subEmpty obj0 ety oty) elems c.2.1 st.diags st.hooks with
        | .ok (es, ds, hs) =>
          .ok { attrs := setKey info.nameSnake (.map false (if elems.length > 0 then false else c.1) (some es) c.2.2) st.attrs,
                diags := ds, hooks := hs }
        | .panic w => .panic w
        | .stuck w => .stuck w

/-- one field block, given the recursive call for the nested message -/
def copyToFieldWith (rec : ToRec) (info : FieldInfo) (msg : Option MsgInfo) (subEmpty : Bool)
    (obj0 : GoVal) (atys : Option (List (String × TfTy))) (st : ToSt) : Outcome ToSt :=
  -- t / a, ok := tf.AttrTypes[name]
  match (atys.getD []).lookup info.nameSnake with
  | none => .ok (st.diag (.writeMissing info.path))
  | some a =>
    let cur := st.attrs.lookup info.nameSnake
    match info.kind with
    | .primitive =>
      let obj := oneOfShadow info obj0
      match primBody info obj cur (some a) (readField info obj) with
      | .ok (v, ds) => .ok { (st.set info.nameSnake v) with diags := st.diags ++ ds }
      | .panic w => .panic w
      | .stuck w => .stuck w
    | .object =>
      let obj := oneOfShadow info obj0
      match a with
      | .obj oty =>
        match objBody rec info msg subEmpty cur oty (readField info obj) st.diags st.hooks with
        | .ok (v, ds, hs) => .ok { attrs := setKey info.nameSnake v st.attrs, diags := ds, hooks := hs }
        | .panic w => .panic w
        | .stuck w => .stuck w
      | _ => .ok (st.diag (.writeConv info.path info.tf.type))
    | .custom =>
      match readField info obj0 with
      | .ok x =>
        match hookTo info.isRepeated x with
        | some v =>
          .ok { (st.set info.nameSnake v) with
                hooks := st.hooks ++ [.copyTo ("CopyTo" ++ info.suffix) x (some a) (cur.getD .nilv)] }
        | none => .stuck "custom value of an unmodelled Go type"
      | .panic w => .panic w
      | .stuck w => .stuck w
    | _ =>
      -- lists and maps: o, ok := a.(types.ListType / types.MapType)
      let ety? : Option (Option TfTy) :=
        match a with
        | .list e => if info.isRepeated then some e else none
        | .map e => if info.isRepeated then none else some e
        | _ => none
      match ety? with
      | none => .ok (st.diag (.writeConv info.path info.tf.type))
      | some ety =>
        match readField info obj0 with
        | .panic w => .panic w
        | .stuck w => .stuck w
        | .ok src => listOrMapBody rec info msg subEmpty obj0 cur ety src st

mutual

/-- `MessageCopyToGenerator.GenerateFields` -/
def copyToFields (fs : List Field) (obj : GoVal) (atys : Option (List (String × TfTy))) (st : ToSt) : Outcome ToSt :=
  match fs with
  | [] => .ok st
  | f :: rest =>
    match copyToField f obj atys st with
    | .ok st' => copyToFields rest obj atys st'
    | .panic w => .panic w
    | .stuck w => .stuck w

def copyToField (f : Field) (obj0 : GoVal) (atys : Option (List (String × TfTy))) (st : ToSt) : Outcome ToSt :=
  match f with
  | ⟨info, _, msg, sub⟩ =>
    copyToFieldWith (fun o a s => copyToFields sub o a s) info msg sub.isEmpty obj0 atys st

end

/-- result of a converter call -/
structure ToResult where
  tf : TfVal
  diags : List Diag
  hooks : List HookCall
deriving Repr, Inhabited

/-- `Copy<T>ToTerraform(ctx, obj, tf)` -/
def copyTo (m : Msg) (obj : GoVal) (tf : TfVal) : Outcome ToResult :=
  match tf with
  | .obj _ _ attrs atys =>
    match copyToFields m.fields obj atys { attrs := attrs.getD [] } with
    | .ok st => .ok { tf := .obj false false (some st.attrs) atys, diags := st.diags, hooks := st.hooks }
    | .panic w => .panic w
    | .stuck w => .stuck w
  | _ => .stuck "target is not an object"

end PGT
