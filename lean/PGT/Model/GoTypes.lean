import PGT.Model.Descriptor
import PGT.Model.Strings
/-
Go type strings: gogo's `GoType` / `GoMapType` for the fragment D, and imports.go
(`PrependPackageNameIfMissing`, `typAndMod`, `isBuiltinType`, qualifier naming).
-/
namespace PGT

/-- gogo `GoType`: the base Go type of a proto scalar. -/
def scalarGoType (t : String) : String :=
  if t == "double" then "float64" else if t == "float" then "float32"
  else if t == "int64" || t == "sint64" || t == "sfixed64" then "int64"
  else if t == "uint64" || t == "fixed64" then "uint64"
  else if t == "int32" || t == "sint32" || t == "sfixed32" then "int32"
  else if t == "uint32" || t == "fixed32" then "uint32"
  else if t == "bool" then "bool" else if t == "string" then "string"
  else if t == "bytes" then "[]byte" else ""

def isScalarType (t : String) : Bool := scalarGoType t != ""

/-- `gogoproto.IsNullable`: default true. -/
def FieldD.isNullableOpt (f : FieldD) : Bool := f.nullable != "false"

def FieldD.isMessageType (f : FieldD) : Bool := f.type == "message" || f.type == "timestamp" || f.type == "duration"

/-- gogo `needsStar` (proto3 file, oneofs allowed). -/
def needsStar (f : FieldD) : Bool :=
  let repeated := f.card == .repeated
  if repeated && (!f.isMessageType || f.customType != "") then false
  else if f.type == "bytes" && f.customType == "" then false
  else if !f.isNullableOpt then false
  else if f.oneof.isSome && !f.isMessageType then false
  else if !f.isMessageType && f.customType == "" then false
  else true

/-- gogo `GoType` for a non-map field (type names of the generated file are used unqualified). -/
def gogoGoType (f : FieldD) : String :=
  let base :=
    if f.customType != "" then f.customType
    else if f.castType != "" then f.castType
    else if f.stdTime then "time.Time"
    else if f.stdDuration then "time.Duration"
    else if f.type == "message" || f.type == "enum" then String.ofList (gogoCamelCase f.typeName.toList)
    else if f.type == "timestamp" then "types.Timestamp"
    else if f.type == "duration" then "types.Duration"
    else scalarGoType f.type
  let starred := if needsStar f then "*" ++ base else base
  if f.card == .repeated then "[]" ++ starred else starred

/-- the value field of a map entry, as the plugin sees it (`m.ValueField`: no gogoproto options) -/
def FieldD.mapValueField (f : FieldD) : FieldD :=
  { name := "value", number := 2, type := f.type, typeName := f.typeName, card := .single }

/-- gogo `GoMapType(...).GoType` -/
def gogoMapGoType (f : FieldD) : String :=
  -- the alias field carries the map field's options (nullable, stdtime, stdduration)
  let alias : FieldD := { f.mapValueField with nullable := f.nullable, stdTime := f.stdTime, stdDuration := f.stdDuration }
  let vt := gogoGoType alias
  -- values of message type (also Timestamp / Duration, std or not) keep their star unless nullable = false
  let vt' :=
    if f.type == "message" || f.type == "timestamp" || f.type == "duration" then
      (if alias.isNullableOpt then vt else String.ofList (dropStar vt.toList))
    else String.ofList (dropStar vt.toList)
  "map[" ++ scalarGoType f.mapKey ++ "]" ++ vt'

/-- the predeclared type names `Imports.isBuiltinType` knows (tied to the source by table T6: `Props.C13.C13_builtin_table`) -/
def builtinTypeNames : List String :=
  ["bool", "string", "int", "int8", "int16", "int32", "int64", "uint", "uint8", "uint16", "uint32", "uint64", "uintptr",
   "byte", "rune", "float32", "float64", "complex64", "complex128"]

def isBuiltinType (t : String) : Bool := builtinTypeNames.contains t

/-- index of the last character of `s` that is one of `[`, `]`, `*` (`strings.LastIndexAny(s, "[]*")`) -/
def lastModIndex (s : List Char) : Option Nat :=
  let idxs := (List.range s.length).filter (fun i => match s[i]? with | some c => c == '[' || c == ']' || c == '*' | none => false)
  idxs.getLast?

/-- `typAndMod` -/
def typAndMod (t : String) : String × String :=
  match lastModIndex t.toList with
  | some i => (String.ofList (t.toList.drop (i + 1)), String.ofList (t.toList.take (i + 1)))
  | none => (t, "")

/-- `typBeforeBracket` -/
def typBeforeBracket (t : String) : String := String.ofList (t.toList.takeWhile (· != '('))

def badToUnderscore (c : Char) : Char := if c.isAlphanum || c == '_' then c else '_'

/-- gogo's import qualifier for a package path -/
def qualifierOf (path : String) : String := String.ofList (path.toList.map badToUnderscore)

def lastIndexOfChar (c : Char) (s : List Char) : Option Nat :=
  ((List.range s.length).filter (fun i => s[i]? == some c)).getLast?

/-- `appendQual` -/
def appendQual (overrides : List (String × String)) (typ mod : String) : String :=
  match lastIndexOfChar '.' (typBeforeBracket typ).toList with
  | none => mod ++ typ
  | some pos =>
    let path := String.ofList (typ.toList.take pos)
    let name := String.ofList (typ.toList.drop (pos + 1))
    let path' := (overrides.lookup path).getD path
    mod ++ qualifierOf path' ++ "." ++ name

/-- `PrependPackageNameIfMissing` -/
def prependPackageNameIfMissing (overrides : List (String × String)) (t pkg : String) : String :=
  let (typ, mod) := typAndMod t
  if (typBeforeBracket typ).toList.contains '.' || pkg == "" || isBuiltinType typ then t
  else appendQual overrides (pkg ++ "." ++ typ) mod

/-- `WithType` -/
def withType (overrides : List (String × String)) (t : String) : String :=
  let (typ, mod) := typAndMod t
  if !(typBeforeBracket typ).toList.contains '.' then t else appendQual overrides typ mod

end PGT
