import PGT.Model.IR
import PGT.Model.Config
import PGT.Model.GoTypes
import PGT.Generated.TypeTable
import PGT.Generated.LookupOrder
/-
The generator's front end: `BuildMessage` / `BuildFields` / `BuildField` (message.go, field.go) with the
lookups of `FieldBuildContext` / `MessageBuildContext`. The proto-type → Terraform-type table and the
key order of the per-field option lookups are the REGENERATED tables.
-/
namespace PGT

/-- Errors of the front end (the Go code wraps `trace.Errorf` values). -/
inductive BuildError
  | timeTypeMissing (path : String)
  | durationTypeMissing (path : String)
  | unknownFieldType (path : String)
  | nonStringMapKey (path : String)
  | unknownMessage (name : String)
  | recursionLimit
deriving DecidableEq, Repr, Inhabited

/-- the two option keys of a field occurrence -/
structure Keys where
  path : String
  typeName : String
deriving DecidableEq, Repr, Inhabited

/-- key expression of the Go source ↦ key value -/
def Keys.eval (k : Keys) (expr : String) : Option String :=
  if expr == "c.GetPath()" then some k.path
  else if expr == "c.GetNameWithTypeName()" then some k.typeName
  else none

/-- the key expressions accessor `fn` uses, in source order (regenerated) -/
def lookupKeyExprs (fn : String) : List String :=
  match Generated.lookups.find? (·.1 == fn) with
  | some (_, _, keys) => keys
  | none => []

/-- `GetFlagValue`: true when any of the consulted keys is a member -/
def flagValue (set : List String) (k : Keys) : Bool :=
  (lookupKeyExprs "GetFlagValue").any fun e => match k.eval e with | some key => set.contains key | none => false

/-- first-match lookup over the key expressions of accessor `fn` -/
def firstLookup {α} (fn : String) (m : List (String × α)) (k : Keys) : Option α :=
  (lookupKeyExprs fn).findSome? fun e => match k.eval e with | some key => m.lookup key | none => none

/-- Everything the front end ever asks the configuration: lookups by key, memberships, and scalar settings.
`Build` is written against this view, so "the output depends on the configuration only through …" is a
statement about `viewOf`. -/
structure CfgView where
  excluded : Keys → Bool
  computed : Keys → Bool
  required : Keys → Bool
  sensitive : Keys → Bool
  nameOverride : Keys → Option String
  validators : Keys → Option (List String)
  planModifiers : Keys → Option (List String)
  customType : Keys → Option String
  suffix : String → Option String
  injected : String → List InjectedField
  importOverride : List (String × String)
  defaultPackageName : String
  durationCustomType : String
  sort : Bool
  useStateForUnknownByDefault : Bool
  timeType : Option SchemaTypeC
  durationType : Option SchemaTypeC

/-- the view of a configuration (the key order of each lookup is the regenerated one) -/
def viewOf (cfg : Config) : CfgView :=
  { excluded := flagValue cfg.excludeFields
    computed := flagValue cfg.computedFields
    required := flagValue cfg.requiredFields
    sensitive := flagValue cfg.sensitiveFields
    nameOverride := firstLookup "GetNameSnake" cfg.nameOverrides
    validators := firstLookup "GetValidators" cfg.validators
    planModifiers := firstLookup "GetPlanModifiers" cfg.planModifiers
    customType := firstLookup "GetCustomType" cfg.customTypes
    suffix := fun t => cfg.suffixes.lookup t
    injected := fun p => (cfg.injectedFields.lookup p).getD []
    importOverride := cfg.importPathOverrides
    defaultPackageName := cfg.defaultPackageName
    durationCustomType := cfg.durationCustomType
    sort := cfg.sort
    useStateForUnknownByDefault := cfg.useStateForUnknownByDefault
    timeType := cfg.timeType
    durationType := cfg.durationType }

def upperOf (protoType : String) : String := String.ofList (protoType.toList.map Strcase.toUpper)

def tfTypeOfBase (b : Generated.TfBase) : TfType :=
  { type := b.type, valueType := b.valueType, elemType := b.elemType, elemValueType := b.elemValueType,
    isTypeScalar := b.isTypeScalar, isElemTypeScalar := b.isElemTypeScalar, valueCastToType := b.valueCastToType,
    valueCastFromType := b.valueCastFromType, zeroValue := b.zeroValue, isMessage := b.isMessage, typeConstructor := b.typeConstructor }

def tfTypeOfConfig (s : SchemaTypeC) : TfType :=
  { type := s.type, valueType := s.valueType, elemType := s.type, elemValueType := s.valueType,
    valueCastToType := s.castToType, valueCastFromType := s.castFromType, typeConstructor := s.typeConstructor }

/-- `FieldDescriptorProtoExt.IsTime` -/
def FieldD.isTime (f : FieldD) : Bool := f.stdTime || f.type == "timestamp" || f.castType == "time.Time"

/-- `FieldDescriptorProtoExt.IsDuration` -/
def FieldD.isDuration (f : FieldD) (custom : String) : Bool :=
  f.stdDuration || f.type == "duration" || f.castType == "time.Duration" || (custom != "" && f.castType == custom)

/-- the descriptor-level type tag `IsTypeEq` compares with -/
def FieldD.protoTag (f : FieldD) (isMapField : Bool) : String :=
  if isMapField then "MESSAGE"
  else if f.type == "timestamp" || f.type == "duration" || f.type == "message" then "MESSAGE"
  else upperOf f.type

/-- does row `r` of the switch fire for field `f`? -/
def rowMatches (cfg : CfgView) (f : FieldD) (isMapField : Bool) (r : Generated.TypeRow) : Bool :=
  if r.kind == "time" then f.isTime
  else if r.kind == "duration" then f.isDuration cfg.durationCustomType
  else if r.kind == "scalar" || r.kind == "enum" then r.protos.contains (f.protoTag isMapField)
  else if r.kind == "message" then f.protoTag isMapField == "MESSAGE"
  else r.kind == "default"

/-- `GetTerraformType` -/
def getTerraformType (cfg : CfgView) (f : FieldD) (isMapField isRepeated : Bool) (goType path : String) :
    Except BuildError TfType :=
  let elemType := String.ofList (removeBrackets goType.toList)
  match Generated.typeRows.find? (rowMatches cfg f isMapField) with
  | none => .error (.unknownFieldType path)
  | some r =>
    let base : Except BuildError TfType :=
      if r.kind == "time" then
        match cfg.timeType with
        | none => .error (.timeTypeMissing path)
        | some s => .ok (tfTypeOfConfig s)
      else if r.kind == "duration" then
        match cfg.durationType with
        | none => .error (.durationTypeMissing path)
        | some s => .ok (tfTypeOfConfig s)
      else if r.kind == "default" then .error (.unknownFieldType path)
      else
        match Generated.bases.find? (·.name == r.base) with
        | none => .error (.unknownFieldType path)
        | some b =>
          let t := tfTypeOfBase b
          let t := if r.castFrom == "<elem>" then { t with valueCastFromType := elemType }
                   else if r.castFrom != "" then { t with valueCastFromType := r.castFrom } else t
          .ok (if r.isMessage then { t with isMessage := true } else t)
    match base with
    | .error e => .error e
    | .ok t =>
      let t := if isRepeated then { t with type := Generated.typesPkg ++ ".ListType", valueType := Generated.typesPkg ++ ".List" } else t
      let t := if isMapField then { t with type := Generated.typesPkg ++ ".MapType", valueType := Generated.typesPkg ++ ".Map" } else t
      let t := if f.castType != "" then { t with valueCastFromType := elemType } else t
      .ok t

/-- `getKind` -/
def kindOf (isCustom isMap mapValIsMessage isRepeated isMessage : Bool) : Kind :=
  if isCustom then .custom
  else if isMap && mapValIsMessage then .objectMap
  else if isMap then .primitiveMap
  else if isRepeated && isMessage then .objectList
  else if isRepeated then .primitiveList
  else if isMessage then .object
  else .primitive

def stripChars (s : String) (cs : List Char) : String := String.ofList (s.toList.filter (fun c => !cs.contains c))

/-- `BuildPlaceholderField` -/
def placeholderField (basePath : String) : Field :=
  let bool := (Generated.bases.find? (·.name == "boolType")).map tfTypeOfBase |>.getD {}
  { info := { name := "active", nameSnake := "active", kind := .primitive, isComputed := true,
              comment := "Automatically generated field preventing empty message errors",
              goType := "bool", goElemType := "bool", goElemTypeIndirect := "bool", isPlaceholder := true,
              tf := bool, path := basePath ++ ".active", protoType := "bool" } }

/-- sort by Go field name (`sort.Slice` with `<` on `Name`): insertion sort, stable -/
def insertByName (f : Field) : List Field → List Field
  | [] => [f]
  | g :: gs => if f.info.name < g.info.name then f :: g :: gs else g :: insertByName f gs

def sortFieldsByName (fs : List Field) : List Field := fs.foldr insertByName []

def afterFirstBracket (s : String) : String :=
  String.ofList ((s.toList.dropWhile (· != ']')).drop 1)

def afterLastBracket (s : String) : String :=
  match lastIndexOfChar ']' s.toList with
  | some i => String.ofList (s.toList.drop (i + 1))
  | none => s

/-- children of a nullable embedded message remember their parent -/
def markEmbedded (full short : String) (c : Field) : Field :=
  { c with info := { c.info with
      parentIsOptionalEmbed := true
      parentIsOptionalEmbedFullType := full
      parentIsOptionalEmbedFieldName := short } }

/-- the message-level context: descriptor, path -/
structure MsgCtx where
  desc : MsgD
  path : String   -- `GetPath()`
deriving Repr

def goNameS (s : String) : String := String.ofList (goName s.toList)

def oneOfNames (m : MsgD) : List String := m.oneofs.map goNameS

/-- `BuildMessage`: the message's own oneofs, then those promoted from messages embedded by value (in field order) -/
def withPromotedOneOfs (own : List String) (fields : List Field) : List String :=
  fields.foldl (fun acc f =>
    if f.info.oneOfName == "" || f.info.parentIsOptionalEmbed || acc.contains f.info.oneOfName then acc
    else acc ++ [f.info.oneOfName]) own

def insertStr (x : String) : List String → List String
  | [] => [x]
  | y :: ys => if x < y then x :: y :: ys else y :: insertStr x ys

/-- `sort.Strings` -/
def sortStrings (l : List String) : List String := l.foldr insertStr []

def msgGoType (cfg : CfgView) (name : String) : String :=
  if cfg.defaultPackageName == "" then name else cfg.defaultPackageName ++ "." ++ name

def namePathOf (path name : String) : String :=
  let np := if path == "" then name else path
  let np := match path.toList.idxOf? '.' with
    | some i => String.ofList (np.toList.drop i)
    | none => np
  stripChars np ['.']

/-- first error wins, otherwise concatenation (the loop of `BuildFields`) -/
def collectFields {ε α} : List (Except ε (List α)) → Except ε (List α)
  | [] => .ok []
  | .error e :: _ => .error e
  | .ok fs :: rest =>
    match collectFields rest with
    | .error e => .error e
    | .ok more => .ok (fs ++ more)

/-- the option keys of a declared field (`NewFieldBuildContext`) -/
def keysOf (ctx : MsgCtx) (f : FieldD) : Keys :=
  { typeName := ctx.desc.name ++ "." ++ f.name,
    path := if f.embed then ctx.path else ctx.path ++ "." ++ f.name }

/-- the Go type string of a declared field (`NewFieldBuildContext`) -/
def goTypeOf (cfg : CfgView) (ctx : MsgCtx) (f : FieldD) : String :=
  let raw :=
    if f.castType != "" then (if f.card == .repeated then "[]" ++ f.castType else f.castType)
    else if f.customType != "" then (if f.card == .repeated then "[]" ++ f.customType else f.customType)
    else if f.card == .map then "[]*" ++ ctx.desc.name ++ "_" ++ String.ofList (gogoCamelCase f.name.toList) ++ "Entry"
    else gogoGoType f
  prependPackageNameIfMissing cfg.importOverride raw cfg.defaultPackageName

/-- `GetNameSnake` -/
def snakeOf (cfg : CfgView) (f : FieldD) (keys : Keys) : String :=
  match cfg.nameOverride keys with
  | some v => v
  | none =>
    let j := jsonName (f.jsonTag.map String.toList)
    if j != [] then String.ofList j else String.ofList (snakeCase f.name.toList)

/-- `GetPlanModifiers` -/
def planModsOf (cfg : CfgView) (keys : Keys) : List String :=
  match cfg.planModifiers keys with
  | some v => v
  | none => if cfg.useStateForUnknownByDefault && cfg.computed keys
            then ["github.com/hashicorp/terraform-plugin-framework/tfsdk.UseStateForUnknown()"] else []

/-- `GetComment` of a field (map value fields have none: their index is -1) -/
def commentOf (f : FieldD) (hasComment : Bool) : String :=
  if hasComment then (match f.comment with | some c => String.ofList (fieldComment c.toList) | none => "") else ""

/-- `IsCustomType` -/
def isCustomOf (cfg : CfgView) (f : FieldD) (keys : Keys) : Bool := f.customType != "" || (cfg.customType keys).isSome

/-- `setCustomType`: the suffix of the hook functions -/
def suffixOf (cfg : CfgView) (f : FieldD) (keys : Keys) : String :=
  if !isCustomOf cfg f keys then "" else
  let customType := match cfg.customType keys with | some c => c | none => f.customType
  match cfg.suffix customType with
  | some s => s
  | none => stripChars customType ['/', '.']

mutual

/-- `BuildMessage` (+ `BuildFields`) for a message that is not filtered out. `fuel` bounds the nesting depth
(the descriptor refers to messages by name); the real code has no bound. -/
def buildMessage (fuel : Nat) (cfg : CfgView) (req : Request) (desc : MsgD) (isRoot : Bool) (path : String) :
    Except BuildError Msg :=
  match fuel with
  | 0 => .error .recursionLimit
  | fuel + 1 =>
    let ctx : MsgCtx := { desc := desc, path := if isRoot then desc.name else path }
    let fieldsE : Except BuildError (List Field) :=
      if desc.fields.isEmpty then .ok [placeholderField ctx.path]
      else
        match collectFields (desc.fields.map fun f =>
            buildFieldCore fuel cfg req ctx f (keysOf ctx f) (goTypeOf cfg ctx f) (f.card == .map) (f.card == .repeated) f.comment.isSome) with
        | .error e => .error e
        | .ok fs => .ok (if cfg.sort then sortFieldsByName fs else fs)
    match fieldsE with
    | .error e => .error e
    | .ok fields =>
      .ok { info := { name := desc.name, goType := msgGoType cfg desc.name, path := ctx.path,
                      namePath := namePathOf ctx.path desc.name, isRoot := isRoot,
                      injected := cfg.injected ctx.path,
                      oneOfNames := (let ns := withPromotedOneOfs (oneOfNames desc) fields
                                     if cfg.sort then sortStrings ns else ns), isEmpty := desc.fields.isEmpty,
                      comment := match desc.comment with | some c => String.ofList (messageComment c.toList) | none => "" },
            fields := fields }

/-- `BuildField` proper; also used (through `setMapValues`) for the value field of a map, with the map
field's keys, `isMap = false`, `isRepeated = false` and no comment. -/
def buildFieldCore (fuel : Nat) (cfg : CfgView) (req : Request) (ctx : MsgCtx) (f : FieldD) (keys : Keys)
    (goType : String) (isMap isRepeated : Bool) (hasComment : Bool) : Except BuildError (List Field) :=
  match fuel with
  | 0 => .error .recursionLimit
  | fuel' + 1 =>
  if cfg.excluded keys then .ok []
  else
    let name := goNameS f.name
    let snake := snakeOf cfg f keys
    let isComputed := cfg.computed keys
    let planMods := planModsOf cfg keys
    let comment := commentOf f hasComment
    match getTerraformType cfg f isMap isRepeated goType keys.path with
    | .error e => .error e
    | .ok tf =>
      let info : FieldInfo :=
        { name := name, nameSnake := snake, isRequired := cfg.required keys, isComputed := isComputed,
          isSensitive := cfg.sensitive keys, isRepeated := isRepeated, isMap := isMap,
          isNullable := goType.toList.contains '*',
          validators := (cfg.validators keys).getD [],
          planModifiers := planMods, path := keys.path, comment := comment,
          goType := goType, goElemType := goType, tf := tf, protoType := f.type }
      -- nested message (not for maps)
      let nested : Except BuildError (Option Msg) :=
        if tf.isMessage && !isMap then
          match req.findMessage f.typeName with
          | none => .error (.unknownMessage f.typeName)
          | some d =>
            match buildMessage fuel' cfg req d false keys.path with
            | .error e => .error e
            | .ok m => .ok (some m)
        else .ok none
      match nested with
      | .error e => .error e
      | .ok nestedMsg =>
        if tf.isMessage && !isMap && f.embed then
          -- embedded: the nested message's fields take the place of the field
          match nestedMsg with
          | none => .ok []
          | some m =>
            if !info.isNullable then .ok m.fields
            else
              let full := String.ofList (dropStar goType.toList)
              let short := match lastIndexOfChar '.' full.toList with
                | some i => String.ofList (full.toList.drop (i + 1))
                | none => full
              .ok (m.fields.map (markEmbedded full short))
        else
          let info := if isRepeated then { info with goElemType := afterFirstBracket info.goType } else info
          -- map values
          let mapped : Except BuildError (FieldInfo × Option Field) :=
            if isMap then
              if scalarGoType f.mapKey != "string" then .error (.nonStringMapKey keys.path)
              else
                let typ := prependPackageNameIfMissing cfg.importOverride (gogoMapGoType f) cfg.defaultPackageName
                let vGo := prependPackageNameIfMissing cfg.importOverride (afterLastBracket typ) cfg.defaultPackageName
                match buildFieldCore fuel' cfg req ctx f.mapValueField keys vGo false false false with
                | .error e => .error e
                | .ok [] => .error (.unknownFieldType keys.path)   -- "expected at least one field"
                | .ok (v :: _) =>
                    .ok ({ info with goType := typ, isNullable := typ.toList.contains '*',
                                     tf := { info.tf with elemType := v.info.tf.elemType, elemValueType := v.info.tf.elemValueType,
                                                          valueCastToType := v.info.tf.valueCastToType,
                                                          valueCastFromType := v.info.tf.valueCastFromType },
                                     goElemType := v.info.goElemType }, some v)
            else .ok (info, none)
          match mapped with
          | .error e => .error e
          | .ok (info, mapV) =>
            -- custom type
            let isCustom := isCustomOf cfg f keys
            let suffix := suffixOf cfg f keys
            let mapValIsMessage := match mapV with | some v => v.info.tf.isMessage | none => false
            let kind := kindOf isCustom isMap mapValIsMessage isRepeated info.tf.isMessage
            let (ooName, ooType) :=
              match f.oneof with
              | none => ("", "")
              | some i =>
                (goNameS (ctx.desc.oneofs.getD i ""),
                 msgGoType cfg (ctx.desc.name ++ "_" ++ name))
            let info := { info with isCustomType := isCustom, suffix := suffix, kind := kind,
                                    goElemTypeIndirect := stripChars info.goElemType ['*'],
                                    oneOfName := ooName, oneOfType := ooType }
            let (m, sub) : Option MsgInfo × List Field :=
              match mapV, nestedMsg with
              | some v, _ => (v.msg, v.sub)
              | none, some m => (some m.info, m.fields)
              | none, none => (none, [])
            .ok [{ info := info, mapVal := mapV.map (·.info), msg := m, sub := sub }]

end

/-- fuel that suffices for an acyclic request: a level of nesting costs at most three units (message, field, and the value
field of a map), and an acyclic chain visits every message at most once -/
def defaultFuel (req : Request) : Nat := 3 * (req.allFiles.flatMap (·.messages)).length + 4

/-- `BuildMessage(plugin, message, true, "")` for one top-level message: `none` when it is not listed in `types`. -/
def buildRoot (cfg : Config) (req : Request) (desc : MsgD) : Except BuildError (Option Msg) :=
  if !cfg.types.contains desc.name then .ok none
  else match buildMessage (defaultFuel req) (viewOf cfg) req desc true "" with
    | .error e => .error e
    | .ok m => .ok (some m)

end PGT
