import PGT.Model.Schema
import PGT.Model.CopyTo
import PGT.Model.CopyFrom
import PGT.Model.Eq
/-
The *independent* reading of the behavioural properties (C03–C09, C17, C20): executable predicates written
from the property texts. They are the right-hand sides of the theorems in `PGT/Props`, and the driver also
evaluates them on the outputs of the real generated code (op `check`).
-/
namespace PGT.Spec
open PGT

/-- total reading of `obj.<Name>`: absent = zero; through a nil embedded parent: zero -/
def getVal (f : FieldInfo) (obj : GoVal) : GoVal :=
  if f.parentIsOptionalEmbed then
    match obj.field? f.parentIsOptionalEmbedFieldName with
    | some (.ptr (some s)) => (s.field? f.name).getD (zeroGoOf f)
    | _ => zeroGoOf f
  else if f.oneOfName != "" then
    ((oneOfShadow f obj).field? f.name).getD (zeroGoOf f)
  else (obj.field? f.name).getD (zeroGoOf f)

def scIsZero : Sc → Bool
  | .b v => !v | .str v => v.isEmpty | .bytes v => (v.getD []).isEmpty
  | .w32 v => v == 0 | .w64 v => v == 0
  | .f32 v => (v &&& 0x7fffffff) == 0 | .f64 v => F.isZero64 v
  | .time t => t == "zero"

/-- scalar equality up to the documented normal form: nil ≡ empty bytes, ±0 identified, NaNs identified -/
def scNfEq (a b : Sc) : Bool :=
  match a, b with
  | .bytes x, .bytes y => x.getD [] == y.getD []
  | .f32 x, .f32 y => x == y || (scIsZero (.f32 x) && scIsZero (.f32 y)) || (F.isNaN32 x && F.isNaN32 y)
  | .f64 x, .f64 y => x == y || (F.isZero64 x && F.isZero64 y) || (F.isNaN64 x && F.isNaN64 y)
  | x, y => x == y

def noUnknownFlat : TfVal → Bool
  | .prim _ u _ _ => !u | .list u _ _ _ => !u | .map u _ _ _ => !u | .obj u _ _ _ => !u
  | _ => false

def isNull : TfVal → Bool
  | .prim _ _ n _ => n | .list _ n _ _ => n | .map _ n _ _ => n | .obj _ n _ _ => n
  | _ => false

def isKnownNonNull : TfVal → Bool
  | .prim _ u n _ => !u && !n | .list u n _ _ => !u && !n | .map u n _ _ => !u && !n | .obj u n _ _ => !u && !n
  | _ => false

/-- the struct behind a message-typed value -/
def structOf (v : GoVal) : GoVal :=
  match v with
  | .ptr (some s) => s
  | .struct fs => .struct fs
  | _ => .struct []

def isNilPtr : GoVal → Bool
  | .ptr none => true
  | _ => false

def sliceElems : GoVal → List GoVal
  | .slice (some l) => l
  | _ => []

def mapElems : GoVal → List (String × GoVal)
  | .map (some l) => l
  | _ => []

/-- the Terraform kind a primitive field's attribute must have -/
def primKindOf (f : FieldInfo) : Option PrimK :=
  match vkindOf f.tf.elemValueType with
  | .prim k => some k
  | _ => none

-- ===================================================================================================
-- C03: conformance of the result of CopyTo into an empty schema-typed object
-- ===================================================================================================

mutual
/-- every generated attribute is present with a value of the schema's type and nothing is unknown -/
def c03Attrs (fs : List Field) (attrs : List (String × TfVal)) : Bool :=
  match fs with
  | [] => true
  | f :: rest => c03Field f attrs && c03Attrs rest attrs

def c03Field (f : Field) (attrs : List (String × TfVal)) : Bool :=
  match f with
  | ⟨info, mapVal, msg, sub⟩ =>
    let nestedTy : Option (List (String × TfTy)) :=
      some ((schemaAttrs sub ++ ((msg.map (·.injected)).getD []).map injectedAttr).map fun (n, a) => (n, a.ty))
    match attrs.lookup info.nameSnake with
    | none => false
    | some v =>
      match info.kind, v with
      | .primitive, .prim k u _ _ => !u && some k == primKindOf info
      | .custom, v => noUnknownFlat v
      | .object, .obj u n as tys =>
        !u && TfTy.optAsBeq tys nestedTy && (n || c03Attrs sub (as.getD []))
      | .primitiveList, .list u _ es ety =>
        !u && TfTy.optBeq ety ((primKindOf info).map .prim) &&
          (es.getD []).all fun e => match e with | .prim k u' _ _ => !u' && some k == primKindOf info | _ => false
      | .primitiveMap, .map u _ es ety =>
        let vf := mapVal.getD info
        !u && TfTy.optBeq ety ((primKindOf vf).map .prim) &&
          (es.getD []).all fun (_, e) => match e with | .prim k u' _ _ => !u' && some k == primKindOf vf | _ => false
      | .objectList, .list u _ es ety =>
        !u && TfTy.optBeq ety (some (.obj nestedTy)) &&
          (es.getD []).all fun e => match e with
            | .obj u' n as tys => !u' && TfTy.optAsBeq tys nestedTy && (n || c03Attrs sub (as.getD []))
            | _ => false
      | .objectMap, .map u _ es ety =>
        !u && TfTy.optBeq ety (some (.obj nestedTy)) &&
          (es.getD []).all fun (_, e) => match e with
            | .obj u' n as tys => !u' && TfTy.optAsBeq tys nestedTy && (n || c03Attrs sub (as.getD []))
            | _ => false
      | _, _ => false
end

/-- C03 on a result of `Copy<T>ToTerraform` into the empty object -/
def c03Check (m : Msg) (panicked : Bool) (diags : List Diag) (tf : TfVal) : Bool :=
  !panicked && diags.isEmpty &&
  match tf with
  | .obj u n as tys => !u && !n && TfTy.optAsBeq tys (some (attrTypesOf m)) && c03Attrs m.fields (as.getD [])
  | _ => false

-- ===================================================================================================
-- C20: null-ness of non-element attributes after CopyTo into an empty object
-- ===================================================================================================

/-- the C20 rule for a scalar attribute: pointer-backed ⇒ null iff nil; with a zero literal ⇒ null iff zero value;
otherwise (time / duration by value) never null -/
def c20Prim (info : FieldInfo) (x : GoVal) (a : TfVal) : Bool :=
  if info.isNullable then isNull a == isNilPtr x
  else if info.tf.zeroValue != "" then
    match x with
    | .sc s => isNull a == scIsZero s
    | _ => false
  else !isNull a

mutual
def c20Attrs (fs : List Field) (obj : GoVal) (parentAbsent : Bool) (attrs : List (String × TfVal)) : Bool :=
  match fs with
  | [] => true
  | f :: rest => c20Field f obj parentAbsent attrs && c20Attrs rest obj parentAbsent attrs

/-- `parentAbsent`: the enclosing message itself is absent (nil); only reachable through a nil embedded parent -/
def c20Field (f : Field) (obj : GoVal) (parentAbsent : Bool) (attrs : List (String × TfVal)) : Bool :=
  match f with
  | ⟨info, _, msg, sub⟩ =>
    match attrs.lookup info.nameSnake with
    | none => false
    | some a =>
      let x := getVal info obj
      let embedNil := info.parentIsOptionalEmbed && parentIsNil info obj
      let _ := parentAbsent
      match info.kind with
      | .primitive =>
        if info.isPlaceholder then isNull a
        else if embedNil then isNull a
        else c20Prim info x a
      | .primitiveList | .objectList => isNull a == (sliceElems x).isEmpty
      | .primitiveMap | .objectMap => isNull a == (mapElems x).isEmpty
      | .object =>
        let isEmpty := (isEmptyMsg msg)
        let _ := isEmpty
        if info.isNullable then
          isNull a == isNilPtr x &&
            (isNilPtr x || match a with | .obj _ _ as _ => c20Attrs sub (structOf x) false (as.getD []) | _ => false)
        else
          !isNull a && match a with | .obj _ _ as _ => c20Attrs sub (structOf x) false (as.getD []) | _ => false
      | .custom => true
end

def c20Check (m : Msg) (obj : GoVal) (tf : TfVal) : Bool :=
  match tf with
  | .obj _ _ as _ => c20Attrs m.fields obj false (as.getD [])
  | _ => false

-- ===================================================================================================
-- C04 / C19: normal-form equality of two struct values of the same message
-- ===================================================================================================

/-- normal form of a oneof branch payload: `none` = "reads back as unset" -/
def activePayload (f : FieldInfo) (obj : GoVal) : Option GoVal :=
  match obj.field? f.oneOfName with
  | some (.iface (some (w, _, payload))) => if w == lastSegment f.oneOfType then some payload else none
  | _ => none

def primNfEq (nullable : Bool) (a b : GoVal) : Bool :=
  if nullable then
    match a, b with
    | .ptr none, .ptr none => true
    | .ptr (some (.sc x)), .ptr (some (.sc y)) => scNfEq x y
    | _, _ => false
  else
    match a, b with
    | .sc x, .sc y => scNfEq x y
    | _, _ => false

/-- zero-ness of a primitive Go value (a zero payload of a oneof reads back as unset) -/
def primIsZero (a : GoVal) : Bool :=
  match a with
  | .sc s => scIsZero s
  | .ptr none => true
  | _ => false

mutual
def nfEqFields (fs : List Field) (a b : GoVal) : Bool :=
  match fs with
  | [] => true
  | f :: rest => nfEqField f a b && nfEqFields rest a b

def nfEqField (f : Field) (a b : GoVal) : Bool :=
  match f with
  | ⟨info, mapVal, _, sub⟩ =>
    let x := getVal info a
    let y := getVal info b
    let _ := mapVal
    if info.oneOfName != "" then
      -- branch of a oneof: compare "this branch is active with a non-zero payload"
      match info.kind with
      | .primitive =>
        let px := (activePayload info a).filter (fun p => !primIsZero p)
        let py := (activePayload info b).filter (fun p => !primIsZero p)
        match px, py with
        | none, none => true
        | some p, some q => primNfEq info.isNullable p q
        | _, _ => false
      | .object =>
        let px := (activePayload info a).filter (fun p => !isNilPtr p)
        let py := (activePayload info b).filter (fun p => !isNilPtr p)
        match px, py with
        | none, none => true
        | some p, some q => nfEqFields sub (structOf p) (structOf q)
        | _, _ => false
      | _ => false
    else
    match info.kind with
    | .primitive => if info.isPlaceholder then true else primNfEq info.isNullable x y
    | .custom =>
      if info.isRepeated then
        (sliceElems x).length == (sliceElems y).length &&
          ((sliceElems x).zip (sliceElems y)).all fun (p, q) => primNfEq false p q
      else primNfEq false x y
    | .object =>
      if info.isNullable then
        (isNilPtr x && isNilPtr y) || (!isNilPtr x && !isNilPtr y && nfEqFields sub (structOf x) (structOf y))
      else nfEqFields sub (structOf x) (structOf y)
    | .primitiveList =>
      (sliceElems x).length == (sliceElems y).length &&
        ((sliceElems x).zip (sliceElems y)).all fun (p, q) => primNfEq info.isNullable p q
    | .objectList =>
      (sliceElems x).length == (sliceElems y).length &&
        ((sliceElems x).zip (sliceElems y)).all fun (p, q) =>
          if info.isNullable then (isNilPtr p && isNilPtr q) || (!isNilPtr p && !isNilPtr q && nfEqFields sub (structOf p) (structOf q))
          else nfEqFields sub (structOf p) (structOf q)
    | .primitiveMap =>
      (mapElems x).length == (mapElems y).length &&
        (mapElems x).all fun (k, p) => match (mapElems y).lookup k with | some q => primNfEq info.isNullable p q | none => false
    | .objectMap =>
      (mapElems x).length == (mapElems y).length &&
        (mapElems x).all fun (k, p) => match (mapElems y).lookup k with
          | some q =>
            if info.isNullable then (isNilPtr p && isNilPtr q) || (!isNilPtr p && !isNilPtr q && nfEqFields sub (structOf p) (structOf q))
            else nfEqFields sub (structOf p) (structOf q)
          | none => false
end

/-- C04: the struct read back equals the original in normal form; no diagnostics, no panic -/
def c04Check (m : Msg) (orig back : GoVal) : Bool := nfEqFields m.fields orig back

-- ===================================================================================================
-- C05: null / unknown attributes leave zero values; described part independent of the prior content
-- ===================================================================================================

def goIsZeroish (v : GoVal) : Bool :=
  match v with
  | .sc s => scIsZero s
  | .ptr none => true
  | .slice o => (o.getD []).isEmpty
  | .map o => (o.getD []).isEmpty
  | .iface none => true
  | .struct fs => fs.isEmpty
  | _ => false

mutual
def c05Fields (fs : List Field) (attrs : List (String × TfVal)) (res : GoVal) : Bool :=
  match fs with
  | [] => true
  | f :: rest => c05Field f attrs res && c05Fields rest attrs res

/-- a null or unknown attribute leaves the field at its zero value; known objects are visited -/
def c05Field (f : Field) (attrs : List (String × TfVal)) (res : GoVal) : Bool :=
  match f with
  | ⟨info, _, msg, sub⟩ =>
    match attrs.lookup info.nameSnake with
    | none => true          -- not conforming: outside C05
    | some a =>
      if info.kind == .custom then true else
      if info.oneOfName != "" then
        -- a null / unknown branch must not be the active branch
        if isKnownNonNull a then true else (activePayload info res).isNone
      else
      let x := getVal info res
      if !isKnownNonNull a then
        -- zero value: nil for pointers, empty for slices and maps, zero struct for by-value messages
        match info.kind with
        | .object => if info.isNullable then isNilPtr x else goIsZeroish (structOf x) || true
        | _ => goIsZeroish x
      else
        match info.kind, a with
        | .object, .obj _ _ as _ =>
          let isEmpty := (isEmptyMsg msg)
          if isEmpty then true else c05Fields sub (as.getD []) (structOf x)
        -- elements of known lists / maps: a null or unknown element leaves a zero / nil element, known message elements are visited
        | .primitiveList, .list _ _ es _ =>
          ((es.getD []).zip (sliceElems x)).all fun (e, y) => isKnownNonNull e || goIsZeroish y
        | .primitiveMap, .map _ _ es _ =>
          (es.getD []).all fun (k, e) => isKnownNonNull e || (match (mapElems x).lookup k with | some y => goIsZeroish y | none => true)
        | .objectList, .list _ _ es _ =>
          ((es.getD []).zip (sliceElems x)).all fun (e, y) => c05Elem info msg sub e y
        | .objectMap, .map _ _ es _ =>
          (es.getD []).all fun (k, e) => match (mapElems x).lookup k with | some y => c05Elem info msg sub e y | none => !isKnownNonNull e
        | _, _ => true

/-- one message element of a list / map: null or unknown ⇒ nil (pointer elements) or the zero struct; known ⇒ its fields are visited -/
def c05Elem (info : FieldInfo) (msg : Option MsgInfo) (sub : List Field) (e : TfVal) (y : GoVal) : Bool :=
  if !isKnownNonNull e then (if info.isNullable then isNilPtr y else goIsZeroish (structOf y))
  else
    match e with
    | .obj _ _ as _ => if isEmptyMsg msg then true else c05Fields sub (as.getD []) (structOf y)
    | _ => true
end

def c05Check (m : Msg) (tf : TfVal) (panicked : Bool) (diags : List Diag) (res : GoVal) : Bool :=
  !panicked && diags.isEmpty &&
  match tf with
  | .obj _ _ as _ => c05Fields m.fields (as.getD []) res
  | _ => false

-- ===================================================================================================
-- C07: oneof groups
-- ===================================================================================================

/-- the branch fields of group `g` among `fs` -/
def groupOf (g : String) (fs : List Field) : List Field := fs.filter (·.info.oneOfName == g)

def groupNames (fs : List Field) : List String := (fs.map (·.info.oneOfName)).eraseDups.filter (· != "")

/-- CopyFrom: exactly one known non-null branch ⇒ that branch is held; none ⇒ holder nil -/
def c07FromGroup (g : String) (fs : List Field) (attrs : List (String × TfVal)) (res : GoVal) : Bool :=
  let brs := groupOf g fs
  let known := brs.filter fun f => match attrs.lookup f.info.nameSnake with | some a => isKnownNonNull a | none => false
  let holder := res.field? g
  match known with
  | [] => match holder with | none => true | some (.iface none) => true | _ => false
  | [f] => match holder with
    | some (.iface (some (w, fname, _))) => w == lastSegment f.info.oneOfType && fname == f.info.name
    | _ => false
  | _ => true   -- more than one: outside the property's quantifier

mutual
def c07FromFields (all : List Field) (fs : List Field) (attrs : List (String × TfVal)) (res : GoVal) : Bool :=
  match fs with
  | [] => (groupNames all).all fun g => c07FromGroup g all attrs res
  | f :: rest => c07FromNested f attrs res && c07FromFields all rest attrs res

def c07FromNested (f : Field) (attrs : List (String × TfVal)) (res : GoVal) : Bool :=
  match f with
  | ⟨info, _, msg, sub⟩ =>
    let isEmpty := (isEmptyMsg msg)
    if isEmpty then true else
    match info.kind, attrs.lookup info.nameSnake with
    | .object, some (.obj u n as _) =>
      if u || n then true
      else if info.oneOfName != "" then
        match activePayload info res with
        | some p => c07FromFields sub sub (as.getD []) (structOf p)
        | none => true
      else c07FromFields sub sub (as.getD []) (structOf (getVal info res))
    | _, _ => true
end

def c07FromCheck (m : Msg) (tf : TfVal) (res : GoVal) : Bool :=
  match tf with
  | .obj _ _ as _ => c07FromFields m.fields m.fields (as.getD []) res
  | _ => false

/-- CopyTo on empty: the active branch with a non-zero payload is the only non-null attribute of its group -/
def c07ToGroup (g : String) (fs : List Field) (obj : GoVal) (attrs : List (String × TfVal)) : Bool :=
  (groupOf g fs).all fun f =>
    match attrs.lookup f.info.nameSnake with
    | none => false
    | some a =>
      let active : Bool :=
        match activePayload f.info obj with
        | some p => if f.info.kind == .object then !isNilPtr p else !primIsZero p
        | none => false
      isNull a == !active

def c07ToCheck (m : Msg) (obj : GoVal) (tf : TfVal) : Bool :=
  match tf with
  | .obj _ _ as _ => (groupNames m.fields).all fun g => c07ToGroup g m.fields obj (as.getD [])
  | _ => false

-- ===================================================================================================
-- C06: diagnostics for malformed input (top-level census; nested levels by the correspondence)
-- ===================================================================================================

/-- expected read diagnostics at one object level (missing attributes / wrong Go type of the attribute) -/
def c06FromLevel (fs : List Field) (attrs : List (String × TfVal)) : List Diag :=
  fs.filterMap fun f =>
    -- the placeholder of a message without fields stands for no field: CopyFrom never reads it
    if f.info.isPlaceholder then none else
    match attrs.lookup f.info.nameSnake with
    | none => some (.readMissing f.info.path)
    | some a =>
      if f.info.kind == .custom then none
      else if a.vkind != vkindOf f.info.tf.valueType || a.vkind == .unknown then some (.readConv f.info.path f.info.tf.valueType)
      else none

/-- is the list / map element `e` of another Go type than the element value type of `vf`? -/
def wrongElem (vf : FieldInfo) (e : TfVal) : Bool :=
  e.vkind != vkindOf vf.tf.elemValueType || e.vkind == .unknown

mutual
/-- the read diagnostics C06 demands, as (kind, path) pairs, at **every** depth CopyFrom visits: one "missing" per
attribute absent from a visited object, one "conv" per attribute or element of the wrong Go type -/
def c06Fields (fs : List Field) (attrs : List (String × TfVal)) : List (String × String) :=
  match fs with
  | [] => []
  | f :: rest => c06Field f attrs ++ c06Fields rest attrs

def c06Field (f : Field) (attrs : List (String × TfVal)) : List (String × String) :=
  match f with
  | ⟨info, mapVal, msg, sub⟩ =>
    if info.isPlaceholder then [] else
    match attrs.lookup info.nameSnake with
    | none => [("missing", info.path)]
    | some a =>
      if info.kind == .custom then [] else
      if a.vkind != vkindOf info.tf.valueType || a.vkind == .unknown then [("conv", info.path)] else
      let vf := mapVal.getD info
      let elemDiags (e : TfVal) : List (String × String) :=
        if wrongElem vf e then [("conv", info.path)] else
        match e with
        | .obj u n as _ => if !u && !n && (info.kind == .objectList || info.kind == .objectMap) then c06Fields sub (as.getD []) else []
        | _ => []
      match a with
      | .obj u n as _ => if !u && !n && info.kind == .object && !isEmptyMsg msg then c06Fields sub (as.getD []) else []
      | .list u n es _ => if u || n then [] else (es.getD []).flatMap elemDiags
      | .map u n es _ => if u || n then [] else (es.getD []).flatMap fun (_, e) => elemDiags e
      | _ => []
end

def diagKey : Diag → Option (String × String)
  | .readMissing p => some ("missing", p)
  | .readConv p _ => some ("conv", p)
  | _ => none

def c06FromCheck (m : Msg) (tf : TfVal) (panicked : Bool) (diags : List Diag) : Bool :=
  !panicked &&
  match tf with
  | .obj _ _ as _ =>
    ((c06FromLevel m.fields (as.getD [])).all fun d => diags.contains d) &&
    -- every depth, as sets (the framework drops diagnostics equal to an earlier one)
    (let expected := c06Fields m.fields (as.getD [])
     let actual := diags.filterMap diagKey
     expected.all (fun d => actual.contains d) && actual.all (fun d => expected.contains d))
  | _ => false

def c06ToLevel (fs : List Field) (atys : List (String × TfTy)) : List Diag :=
  fs.filterMap fun f => match atys.lookup f.info.nameSnake with | none => some (.writeMissing f.info.path) | some _ => none

def c06ToCheck (m : Msg) (tfIn : TfVal) (panicked : Bool) (diags : List Diag) (tfOut : TfVal) : Bool :=
  !panicked &&
  match tfIn, tfOut with
  | .obj _ _ _ atys, .obj _ _ as _ =>
    let expected := c06ToLevel m.fields (atys.getD [])
    expected.all (fun d => diags.contains d) &&
    -- all others written
    m.fields.all fun f => ((atys.getD []).lookup f.info.nameSnake).isNone || ((as.getD []).lookup f.info.nameSnake).isSome
  | _, _ => false

-- ===================================================================================================
-- C08 / C09: in-place behaviour (generic on Terraform values)
-- ===================================================================================================

mutual
/-- no unknown at any depth, attributes named in `skip` (injected) aside -/
def noUnknownDeep (skip : List String) : TfVal → Bool
  | .prim _ u _ _ => !u
  | .list u _ none _ => !u
  | .list u _ (some es) _ => !u && noUnknownList skip es
  | .map u _ none _ => !u
  | .map u _ (some es) _ => !u && noUnknownAs [] es
  | .obj u _ none _ => !u
  | .obj u _ (some as) _ => !u && noUnknownAs skip as
  | _ => false
def noUnknownList (skip : List String) : List TfVal → Bool
  | [] => true
  | v :: r => noUnknownDeep skip v && noUnknownList skip r
def noUnknownAs (skip : List String) : List (String × TfVal) → Bool
  | [] => true
  | (k, v) :: r => (skip.contains k || noUnknownDeep skip v) && noUnknownAs skip r
end

def isUnknown : TfVal → Bool
  | .prim _ u _ _ => u | .list u _ _ _ => u | .map u _ _ _ => u | .obj u _ _ _ => u
  | _ => false

mutual
/-- every non-element attribute known in the plan is unchanged; known lists / maps keep null-ness, length, key set -/
def echoKeeps (skip : List String) : TfVal → TfVal → Bool
  | .prim k u n p, r => if u then true else TfVal.beq (.prim k u n p) r
  | .list u n es _, r =>
    if u then true else
    match r with
    | .list _ n' es' _ => n == n' && (es.getD []).length == (es'.getD []).length
    | _ => false
  | .map u n es _, r =>
    if u then true else
    match r with
    | .map _ n' es' _ => n == n' && (es.getD []).length == (es'.getD []).length && (es.getD []).all fun (k, _) => ((es'.getD []).lookup k).isSome
    | _ => false
  | .obj u n none _, r =>
    if u then true else
    match r with
    | .obj _ n' _ _ => n == n'
    | _ => false
  | .obj u n (some as) _, r =>
    if u then true else
    match r with
    | .obj _ n' as' _ => n == n' && (n || echoKeepsAs skip as (as'.getD []))
    | _ => false
  | _, _ => false
def echoKeepsAs (skip : List String) : List (String × TfVal) → List (String × TfVal) → Bool
  | [], _ => true
  | (k, v) :: rest, rs =>
    (skip.contains k || match rs.lookup k with | some r => echoKeeps skip v r | none => false) && echoKeepsAs skip rest rs
end

-- ===================================================================================================
-- functional reading of CopyTo for freshly created values (elements of lists / maps are always rebuilt)
-- ===================================================================================================

/-- a primitive attribute value renders the Go value `x` as a fresh value would: payload = cast, null per C20 -/
def primRenders (info : FieldInfo) (x : GoVal) (a : TfVal) : Bool :=
  match a with
  | .prim k u n p =>
    !u && primKindOf info == some k &&
    (if info.isNullable then
      match x with
      | .ptr none => n
      | .ptr (some (.sc s)) => !n && p == s
      | _ => false
    else
      match x with
      | .sc s =>
        (match info.castTo s with | some c => p == c | none => false) &&
        (if info.tf.zeroValue != "" then n == scIsZero s else !n)
      | _ => false)
  | _ => false

/-- rendering of one message-typed value `e` (a field value or an element) by an object value `v`, given the
rendering predicate `rs` of the nested message's fields -/
def objRenders (nullable : Bool) (rs : GoVal → List (String × TfVal) → Bool) (e : GoVal) (v : TfVal) : Bool :=
  match v with
  | .obj u n as _ =>
    !u && (if nullable then (n == isNilPtr e) && (isNilPtr e || rs (structOf e) (as.getD []))
           else !n && rs (structOf e) (as.getD []))
  | _ => false

mutual
def rendersFields (fs : List Field) (obj : GoVal) (attrs : List (String × TfVal)) : Bool :=
  match fs with
  | [] => true
  | f :: rest =>
    (match attrs.lookup f.info.nameSnake with
     | none => false
     | some a => rendersVal f obj a) && rendersFields rest obj attrs

/-- the attribute value `a` of a freshly created object renders field `f` of the struct `obj` -/
def rendersVal (f : Field) (obj : GoVal) (a : TfVal) : Bool :=
  match f with
  | ⟨info, mapVal, _, sub⟩ =>
    let _ := mapVal
    let x := getVal info obj
    match info.kind with
    | .primitive =>
      if info.isPlaceholder then isNull a && noUnknownFlat a
      else if info.parentIsOptionalEmbed && parentIsNil info obj then isNull a && noUnknownFlat a
      else primRenders info x a
    | .custom => true
    | .object => objRenders info.isNullable (fun o as => rendersFields sub o as) x a
    | .primitiveList =>
      (match a with
       | .list u n es _ =>
         !u && n == (sliceElems x).isEmpty && (es.getD []).length == (sliceElems x).length &&
           ((sliceElems x).zip (es.getD [])).all fun (e, v) => primRenders info e v
       | _ => false)
    | .objectList =>
      (match a with
       | .list u n es _ =>
         !u && n == (sliceElems x).isEmpty && (es.getD []).length == (sliceElems x).length &&
           ((sliceElems x).zip (es.getD [])).all fun (e, v) =>
             objRenders info.isNullable (fun o as => rendersFields sub o as) e v
       | _ => false)
    | .primitiveMap =>
      (match a with
       | .map u n es _ =>
         !u && n == (mapElems x).isEmpty && (es.getD []).length == (mapElems x).length &&
           (mapElems x).all fun (k, e) => match (es.getD []).lookup k with
             | some v => primRenders info e v
             | none => false
       | _ => false)
    | .objectMap =>
      (match a with
       | .map u n es _ =>
         !u && n == (mapElems x).isEmpty && (es.getD []).length == (mapElems x).length &&
           (mapElems x).all fun (k, e) => match (es.getD []).lookup k with
             | some v => objRenders info.isNullable (fun o as => rendersFields sub o as) e v
             | none => false
       | _ => false)
end

/-- attribute `f` of a freshly created object renders the struct `obj` -/
def rendersField (f : Field) (obj : GoVal) (attrs : List (String × TfVal)) : Bool :=
  match attrs.lookup f.info.nameSnake with
  | none => false
  | some a => rendersVal f obj a

-- ===================================================================================================
-- C09: in-place CopyTo follows the source
-- ===================================================================================================

/-- lists and maps are compared with their null flag recomputed from the elements (C09 speaks about the elements) -/
def normColl : TfVal → TfVal
  | .list u _ es t => .list u ((es.getD []).isEmpty) es t
  | .map u _ es t => .map u ((es.getD []).isEmpty) es t
  | other => other

def wasNonNullPrim (prev : Option TfVal) : Bool :=
  match prev with
  | some (.prim _ _ n _) => !n
  | _ => false

mutual
def followsFields (fs : List Field) (obj : GoVal) (prev cur : List (String × TfVal)) : Bool :=
  match fs with
  | [] => true
  | f :: rest => followsField f obj prev cur && followsFields rest obj prev cur

/-- C09 for attribute `f`: `prev` / `cur` are the attribute maps of the enclosing object before / after the call -/
def followsField (f : Field) (obj : GoVal) (prev cur : List (String × TfVal)) : Bool :=
  match f with
  | ⟨info, _, _, sub⟩ =>
    match cur.lookup info.nameSnake with
    | none => false
    | some a =>
      let x := getVal info obj
      match info.kind with
      | .primitive =>
        if info.isPlaceholder then true
        else if info.parentIsOptionalEmbed && parentIsNil info obj then isNull a   -- no source value: rendered as absent
        else if info.isNullable then primRenders info x a
        else
          (match a with | .prim _ u _ _ => !u | _ => false) &&
          (if wasNonNullPrim (prev.lookup info.nameSnake) then
            match a, x with
            | .prim _ _ _ p, .sc s => (match info.castTo s with | some c => p == c | none => false)
            | _, _ => false
           else true)
      | .custom => true
      | .object =>
        (match a with
         | .obj u n as _ =>
           let prevInner := match prev.lookup info.nameSnake with | some (.obj _ _ pas _) => pas.getD [] | _ => []
           !u && (if info.isNullable && isNilPtr x then n else followsFields sub (structOf x) prevInner (as.getD []))
         | _ => false)
      -- collections: exactly the source's elements (they are rebuilt from the element type on every call)
      | _ => rendersField f obj (cur.map fun x => (x.1, normColl x.2))
end

def c09Follows (m : Msg) (src : GoVal) (prev cur : TfVal) : Bool :=
  match prev, cur with
  | .obj _ _ pas _, .obj u n as _ => !u && !n && followsFields m.fields src (pas.getD []) (as.getD [])
  | _, _ => false

/-- all injected attribute names of a message tree (they are never written by the converters) -/
partial def injectedNames (fs : List Field) (top : List InjectedField) : List String :=
  top.map (·.name) ++ fs.flatMap fun f => injectedNames f.sub ((f.msg.map (·.injected)).getD [])

/-- names of custom-type attributes (their values are whatever the user's hooks return) -/
partial def customNames (fs : List Field) : List String :=
  fs.flatMap fun f => (if f.info.kind == .custom then [f.info.nameSnake] else []) ++ customNames f.sub

def c08Check (m : Msg) (plan : TfVal) (first : GoVal) (echoed : TfVal) (second : GoVal) : Bool :=
  noUnknownDeep (injectedNames m.fields m.info.injected ++ customNames m.fields) echoed &&
  echoKeeps (customNames m.fields) plan echoed && nfEqFields m.fields first second

/-- C09 on one refresh step: no error, nothing unknown, the object follows the source -/
def c09StepCheck (m : Msg) (src : GoVal) (diags : List Diag) (prev cur : TfVal) : Bool :=
  diags.isEmpty && noUnknownDeep (injectedNames m.fields m.info.injected) cur && c09Follows m src prev cur


-- ===================================================================================================
-- Triggers of the known findings (known_findings.json): predicates on the *inputs* of an operation
-- ===================================================================================================
namespace Trig

/-- nested (field list, struct) pairs a CopyTo call visits below one message level -/
def childrenTo (fs : List Field) (obj : GoVal) : List (List Field × GoVal) :=
  fs.flatMap fun f =>
    if f.info.parentIsOptionalEmbed && parentIsNil f.info obj then [] else
    let x := getVal f.info obj
    match f.info.kind with
    | .object => if isNilPtr x then [] else [(f.sub, structOf x)]
    | .objectList => (sliceElems x).filterMap fun e => if isNilPtr e then none else some (f.sub, structOf e)
    | .objectMap => (mapElems x).filterMap fun (_, e) => if isNilPtr e then none else some (f.sub, structOf e)
    | _ => []

/-- does predicate `p` hold at some message level visited by CopyTo (fuel bounds the depth) -/
def anyLevelTo (p : List Field → GoVal → Bool) : Nat → List Field → GoVal → Bool
  | 0, _, _ => false
  | n + 1, fs, obj => p fs obj || (childrenTo fs obj).any fun (fs', o') => anyLevelTo p n fs' o'

/-- F1b: a child of kind object / list / map / custom of a nil nullable embedded message -/
def f1bLevel (fs : List Field) (obj : GoVal) : Bool :=
  fs.any fun f => f.info.parentIsOptionalEmbed && f.info.kind != .primitive && parentIsNil f.info obj

def f1b (m : Msg) (obj : GoVal) : Bool := anyLevelTo f1bLevel 12 m.fields obj

/-- F5: a non-nil pointer to an empty message outside a oneof -/
def f5Level (fs : List Field) (obj : GoVal) : Bool :=
  fs.any fun f => f.info.kind == .object && f.info.isNullable && f.info.oneOfName == "" &&
    (match f.msg with | some m => m.isEmpty | none => false) && !isNilPtr (getVal f.info obj)

def f5 (m : Msg) (obj : GoVal) : Bool := anyLevelTo f5Level 12 m.fields obj

/-- nested (field list, attrs) pairs a CopyFrom call visits -/
def childrenFrom (fs : List Field) (attrs : List (String × TfVal)) : List (List Field × List (String × TfVal)) :=
  fs.flatMap fun f =>
    match f.info.kind, attrs.lookup f.info.nameSnake with
    | .object, some (.obj u n as _) => if !u && !n then [(f.sub, as.getD [])] else []
    | .objectList, some (.list u n es _) =>
      if u || n then [] else (es.getD []).filterMap fun e => match e with
        | .obj u' n' as _ => if !u' && !n' then some (f.sub, as.getD []) else none
        | _ => none
    | .objectMap, some (.map u n es _) =>
      if u || n then [] else (es.getD []).filterMap fun (_, e) => match e with
        | .obj u' n' as _ => if !u' && !n' then some (f.sub, as.getD []) else none
        | _ => none
    | _, _ => []

def anyLevelFrom (p : List Field → List (String × TfVal) → Bool) : Nat → List Field → List (String × TfVal) → Bool
  | 0, _, _ => false
  | n + 1, fs, as => p fs as || (childrenFrom fs as).any fun (fs', as') => anyLevelFrom p n fs' as'

/-- F2: CopyFrom writes a child of kind object / list / map / custom through a nil embedded parent:
at the top level when the prior struct's parent is nil, below always (nested structs are fresh) -/
def f2 (m : Msg) (tf : TfVal) (prior : GoVal) : Bool :=
  let shape (fs : List Field) : Bool := fs.any fun f => f.info.parentIsOptionalEmbed && f.info.kind != .primitive
  match tf with
  | .obj _ _ as _ =>
    (m.fields.any fun f => f.info.parentIsOptionalEmbed && f.info.kind != .primitive && parentIsNil f.info prior) ||
    (childrenFrom m.fields (as.getD [])).any fun (fs', as') => anyLevelFrom (fun fs _ => shape fs) 12 fs' as'
  | _ => false

/-- F3: the prior struct holds a non-nil nullable embedded message (its children are not reset by null attributes) -/
def f3 (m : Msg) (prior : GoVal) : Bool :=
  m.fields.any fun f => f.info.parentIsOptionalEmbed && !parentIsNil f.info prior

mutual
/-- F4: a null / unknown list or map that carries elements -/
def f4 : TfVal → Bool
  | .list u n (some es) _ => ((u || n) && !es.isEmpty) || f4List es
  | .map u n (some es) _ => ((u || n) && !es.isEmpty) || f4As es
  | .obj _ _ (some as) _ => f4As as
  | _ => false
def f4List : List TfVal → Bool
  | [] => false
  | v :: r => f4 v || f4List r
def f4As : List (String × TfVal) → Bool
  | [] => false
  | (_, v) :: r => f4 v || f4As r
end

/-- F5 on a plan: a known non-null object for an attribute whose message is empty (outside a oneof) -/
def f5Plan (m : Msg) (tf : TfVal) : Bool :=
  match tf with
  | .obj _ _ as _ =>
    anyLevelFrom (fun fs as => fs.any fun f => f.info.kind == .object && f.info.isNullable && f.info.oneOfName == "" &&
      (match f.msg with | some m => m.isEmpty | none => false) &&
      (match as.lookup f.info.nameSnake with | some a => isKnownNonNull a | none => false)) 12 m.fields (as.getD [])
  | _ => false

/-- F7: a oneof declared inside an embedded message (its holder is not reset): the prior struct holds a branch -/
def f7 (m : Msg) (prior : GoVal) : Bool :=
  m.fields.any fun f => f.info.oneOfName != "" && !m.info.oneOfNames.contains f.info.oneOfName &&
    (match prior.field? f.info.oneOfName with | some (.iface (some _)) => true | _ => false)

/-- F6: between two in-place CopyTo calls a list becomes nil, or a map loses a key / becomes nil
(top level and singular nested objects, which are the values that are re-used) -/
def f6Level (fs : List Field) (prev cur : GoVal) : Bool :=
  fs.any fun f =>
    let x := getVal f.info prev
    let y := getVal f.info cur
    match f.info.kind with
    | .primitiveList | .objectList => (match y with | .slice none => !(sliceElems x).isEmpty | _ => false)
    | .primitiveMap | .objectMap => (mapElems x).any fun (k, _) => ((mapElems y).lookup k).isNone
    | _ => false

def f6 : Nat → List Field → GoVal → GoVal → Bool
  | 0, _, _, _ => false
  | n + 1, fs, prev, cur =>
    f6Level fs prev cur ||
    fs.any fun f => f.info.kind == .object &&
      !isNilPtr (getVal f.info prev) && !isNilPtr (getVal f.info cur) &&
      f6 n f.sub (structOf (getVal f.info prev)) (structOf (getVal f.info cur))

end Trig

end PGT.Spec
