import PGT.Model.Values
/-
Boolean equality on the nested value types (the derive handler does not cover nested inductives).
Association lists are compared as finite maps (order-insensitively) where the Go value is a map.
-/
namespace PGT

mutual
def TfTy.beq : TfTy → TfTy → Bool
  | .prim a, .prim b => a == b
  | .list a, .list b => TfTy.optBeq a b
  | .map a, .map b => TfTy.optBeq a b
  | .obj a, .obj b => TfTy.optAsBeq a b
  | .other a, .other b => a == b
  | _, _ => false
def TfTy.optBeq : Option TfTy → Option TfTy → Bool
  | none, none => true
  | some a, some b => TfTy.beq a b
  | _, _ => false
def TfTy.optAsBeq : Option (List (String × TfTy)) → Option (List (String × TfTy)) → Bool
  | none, none => true
  | some a, some b => a.length == b.length && TfTy.subBeq a b
  | _, _ => false
/-- every binding of `a` has an equal binding in `b` -/
def TfTy.subBeq : List (String × TfTy) → List (String × TfTy) → Bool
  | [], _ => true
  | (k, t) :: r, b => TfTy.lookBeq k t b && TfTy.subBeq r b
def TfTy.lookBeq (k : String) (t : TfTy) : List (String × TfTy) → Bool
  | [] => false
  | (k', t') :: r => if k' == k then TfTy.beq t t' else TfTy.lookBeq k t r
end

instance : BEq TfTy := ⟨TfTy.beq⟩

mutual
def GoVal.beq : GoVal → GoVal → Bool
  | .sc a, .sc b => a == b
  | .ptr none, .ptr none => true
  | .ptr (some a), .ptr (some b) => GoVal.beq a b
  | .struct a, .struct b => a.length == b.length && GoVal.subBeq a b
  | .slice none, .slice none => true
  | .slice (some a), .slice (some b) => GoVal.listBeq a b
  | .map none, .map none => true
  | .map (some a), .map (some b) => a.length == b.length && GoVal.subBeq a b
  | .iface none, .iface none => true
  | .iface (some (w, f, a)), .iface (some (w', f', b)) => w == w' && f == f' && GoVal.beq a b
  | _, _ => false
def GoVal.listBeq : List GoVal → List GoVal → Bool
  | [], [] => true
  | a :: r, b :: r' => GoVal.beq a b && GoVal.listBeq r r'
  | _, _ => false
def GoVal.subBeq : List (String × GoVal) → List (String × GoVal) → Bool
  | [], _ => true
  | (k, v) :: r, b => GoVal.lookBeq k v b && GoVal.subBeq r b
def GoVal.lookBeq (k : String) (v : GoVal) : List (String × GoVal) → Bool
  | [] => false
  | (k', v') :: r => if k' == k then GoVal.beq v v' else GoVal.lookBeq k v r
end

instance : BEq GoVal := ⟨GoVal.beq⟩

mutual
def TfVal.beq : TfVal → TfVal → Bool
  | .prim k u n p, .prim k' u' n' p' => k == k' && u == u' && n == n' && p == p'
  | .list u n es t, .list u' n' es' t' => u == u' && n == n' && TfVal.optListBeq es es' && TfTy.optBeq t t'
  | .map u n es t, .map u' n' es' t' => u == u' && n == n' && TfVal.optAsBeq es es' && TfTy.optBeq t t'
  | .obj u n as t, .obj u' n' as' t' => u == u' && n == n' && TfVal.optAsBeq as as' && TfTy.optAsBeq t t'
  | .nilv, .nilv => true
  | .foreign a, .foreign b => a == b
  | _, _ => false
def TfVal.optListBeq : Option (List TfVal) → Option (List TfVal) → Bool
  | none, none => true
  | some a, some b => TfVal.listBeq a b
  | _, _ => false
def TfVal.listBeq : List TfVal → List TfVal → Bool
  | [], [] => true
  | a :: r, b :: r' => TfVal.beq a b && TfVal.listBeq r r'
  | _, _ => false
def TfVal.optAsBeq : Option (List (String × TfVal)) → Option (List (String × TfVal)) → Bool
  | none, none => true
  | some a, some b => a.length == b.length && TfVal.subBeq a b
  | _, _ => false
def TfVal.subBeq : List (String × TfVal) → List (String × TfVal) → Bool
  | [], _ => true
  | (k, v) :: r, b => TfVal.lookBeq k v b && TfVal.subBeq r b
def TfVal.lookBeq (k : String) (v : TfVal) : List (String × TfVal) → Bool
  | [] => false
  | (k', v') :: r => if k' == k then TfVal.beq v v' else TfVal.lookBeq k v r
end

instance : BEq TfVal := ⟨TfVal.beq⟩

end PGT
