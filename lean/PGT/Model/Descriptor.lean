/-
Abstract descriptor and configuration (DESIGN.md §3): the same records the Go harness renders to real
`FileDescriptorProto`s / YAML / plugin parameters.
-/
namespace PGT

/-- Cardinality of a field. -/
inductive Card | single | repeated | map
deriving DecidableEq, Repr, Inhabited

structure FieldD where
  name : String
  number : Nat := 0
  /-- one of the 15 scalar names, "enum", "message", "timestamp", "duration" -/
  type : String
  typeName : String := ""
  card : Card := .single
  mapKey : String := "string"
  /-- "" (option absent), "true", "false" -/
  nullable : String := ""
  embed : Bool := false
  jsonTag : Option String := none
  castType : String := ""
  customType : String := ""
  stdTime : Bool := false
  stdDuration : Bool := false
  /-- index into the message's oneof declarations -/
  oneof : Option Nat := none
  comment : Option String := none
deriving Repr, Inhabited, DecidableEq

structure MsgD where
  name : String
  comment : Option String := none
  oneofs : List String := []
  fields : List FieldD := []
deriving Repr, Inhabited, DecidableEq

structure EnumD where
  name : String
  values : List Int := []
deriving Repr, Inhabited, DecidableEq

structure FileD where
  name : String
  package : String
  messages : List MsgD := []
  enums : List EnumD := []
deriving Repr, Inhabited, DecidableEq

structure Request where
  deps : List FileD := []
  file : FileD
deriving Repr, Inhabited, DecidableEq

structure SchemaTypeC where
  type : String
  valueType : String
  castToType : String
  castFromType : String
  typeConstructor : String := ""
deriving Repr, Inhabited, DecidableEq

structure InjectedField where
  name : String
  type : String
  required : Bool := false
  computed : Bool := false
  optional : Bool := false
  planModifiers : List String := []
  validators : List String := []
deriving Repr, Inhabited, DecidableEq

/-- The plugin configuration after `ReadConfig`. Sets are lists (membership only), maps are association
lists (first-match lookup; the harness never renders duplicate keys). -/
structure Config where
  types : List String := []
  durationCustomType : String := ""
  excludeFields : List String := []
  targetPackageName : String := ""
  defaultPackageName : String := ""
  sort : Bool := false
  useStateForUnknownByDefault : Bool := false
  computedFields : List String := []
  requiredFields : List String := []
  sensitiveFields : List String := []
  suffixes : List (String × String) := []
  nameOverrides : List (String × String) := []
  validators : List (String × List String) := []
  planModifiers : List (String × List String) := []
  timeType : Option SchemaTypeC := none
  durationType : Option SchemaTypeC := none
  injectedFields : List (String × List InjectedField) := []
  importPathOverrides : List (String × String) := []
  customTypes : List (String × String) := []
deriving Repr, Inhabited, DecidableEq

/-- State of the `config=` parameter. -/
inductive YamlState | none | ok | missing | garbage
deriving DecidableEq, Repr, Inhabited

structure Case where
  request : Request
  yaml : Config := {}
  yamlState : YamlState := .ok
  cli : List (String × String) := []
deriving Repr, Inhabited

def Request.allFiles (r : Request) : List FileD := r.deps ++ [r.file]

def Request.findMessage (r : Request) (name : String) : Option MsgD :=
  (r.file.messages ++ r.deps.flatMap (·.messages)).find? (·.name == name)

end PGT
