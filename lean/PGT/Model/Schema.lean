import PGT.Model.Build
import PGT.Model.Sem
/-
The schema `GenSchema<T>` returns (gen_schema.go), as the tree a run-time walk of `tfsdk.Schema` sees, and
the declaration-level model of the generated file (plugin.go `write`, main.go).
-/
namespace PGT

/-- one `tfsdk.Attribute` -/
inductive SAttr
  | mk (required optional computed sensitive : Bool) (description : String) (ty : TfTy)
       (nest : String) (attrs : List (String × SAttr)) (validators planModifiers : List String)
       (customSuffix : String)
deriving Repr, Inhabited

def SAttr.ty : SAttr → TfTy
  | .mk _ _ _ _ _ t _ _ _ _ _ => t

def primTyOf (typeName : String) : TfTy :=
  match tkindOf typeName with
  | .prim k => .prim k
  | .list => .list none
  | .map => .map none
  | .obj => .obj none
  | .unknown => .other typeName

def injectedAttr (f : InjectedField) : String × SAttr :=
  (f.name, .mk f.required f.optional f.computed false "" (primTyOf f.type) "none" [] f.validators f.planModifiers "")

mutual

def schemaAttrs (fs : List Field) : List (String × SAttr) :=
  match fs with
  | [] => []
  | f :: rest => schemaField f :: schemaAttrs rest

/-- `FieldSchemaGenerator.Generate` -/
def schemaField (f : Field) : String × SAttr :=
  match f with
  | ⟨info, mapVal, msg, sub⟩ =>
    let nestedAttrs : List (String × SAttr) := schemaAttrs sub ++ ((msg.map (·.injected)).getD []).map injectedAttr
    let objTy : TfTy := .obj (some (nestedAttrs.map fun (n, a) => (n, a.ty)))
    let (ty, nest, attrs) : TfTy × String × List (String × SAttr) :=
      match info.kind with
      | .primitive => (primTyOf info.tf.elemType, "none", [])
      | .primitiveList => (.list (some (primTyOf info.tf.elemType)), "none", [])
      | .primitiveMap => (.map (some (primTyOf ((mapVal.getD info).tf.elemType))), "none", [])
      | .object => (objTy, "single", nestedAttrs)
      | .objectList => (.list (some objTy), "list", nestedAttrs)
      | .objectMap => (.map (some objTy), "map", nestedAttrs)
      | .custom => (if info.isRepeated then .list (some (.prim .string)) else .prim .string, "none", [])
    (info.nameSnake,
     .mk info.isRequired (!info.isRequired) info.isComputed info.isSensitive info.comment ty nest attrs
         info.validators info.planModifiers (if info.kind == .custom then info.suffix else ""))

end

/-- the attributes of `GenSchema<T>` -/
def schemaOf (m : Msg) : List (String × SAttr) :=
  schemaAttrs m.fields ++ m.info.injected.map injectedAttr

/-- `schema.AttributeType()`'s attribute types -/
def attrTypesOf (m : Msg) : List (String × TfTy) := (schemaOf m).map fun (n, a) => (n, a.ty)

/-- what one run of the plugin produces -/
inductive PluginOutcome
  | fail (why : ConfigError)
  | response (fileName : String) (package : String) (funcs : List String) (warnings : List String)
deriving Repr, Inhabited

def insertMsgByName (m : Msg) : List Msg → List Msg
  | [] => [m]
  | g :: gs => if m.info.name < g.info.name then m :: g :: gs else g :: insertMsgByName m gs

/-- `Plugin.build` over all files of the request: the root messages that build, and the names of those that fail -/
def buildRoots (cfg : Config) (req : Request) : List Msg × List String :=
  let all := req.allFiles.flatMap (·.messages)
  let rs := all.map fun d => (d.name, buildRoot cfg req d)
  let ok := rs.filterMap fun (_, r) => match r with | .ok (some m) => some m | _ => none
  let failed := rs.filterMap fun (n, r) => match r with | .error _ => some n | _ => none
  (if cfg.sort then ok.foldr insertMsgByName [] else ok, failed)

def baseName (file : String) : String :=
  let l := file.toList
  match lastIndexOfChar '.' l with
  | some i => String.ofList (l.take i)
  | none => file

/-- the declaration-level model of the response -/
def emit (c : Case) : PluginOutcome :=
  match readConfig c.yamlState c.yaml c.cli with
  | .error e => .fail e
  | .ok cfg =>
    let (roots, failed) := buildRoots cfg c.request
    let names := roots.map (·.info.name)
    .response (baseName c.request.file.name ++ "_terraform.go")
      (if cfg.targetPackageName != "" then cfg.targetPackageName else c.request.file.package)
      (names.map ("GenSchema" ++ ·) ++ names.flatMap fun n => ["Copy" ++ n ++ "FromTerraform", "Copy" ++ n ++ "ToTerraform"])
      failed

end PGT
