import PGT.Model.Sem
import PGT.Model.GoTypes
import PGT.Model.CopyTo
/-
Semantics of the emitted `Copy<T>FromTerraform` (gen_copy_from.go), statement by statement, for any IR,
any Terraform object (well-formed or not) and any prior content of the target struct.
Structs are association lists in which an absent field denotes the Go zero value.
-/
namespace PGT

structure FromSt where
  obj : GoVal
  diags : List Diag := []
  hooks : List HookCall := []
deriving Repr, Inhabited

def FromSt.diag (s : FromSt) (d : Diag) : FromSt := { s with diags := s.diags ++ [d] }

/-- `obj.<Name> = x`; through a nil embedded parent pointer this panics -/
def writeField (f : FieldInfo) (obj : GoVal) (x : GoVal) : Outcome GoVal :=
  if f.parentIsOptionalEmbed then
    match obj.field? f.parentIsOptionalEmbedFieldName with
    | some (.ptr (some s)) => .ok (obj.setField f.parentIsOptionalEmbedFieldName (.ptr (some (s.setField f.name x))))
    | some (.ptr none) => .panic "nil-deref"
    | none => .panic "nil-deref"      -- absent = zero value = nil pointer
    | _ => .stuck "embedded parent is not a pointer"
  else .ok (obj.setField f.name x)

/-- `!v.Null && !v.Unknown` -/
def known (unk null : Bool) : Bool := !null && !unk

/-- `var t GoElemType` for a scalar (or pointer-to-scalar) element -/
def zeroPrim (f : FieldInfo) : GoVal :=
  if f.isNullable then .ptr none else .sc (zeroOfRep f.rep)

/-- `var t GoElemType` for a message element -/
def zeroMsg (f : FieldInfo) : GoVal :=
  if f.isNullable then .ptr none else .struct []

/-- zero value of a list element (`make([]T, n)`) -/
def zeroElem (f : FieldInfo) : GoVal :=
  if f.kind == .objectList then zeroMsg f else zeroPrim f

/-- `!v.Null && !v.Unknown` of an asserted value -/
def TfVal.isKnown : TfVal → Bool
  | .prim _ u n _ => known u n | .list u n _ _ => known u n | .map u n _ _ => known u n | .obj u n _ _ => known u n
  | _ => false

/-- `if obj.<Parent> == nil { obj.<Parent> = &Parent{} }` -/
def allocParent (f : FieldInfo) (obj : GoVal) : GoVal :=
  match obj.field? f.parentIsOptionalEmbedFieldName with
  | some (.ptr (some _)) => obj
  | _ => obj.setField f.parentIsOptionalEmbedFieldName (.ptr (some (.struct [])))

/-- `withOptionalEmbedParent`: the struct the code of a message / list / map child of a nullable embedded message
runs on – a known value allocates the embedded message first; `none`: there is no embedded message and the value is
null or unknown, the field code is skipped -/
def embedGuard (f : FieldInfo) (a : TfVal) (obj : GoVal) : Option GoVal :=
  if f.parentIsOptionalEmbed && f.kind != .primitive then
    match obj.field? f.parentIsOptionalEmbedFieldName with
    | some (.ptr (some _)) => some obj
    | _ => if a.isKnown then some (allocParent f obj) else none
  else some obj

/-- `genPrimitiveBody`: the Go value `t` decoded from a primitive Terraform value -/
def primDecode (f : FieldInfo) (k : PrimK) (unk null : Bool) (p : Sc) : Outcome GoVal :=
  if known unk null then
    match f.castFrom k p with
    | some c => .ok (if f.isNullable then .ptr (some (.sc c)) else .sc c)
    | none => .stuck "cast not modelled"
  else .ok (zeroPrim f)

/-- the recursive call on a nested message: `rec tfAttrs obj diags hooks` -/
abbrev FromRec := Option (List (String × TfVal)) → FromSt → Outcome FromSt

/-- element loop of lists: `for k, a := range v.Elems` -/
def fromElemsList (body : TfVal → List Diag → List HookCall → Outcome (Option GoVal × List Diag × List HookCall))
    (elems : List TfVal) (k : Nat) (acc : List GoVal) (diags : List Diag) (hooks : List HookCall) :
    Outcome (List GoVal × List Diag × List HookCall) :=
  match elems with
  | [] => .ok (acc, diags, hooks)
  | a :: rest =>
    match body a diags hooks with
    | .ok (some v, ds, hs) => fromElemsList body rest (k + 1) (acc.set k v) ds hs
    | .ok (none, ds, hs) => fromElemsList body rest (k + 1) acc ds hs
    | .panic w => .panic w
    | .stuck w => .stuck w

def fromElemsMap (body : TfVal → List Diag → List HookCall → Outcome (Option GoVal × List Diag × List HookCall))
    (elems : List (String × TfVal)) (acc : List (String × GoVal)) (diags : List Diag) (hooks : List HookCall) :
    Outcome (List (String × GoVal) × List Diag × List HookCall) :=
  match elems with
  | [] => .ok (acc, diags, hooks)
  | (k, a) :: rest =>
    match body a diags hooks with
    | .ok (some v, ds, hs) => fromElemsMap body rest (setKey k v acc) ds hs
    | .ok (none, ds, hs) => fromElemsMap body rest acc ds hs
    | .panic w => .panic w
    | .stuck w => .stuck w

/-- body of the element loop of a list (`vf` = the field) or a map (`vf` = the map value field):
`v, ok := a.(ElemValueType)`, conversion diagnostic when the assertion fails, else the element is decoded
(scalars: `genPrimitiveBody` of the field; messages: a fresh struct filled by the nested message's field blocks) -/
def fromElemBody (rec : FromRec) (overrides : List (String × String)) (info vf : FieldInfo) :
    TfVal → List Diag → List HookCall → Outcome (Option GoVal × List Diag × List HookCall) :=
  fun e diags hooks =>
    if e.vkind != vkindOf vf.tf.elemValueType || e.vkind == .unknown then
      .ok (none, diags ++ [.readConv info.path (withType overrides vf.tf.elemValueType)], hooks)
    else
      match e with
      | .prim k u nl p =>
        if info.kind == .primitiveList || info.kind == .primitiveMap then
          match primDecode info k u nl p with
          | .ok t => .ok (some t, diags, hooks)
          | .panic w => .panic w
          | .stuck w => .stuck w
        else .stuck "element kind"
      | .obj u nl attrs _ =>
        if info.kind == .objectList || info.kind == .objectMap then
          if known u nl then
            match rec attrs { obj := .struct [], diags := diags, hooks := hooks } with
            | .ok st' => .ok (some (if info.isNullable then .ptr (some st'.obj) else st'.obj), st'.diags, st'.hooks)
            | .panic w => .panic w
            | .stuck w => .stuck w
          else .ok (some (zeroMsg info), diags, hooks)
        else .stuck "element kind"
      | _ => .stuck "element kind"

/-- one field block of CopyFrom, given the recursive call for the nested message.
`overrides` are the import path overrides (they appear in the type string of element conversion diagnostics). -/
def copyFromFieldWith (rec : FromRec) (overrides : List (String × String)) (info : FieldInfo) (mapVal : Option FieldInfo)
    (msg : Option MsgInfo) (tfAttrs : Option (List (String × TfVal))) (st : FromSt) : Outcome FromSt :=
  let a? := (tfAttrs.getD []).lookup info.nameSnake
  match info.kind with
  | .custom =>
    -- a, ok := tf.Attrs[name]; if !ok { diag }; CopyFrom<S>(diags, a, &obj.F)
    let st := match a? with | none => st.diag (.readMissing info.path) | some _ => st
    let a := a?.getD .nilv
    -- the hook gets `&obj.F`: a nil embedded parent is allocated first
    let st := if info.parentIsOptionalEmbed then { st with obj := allocParent info st.obj } else st
    match writeField info st.obj (hookFrom info.isRepeated a) with
    | .ok o => .ok { st with obj := o, hooks := st.hooks ++ [.copyFrom ("CopyFrom" ++ info.suffix) a] }
    | .panic w => .panic w
    | .stuck w => .stuck w
  | _ =>
  match a? with
  | none => .ok (st.diag (.readMissing info.path))
  | some a =>
    -- v, ok := a.(ValueType)
    if a.vkind != vkindOf info.tf.valueType || a.vkind == .unknown then .ok (st.diag (.readConv info.path info.tf.valueType))
    else
    match embedGuard info a st.obj with
    | none => .ok st
    | some obj0 =>
    let st := { st with obj := obj0 }
    match info.kind, a with
    | .primitive, .prim k unk null p =>
      match primDecode info k unk null p with
      | .panic w => .panic w
      | .stuck w => .stuck w
      | .ok t =>
        if info.oneOfName != "" then
          if known unk null then
            let holder : GoVal := .iface (some (lastSegment info.oneOfType, info.name, t))
            .ok { st with obj := st.obj.setField info.oneOfName holder }
          else .ok st
        else if info.parentIsOptionalEmbed then
          if known unk null then
            let obj := match st.obj.field? info.parentIsOptionalEmbedFieldName with
              | some (.ptr (some _)) => st.obj
              | _ => st.obj.setField info.parentIsOptionalEmbedFieldName (.ptr (some (.struct [])))
            match writeField info obj t with
            | .ok o => .ok { st with obj := o }
            | .panic w => .panic w
            | .stuck w => .stuck w
          else
            -- else if obj.<Parent> != nil { obj.F = t }
            match st.obj.field? info.parentIsOptionalEmbedFieldName with
            | some (.ptr (some _)) =>
              match writeField info st.obj t with
              | .ok o => .ok { st with obj := o }
              | .panic w => .panic w
              | .stuck w => .stuck w
            | _ => .ok st
        else .ok { st with obj := st.obj.setField info.name t }
    | .object, .obj unk null attrs _ =>
      let isEmpty := (isEmptyMsg msg)
      if info.oneOfName == "" then
        -- obj.F = nil / T{}
        match writeField info st.obj (if info.isNullable then .ptr none else .struct []) with
        | .panic w => .panic w
        | .stuck w => .stuck w
        | .ok o =>
          if known unk null && isEmpty then
            -- obj.F = &T{} (nullable); nothing else for a message without fields
            match writeField info o (if info.isNullable then .ptr (some (.struct [])) else .struct []) with
            | .ok o' => .ok { st with obj := o' }
            | .panic w => .panic w
            | .stuck w => .stuck w
          else if known unk null && !isEmpty then
            match rec attrs { st with obj := .struct [] } with
            | .panic w => .panic w
            | .stuck w => .stuck w
            | .ok st' =>
              match writeField info o (if info.isNullable then .ptr (some st'.obj) else st'.obj) with
              | .ok o' => .ok { st' with obj := o' }
              | .panic w => .panic w
              | .stuck w => .stuck w
          else .ok { st with obj := o }
      else
        if known unk null then
          let inner : Outcome FromSt :=
            if !isEmpty then rec attrs { st with obj := .struct [] } else .ok { st with obj := .struct [] }
          match inner with
          | .panic w => .panic w
          | .stuck w => .stuck w
          | .ok st' =>
            let holder : GoVal := .iface (some (lastSegment info.oneOfType, info.name, .ptr (some st'.obj)))
            .ok { st' with obj := st.obj.setField info.oneOfName holder }
        else .ok st
    | .primitiveList, .list unk null elems _ | .objectList, .list unk null elems _ =>
      let vf := info
      let n := (elems.getD []).length
      -- known: obj.F = make(GoType, len(v.Elems)); null / unknown: obj.F = make(GoType, 0)
      match writeField info st.obj (.slice (some (List.replicate (if known unk null then n else 0) (zeroElem vf)))) with
      | .panic w => .panic w
      | .stuck w => .stuck w
      | .ok o =>
        if known unk null then
          let body := fromElemBody rec overrides info vf
          match fromElemsList body (elems.getD []) 0 (List.replicate n (zeroElem vf)) st.diags st.hooks with
          | .panic w => .panic w
          | .stuck w => .stuck w
          | .ok (l, ds, hs) =>
            match writeField info o (.slice (some l)) with
            | .ok o' => .ok { obj := o', diags := ds, hooks := hs }
            | .panic w => .panic w
            | .stuck w => .stuck w
        else .ok { st with obj := o }
    | .primitiveMap, .map unk null elems _ | .objectMap, .map unk null elems _ =>
      let vf := mapVal.getD info
      match writeField info st.obj (.map (some [])) with
      | .panic w => .panic w
      | .stuck w => .stuck w
      | .ok o =>
        if known unk null then
          let body := fromElemBody rec overrides info vf
          match fromElemsMap body (elems.getD []) [] st.diags st.hooks with
          | .panic w => .panic w
          | .stuck w => .stuck w
          | .ok (l, ds, hs) =>
            match writeField info o (.map (some l)) with
            | .ok o' => .ok { obj := o', diags := ds, hooks := hs }
            | .panic w => .panic w
            | .stuck w => .stuck w
        else .ok { st with obj := o }
    | _, _ => .stuck "value kind does not fit the field kind"

/-- `obj.<OneOf> = nil` for the message's own oneofs -/
def resetOneOfs (names : List String) (obj : GoVal) : GoVal :=
  names.foldl (fun o n => o.setField n (.iface none)) obj

mutual

/-- the field blocks of `GenerateFields` -/
def copyFromFields (overrides : List (String × String)) (fs : List Field)
    (tfAttrs : Option (List (String × TfVal))) (st : FromSt) : Outcome FromSt :=
  match fs with
  | [] => .ok st
  | f :: rest =>
    -- the placeholder of a message without fields exists in the schema only
    if f.info.isPlaceholder then copyFromFields overrides rest tfAttrs st else
    match copyFromField overrides f tfAttrs st with
    | .ok st' => copyFromFields overrides rest tfAttrs st'
    | .panic w => .panic w
    | .stuck w => .stuck w

def copyFromField (overrides : List (String × String)) (f : Field)
    (tfAttrs : Option (List (String × TfVal))) (st : FromSt) : Outcome FromSt :=
  match f with
  | ⟨info, mapVal, msg, sub⟩ =>
    copyFromFieldWith
      (fun attrs s => copyFromFields overrides sub attrs
          { s with obj := resetOneOfs ((msg.map (·.oneOfNames)).getD []) s.obj })
      overrides info mapVal msg tfAttrs st

end

structure FromResult where
  obj : GoVal
  diags : List Diag
  hooks : List HookCall
deriving Repr, Inhabited

/-- `Copy<T>FromTerraform(ctx, tf, obj)` -/
def copyFrom (overrides : List (String × String)) (m : Msg) (tf : TfVal) (obj : GoVal) : Outcome FromResult :=
  match tf with
  | .obj _ _ attrs _ =>
    match copyFromFields overrides m.fields attrs { obj := resetOneOfs m.info.oneOfNames obj } with
    | .ok st => .ok { obj := st.obj, diags := st.diags, hooks := st.hooks }
    | .panic w => .panic w
    | .stuck w => .stuck w
  | _ => .stuck "source is not an object"

end PGT
