import PGT.Model.Float
/-
Bit-precise scalars and Go's conversions between them (C19 is *about* width, sign and rounding):
integers as `BitVec 32/64`, IEEE-754 binary32/binary64 as bit patterns, strings as byte lists.
-/
namespace PGT

/-- scalar payloads of Go fields and of Terraform values -/
inductive Sc
  | b (v : Bool)
  | str (v : List UInt8)
  | bytes (v : Option (List UInt8))   -- Go `[]byte`; `none` = nil
  | w32 (v : BitVec 32)
  | w64 (v : BitVec 64)
  | f32 (v : BitVec 32)
  | f64 (v : BitVec 64)
  | time (tok : String)
deriving DecidableEq, Repr, Inhabited

/-- representation classes of Go scalar types -/
inductive GoRep | b | str | bytes | i32 | u32 | i64 | u64 | f32 | f64 | time | dur
deriving DecidableEq, Repr, Inhabited

/-- builtin (and std) Go type names -/
def repOfGoType (s : String) : Option GoRep :=
  if s == "bool" then some .b else if s == "string" then some .str else if s == "[]byte" then some .bytes
  else if s == "int32" then some .i32 else if s == "uint32" then some .u32
  else if s == "int64" then some .i64 else if s == "uint64" then some .u64
  else if s == "float32" then some .f32 else if s == "float64" then some .f64
  else if s == "time.Time" then some .time else if s == "time.Duration" then some .dur
  else none

/-- the Go representation gogo gives a proto type (also behind cast types and enums) -/
def repOfProto (t : String) : GoRep :=
  if t == "double" then .f64 else if t == "float" then .f32
  else if t == "int64" || t == "sint64" || t == "sfixed64" then .i64
  else if t == "uint64" || t == "fixed64" then .u64
  else if t == "int32" || t == "sint32" || t == "sfixed32" || t == "enum" then .i32
  else if t == "uint32" || t == "fixed32" then .u32
  else if t == "bool" then .b else if t == "string" then .str else if t == "bytes" then .bytes
  else if t == "timestamp" then .time else if t == "duration" then .dur
  else .str


/-- Go's conversion `T(x)` from representation `src` to representation `dst`. `none`: not modelled
(such a conversion is never emitted for the unchanged table). -/
def conv (src dst : GoRep) (x : Sc) : Option Sc :=
  match src, dst, x with
  | .b, .b, .b v => some (.b v)
  | .str, .str, .str v => some (.str v)
  | .bytes, .str, .bytes v => some (.str (v.getD []))
  | .str, .bytes, .str v => some (.bytes (some v))
  | .bytes, .bytes, .bytes v => some (.bytes v)
  | .i32, .i64, .w32 v => some (.w64 (v.signExtend 64))
  | .i32, .u64, .w32 v => some (.w64 (v.signExtend 64))
  | .u32, .i64, .w32 v => some (.w64 (v.zeroExtend 64))
  | .u32, .u64, .w32 v => some (.w64 (v.zeroExtend 64))
  | .i32, .i32, .w32 v => some (.w32 v)
  | .i32, .u32, .w32 v => some (.w32 v)
  | .u32, .i32, .w32 v => some (.w32 v)
  | .u32, .u32, .w32 v => some (.w32 v)
  | .i64, .i64, .w64 v => some (.w64 v)
  | .i64, .u64, .w64 v => some (.w64 v)
  | .u64, .i64, .w64 v => some (.w64 v)
  | .u64, .u64, .w64 v => some (.w64 v)
  | .i64, .i32, .w64 v => some (.w32 (v.truncate 32))
  | .i64, .u32, .w64 v => some (.w32 (v.truncate 32))
  | .u64, .i32, .w64 v => some (.w32 (v.truncate 32))
  | .u64, .u32, .w64 v => some (.w32 (v.truncate 32))
  | .i64, .dur, .w64 v => some (.w64 v)
  | .dur, .i64, .w64 v => some (.w64 v)
  | .dur, .dur, .w64 v => some (.w64 v)
  | .f32, .f64, .f32 v => some (.f64 (F.widen64 v))
  | .f64, .f32, .f64 v => some (.f32 (F.narrow32 v))
  | .f32, .f32, .f32 v => some (.f32 v)
  | .f64, .f64, .f64 v => some (.f64 v)
  | .time, .time, .time v => some (.time v)
  | _, _, _ => none

/-- Go zero value of a representation -/
def zeroOfRep : GoRep → Sc
  | .b => .b false | .str => .str [] | .bytes => .bytes none
  | .i32 => .w32 0 | .u32 => .w32 0 | .i64 => .w64 0 | .u64 => .w64 0 | .dur => .w64 0
  | .f32 => .f32 0 | .f64 => .f64 0 | .time => .time "zero"

/-- decimal digits -/
def parseNatLit : List Char → Option Nat
  | [] => none
  | cs => cs.foldl (fun acc c => match acc with
      | some n => if c.isDigit then some (n * 10 + (c.toNat - 48)) else none
      | none => none) (some 0)

/-- an integer literal -/
def parseIntLit : List Char → Option Int
  | '-' :: rest => (parseNatLit rest).map fun n => -(n : Int)
  | cs => (parseNatLit cs).map fun n => (n : Int)

/-- `v == <literal>` for the zero literals of the type table (`""`, `0`, `false`); `none`: literal not understood -/
def eqLiteral (lit : String) (v : Sc) : Option Bool :=
  match v with
  | .str s => if lit == "\"\"" then some s.isEmpty else none
  | .b x => if lit == "false" then some (x == false) else if lit == "true" then some (x == true) else none
  | .w64 x => match parseIntLit lit.toList with | some n => some (x.toInt == n) | none => none
  | .f64 x => if lit == "0" then some (F.isZero64 x) else none
  | _ => none

end PGT
