/-
Bit-precise scalars and Go's conversions between them (C19 is *about* width, sign and rounding):
integers as `BitVec 32/64`, IEEE-754 binary32/binary64 as bit patterns, strings as byte lists.
-/
namespace PGT

/-- scalar payloads of Go fields and of Terraform values -/
inductive Sc
  | b (v : Bool)
  | str (v : List UInt8)
  | bytes (v : Option (List UInt8))   -- Go `[]byte`; `none` = nil
  | w32 (v : BitVec 32)
  | w64 (v : BitVec 64)
  | f32 (v : BitVec 32)
  | f64 (v : BitVec 64)
  | time (tok : String)
deriving DecidableEq, Repr, Inhabited

/-- representation classes of Go scalar types -/
inductive GoRep | b | str | bytes | i32 | u32 | i64 | u64 | f32 | f64 | time | dur
deriving DecidableEq, Repr, Inhabited

/-- builtin (and std) Go type names -/
def repOfGoType (s : String) : Option GoRep :=
  if s == "bool" then some .b else if s == "string" then some .str else if s == "[]byte" then some .bytes
  else if s == "int32" then some .i32 else if s == "uint32" then some .u32
  else if s == "int64" then some .i64 else if s == "uint64" then some .u64
  else if s == "float32" then some .f32 else if s == "float64" then some .f64
  else if s == "time.Time" then some .time else if s == "time.Duration" then some .dur
  else none

/-- the Go representation gogo gives a proto type (also behind cast types and enums) -/
def repOfProto (t : String) : GoRep :=
  if t == "double" then .f64 else if t == "float" then .f32
  else if t == "int64" || t == "sint64" || t == "sfixed64" then .i64
  else if t == "uint64" || t == "fixed64" then .u64
  else if t == "int32" || t == "sint32" || t == "sfixed32" || t == "enum" then .i32
  else if t == "uint32" || t == "fixed32" then .u32
  else if t == "bool" then .b else if t == "string" then .str else if t == "bytes" then .bytes
  else if t == "timestamp" then .time else if t == "duration" then .dur
  else .str

namespace F

/-- number of leading zeros of a 23-bit mantissa (as a chain, so that it is a closed bit-vector term) -/
def clz23 (m : BitVec 23) : Nat := (List.range 23).find? (fun i => m.getMsbD i) |>.getD 23

/-- float32 → float64, exact (`float64(x)` in Go). NaNs are quieted, payload kept (amd64 CVTSS2SD). -/
def widen64 (x : BitVec 32) : BitVec 64 :=
  let sign : BitVec 64 := (x.extractLsb' 31 1).zeroExtend 64 <<< 63
  let e : Nat := (x.extractLsb' 23 8).toNat
  let m : BitVec 23 := x.extractLsb' 0 23
  if e == 255 then
    if m == 0 then sign ||| (0x7ff : BitVec 64) <<< 52
    else sign ||| (0x7ff : BitVec 64) <<< 52 ||| (1 : BitVec 64) <<< 51 ||| (m.zeroExtend 64 <<< 29)
  else if e == 0 then
    if m == 0 then sign
    else
      -- subnormal: normalise
      let z := clz23 m                    -- 0 ≤ z ≤ 22
      let m' : BitVec 64 := ((m.zeroExtend 64) <<< (z + 1)) &&& 0x7fffff  -- drop the leading one
      let e' : Nat := 1023 - 126 - (z + 1)
      sign ||| (BitVec.ofNat 64 e') <<< 52 ||| (m' <<< 29)
  else
    sign ||| (BitVec.ofNat 64 (e + 1023 - 127)) <<< 52 ||| (m.zeroExtend 64 <<< 29)

/-- round-to-nearest-even right shift of a natural number -/
def rshiftRNE (v : Nat) (s : Nat) : Nat :=
  let q := v >>> s
  let r := v % (2 ^ s)
  let half := 2 ^ s / 2
  if s == 0 then v
  else if r > half then q + 1
  else if r < half then q
  else if q % 2 == 1 then q + 1 else q

/-- float64 → float32, round to nearest even (`float32(x)` in Go); overflow to ±Inf, gradual underflow. -/
def narrow32 (x : BitVec 64) : BitVec 32 :=
  let sign : BitVec 32 := (x.extractLsb' 63 1).zeroExtend 32 <<< 31
  let e : Nat := (x.extractLsb' 52 11).toNat
  let m : Nat := (x.extractLsb' 0 52).toNat
  if e == 2047 then
    if m == 0 then sign ||| 0x7f800000
    else sign ||| 0x7f800000 ||| 0x00400000 ||| BitVec.ofNat 32 (m >>> 29)
  else
    -- unbiased exponent e - 1023; float32 normal range: -126 .. 127
    if e == 0 then sign  -- float64 zero or subnormal: far below float32's smallest subnormal (2^-149)
    else if e + 127 ≥ 1023 + 1 then
      -- candidate normal (biased exponent e32 = e - 896 ≥ 1)
      let e32 := e + 127 - 1023
      let full := (2 ^ 52 + m)              -- 53-bit significand
      let r := rshiftRNE full 29            -- 24 bits, or 2^24 after carry
      let (e32, r) := if r ≥ 2 ^ 24 then (e32 + 1, r / 2) else (e32, r)
      if e32 ≥ 255 then sign ||| 0x7f800000
      else sign ||| BitVec.ofNat 32 (e32 * 2 ^ 23 + (r - 2 ^ 23))
    else
      -- subnormal or zero result: value = full * 2^(e-1075); target unit 2^-149 ⇒ shift right by (1075 - 149 - e) = 926 - e
      let full := (2 ^ 52 + m)
      let s := 926 - e
      if s > 54 then sign
      else sign ||| BitVec.ofNat 32 (rshiftRNE full s)   -- may carry into the smallest normal: still the right pattern

def isNaN32 (x : BitVec 32) : Bool := (x.extractLsb' 23 8) == 0xff && (x.extractLsb' 0 23) != 0
def isNaN64 (x : BitVec 64) : Bool := (x.extractLsb' 52 11) == 0x7ff && (x.extractLsb' 0 52) != 0
/-- `x == 0` on float64: both zeros -/
def isZero64 (x : BitVec 64) : Bool := (x &&& 0x7fffffffffffffff) == 0

end F

/-- Go's conversion `T(x)` from representation `src` to representation `dst`. `none`: not modelled
(such a conversion is never emitted for the unchanged table). -/
def conv (src dst : GoRep) (x : Sc) : Option Sc :=
  match src, dst, x with
  | .b, .b, .b v => some (.b v)
  | .str, .str, .str v => some (.str v)
  | .bytes, .str, .bytes v => some (.str (v.getD []))
  | .str, .bytes, .str v => some (.bytes (some v))
  | .bytes, .bytes, .bytes v => some (.bytes v)
  | .i32, .i64, .w32 v => some (.w64 (v.signExtend 64))
  | .i32, .u64, .w32 v => some (.w64 (v.signExtend 64))
  | .u32, .i64, .w32 v => some (.w64 (v.zeroExtend 64))
  | .u32, .u64, .w32 v => some (.w64 (v.zeroExtend 64))
  | .i32, .i32, .w32 v => some (.w32 v)
  | .i32, .u32, .w32 v => some (.w32 v)
  | .u32, .i32, .w32 v => some (.w32 v)
  | .u32, .u32, .w32 v => some (.w32 v)
  | .i64, .i64, .w64 v => some (.w64 v)
  | .i64, .u64, .w64 v => some (.w64 v)
  | .u64, .i64, .w64 v => some (.w64 v)
  | .u64, .u64, .w64 v => some (.w64 v)
  | .i64, .i32, .w64 v => some (.w32 (v.truncate 32))
  | .i64, .u32, .w64 v => some (.w32 (v.truncate 32))
  | .u64, .i32, .w64 v => some (.w32 (v.truncate 32))
  | .u64, .u32, .w64 v => some (.w32 (v.truncate 32))
  | .i64, .dur, .w64 v => some (.w64 v)
  | .dur, .i64, .w64 v => some (.w64 v)
  | .dur, .dur, .w64 v => some (.w64 v)
  | .f32, .f64, .f32 v => some (.f64 (F.widen64 v))
  | .f64, .f32, .f64 v => some (.f32 (F.narrow32 v))
  | .f32, .f32, .f32 v => some (.f32 v)
  | .f64, .f64, .f64 v => some (.f64 v)
  | .time, .time, .time v => some (.time v)
  | _, _, _ => none

/-- Go zero value of a representation -/
def zeroOfRep : GoRep → Sc
  | .b => .b false | .str => .str [] | .bytes => .bytes none
  | .i32 => .w32 0 | .u32 => .w32 0 | .i64 => .w64 0 | .u64 => .w64 0 | .dur => .w64 0
  | .f32 => .f32 0 | .f64 => .f64 0 | .time => .time "zero"

/-- decimal digits -/
def parseNatLit : List Char → Option Nat
  | [] => none
  | cs => cs.foldl (fun acc c => match acc with
      | some n => if c.isDigit then some (n * 10 + (c.toNat - 48)) else none
      | none => none) (some 0)

/-- an integer literal -/
def parseIntLit : List Char → Option Int
  | '-' :: rest => (parseNatLit rest).map fun n => -(n : Int)
  | cs => (parseNatLit cs).map fun n => (n : Int)

/-- `v == <literal>` for the zero literals of the type table (`""`, `0`, `false`); `none`: literal not understood -/
def eqLiteral (lit : String) (v : Sc) : Option Bool :=
  match v with
  | .str s => if lit == "\"\"" then some s.isEmpty else none
  | .b x => if lit == "false" then some (x == false) else if lit == "true" then some (x == true) else none
  | .w64 x => match parseIntLit lit.toList with | some n => some (x.toInt == n) | none => none
  | .f64 x => if lit == "0" then some (F.isZero64 x) else none
  | _ => none

end PGT
