/-
IEEE-754 binary32 <-> binary64 conversions on bit patterns, written with bit-vector operations only
(the round-trip lemmas are proved on `BitVec.toNat` level in `Proofs/FloatRTKernel.lean`). Go: `float64(x)` (exact) and `float32(x)` (round to nearest even).
-/
namespace PGT.F

/-- float32 -> float64, exact. NaNs are quieted, payload kept (amd64 CVTSS2SD). -/
def widen64 (x : BitVec 32) : BitVec 64 :=
  let sign : BitVec 64 := ((x >>> 31).zeroExtend 64) <<< 63
  let e : BitVec 32 := (x >>> 23) &&& 0xff#32
  let m : BitVec 32 := x &&& 0x7fffff#32
  if e == 0xff#32 then
    if m == 0#32 then sign ||| 0x7ff0000000000000#64
    else sign ||| 0x7ff8000000000000#64 ||| ((m.zeroExtend 64) <<< 29)
  else if e == 0#32 then
    -- zero or subnormal: normalise (the leading one becomes implicit)
    if m &&& 0x400000#32 != 0#32 then
      sign ||| (896#64 <<< 52) ||| ((((m <<< 1) &&& 0x7fffff#32).zeroExtend 64) <<< 29)
    else
    if m &&& 0x200000#32 != 0#32 then
      sign ||| (895#64 <<< 52) ||| ((((m <<< 2) &&& 0x7fffff#32).zeroExtend 64) <<< 29)
    else
    if m &&& 0x100000#32 != 0#32 then
      sign ||| (894#64 <<< 52) ||| ((((m <<< 3) &&& 0x7fffff#32).zeroExtend 64) <<< 29)
    else
    if m &&& 0x80000#32 != 0#32 then
      sign ||| (893#64 <<< 52) ||| ((((m <<< 4) &&& 0x7fffff#32).zeroExtend 64) <<< 29)
    else
    if m &&& 0x40000#32 != 0#32 then
      sign ||| (892#64 <<< 52) ||| ((((m <<< 5) &&& 0x7fffff#32).zeroExtend 64) <<< 29)
    else
    if m &&& 0x20000#32 != 0#32 then
      sign ||| (891#64 <<< 52) ||| ((((m <<< 6) &&& 0x7fffff#32).zeroExtend 64) <<< 29)
    else
    if m &&& 0x10000#32 != 0#32 then
      sign ||| (890#64 <<< 52) ||| ((((m <<< 7) &&& 0x7fffff#32).zeroExtend 64) <<< 29)
    else
    if m &&& 0x8000#32 != 0#32 then
      sign ||| (889#64 <<< 52) ||| ((((m <<< 8) &&& 0x7fffff#32).zeroExtend 64) <<< 29)
    else
    if m &&& 0x4000#32 != 0#32 then
      sign ||| (888#64 <<< 52) ||| ((((m <<< 9) &&& 0x7fffff#32).zeroExtend 64) <<< 29)
    else
    if m &&& 0x2000#32 != 0#32 then
      sign ||| (887#64 <<< 52) ||| ((((m <<< 10) &&& 0x7fffff#32).zeroExtend 64) <<< 29)
    else
    if m &&& 0x1000#32 != 0#32 then
      sign ||| (886#64 <<< 52) ||| ((((m <<< 11) &&& 0x7fffff#32).zeroExtend 64) <<< 29)
    else
    if m &&& 0x800#32 != 0#32 then
      sign ||| (885#64 <<< 52) ||| ((((m <<< 12) &&& 0x7fffff#32).zeroExtend 64) <<< 29)
    else
    if m &&& 0x400#32 != 0#32 then
      sign ||| (884#64 <<< 52) ||| ((((m <<< 13) &&& 0x7fffff#32).zeroExtend 64) <<< 29)
    else
    if m &&& 0x200#32 != 0#32 then
      sign ||| (883#64 <<< 52) ||| ((((m <<< 14) &&& 0x7fffff#32).zeroExtend 64) <<< 29)
    else
    if m &&& 0x100#32 != 0#32 then
      sign ||| (882#64 <<< 52) ||| ((((m <<< 15) &&& 0x7fffff#32).zeroExtend 64) <<< 29)
    else
    if m &&& 0x80#32 != 0#32 then
      sign ||| (881#64 <<< 52) ||| ((((m <<< 16) &&& 0x7fffff#32).zeroExtend 64) <<< 29)
    else
    if m &&& 0x40#32 != 0#32 then
      sign ||| (880#64 <<< 52) ||| ((((m <<< 17) &&& 0x7fffff#32).zeroExtend 64) <<< 29)
    else
    if m &&& 0x20#32 != 0#32 then
      sign ||| (879#64 <<< 52) ||| ((((m <<< 18) &&& 0x7fffff#32).zeroExtend 64) <<< 29)
    else
    if m &&& 0x10#32 != 0#32 then
      sign ||| (878#64 <<< 52) ||| ((((m <<< 19) &&& 0x7fffff#32).zeroExtend 64) <<< 29)
    else
    if m &&& 0x8#32 != 0#32 then
      sign ||| (877#64 <<< 52) ||| ((((m <<< 20) &&& 0x7fffff#32).zeroExtend 64) <<< 29)
    else
    if m &&& 0x4#32 != 0#32 then
      sign ||| (876#64 <<< 52) ||| ((((m <<< 21) &&& 0x7fffff#32).zeroExtend 64) <<< 29)
    else
    if m &&& 0x2#32 != 0#32 then
      sign ||| (875#64 <<< 52) ||| ((((m <<< 22) &&& 0x7fffff#32).zeroExtend 64) <<< 29)
    else
    if m &&& 0x1#32 != 0#32 then
      sign ||| (874#64 <<< 52) ||| ((((m <<< 23) &&& 0x7fffff#32).zeroExtend 64) <<< 29)
    else sign
  else
    sign ||| (((e.zeroExtend 64) + 896#64) <<< 52) ||| ((m.zeroExtend 64) <<< 29)

/-- float64 -> float32, round to nearest even; overflow to infinity, gradual underflow. -/
def narrow32 (x : BitVec 64) : BitVec 32 :=
  let sign : BitVec 32 := ((x >>> 63).truncate 32) <<< 31
  let e : BitVec 64 := (x >>> 52) &&& 0x7ff#64
  let m : BitVec 64 := x &&& 0xfffffffffffff#64
  if e == 0x7ff#64 then
    if m == 0#64 then sign ||| 0x7f800000#32
    else sign ||| 0x7fc00000#32 ||| ((m >>> 29).truncate 32)
  else if e.ult 873#64 then sign                      -- below half of the smallest subnormal (also float64 zero / subnormals)
  else if e.ult 897#64 then
    -- subnormal (or zero, or the smallest normal after rounding): shift the 53-bit significand right by 926 - e (30 … 53)
    let full : BitVec 64 := m ||| 0x10000000000000#64
    let s : BitVec 64 := 926#64 - e
    let q : BitVec 64 := full >>> s
    let rem : BitVec 64 := full &&& ((1#64 <<< s) - 1#64)
    let half : BitVec 64 := 1#64 <<< (s - 1#64)
    let up : Bool := half.ult rem || (rem == half && (q &&& 1#64) == 1#64)
    sign ||| ((if up then q + 1#64 else q).truncate 32)
  else
    -- normal: biased exponent e - 896 (1 …); round the 52-bit mantissa to 23 bits; a carry runs into the exponent
    let r : BitVec 64 := m >>> 29
    let rem : BitVec 64 := m &&& 0x1fffffff#64
    let up : Bool := (0x10000000#64).ult rem || (rem == 0x10000000#64 && (r &&& 1#64) == 1#64)
    let body : BitVec 64 := (((e - 896#64) <<< 23) ||| r) + (if up then 1#64 else 0#64)
    if (0x7f800000#64).ule body then sign ||| 0x7f800000#32 else sign ||| body.truncate 32

def isNaN32 (x : BitVec 32) : Bool := ((x >>> 23) &&& 0xff#32) == 0xff#32 && (x &&& 0x7fffff#32) != 0#32
def isNaN64 (x : BitVec 64) : Bool := ((x >>> 52) &&& 0x7ff#64) == 0x7ff#64 && (x &&& 0xfffffffffffff#64) != 0#64
/-- `x == 0` on float64: both zeros -/
def isZero64 (x : BitVec 64) : Bool := (x &&& 0x7fffffffffffffff#64) == 0#64

end PGT.F
