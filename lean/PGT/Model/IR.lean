import PGT.Model.Descriptor
/-
The intermediate representation the generator builds (`Message` / `Field` of message.go, field.go).
-/
namespace PGT

inductive Kind | primitive | primitiveList | object | objectList | primitiveMap | objectMap | custom
deriving DecidableEq, Repr, Inhabited

/-- `TerraformType` (field.go) -/
structure TfType where
  type : String := ""
  valueType : String := ""
  elemType : String := ""
  elemValueType : String := ""
  isTypeScalar : Bool := false
  isElemTypeScalar : Bool := false
  valueCastToType : String := ""
  valueCastFromType : String := ""
  zeroValue : String := ""
  isMessage : Bool := false
  typeConstructor : String := ""
deriving DecidableEq, Repr, Inhabited

/-- the non-recursive part of `Field` -/
structure FieldInfo where
  name : String
  nameSnake : String
  kind : Kind := .primitive
  tf : TfType := {}
  goType : String := ""
  goElemType : String := ""
  goElemTypeIndirect : String := ""
  oneOfType : String := ""
  oneOfName : String := ""
  isPlaceholder : Bool := false
  suffix : String := ""
  isRepeated : Bool := false
  isMap : Bool := false
  isRequired : Bool := false
  isComputed : Bool := false
  isCustomType : Bool := false
  parentIsOptionalEmbed : Bool := false
  parentIsOptionalEmbedFullType : String := ""
  parentIsOptionalEmbedFieldName : String := ""
  isNullable : Bool := false
  isSensitive : Bool := false
  validators : List String := []
  planModifiers : List String := []
  comment : String := ""
  path : String := ""
  /-- semantic annotation (not part of the Go struct): the proto type of the field / element / map value,
  which determines the Go representation gogo gives it -/
  protoType : String := ""
deriving DecidableEq, Repr, Inhabited

/-- the non-recursive part of `Message` -/
structure MsgInfo where
  name : String
  goType : String := ""
  path : String := ""
  namePath : String := ""
  isRoot : Bool := false
  injected : List InjectedField := []
  oneOfNames : List String := []
  isEmpty : Bool := false
  comment : String := ""
deriving DecidableEq, Repr, Inhabited

/-- `Field`: `msg`/`sub` are the nested `Message` (for maps: the message of `MapValueField`);
`mapVal` is the non-recursive part of `MapValueField`. -/
structure Field where
  info : FieldInfo
  mapVal : Option FieldInfo := none
  msg : Option MsgInfo := none
  sub : List Field := []
deriving Repr, Inhabited

/-- `Message.IsEmpty` of an optional nested message -/
def isEmptyMsg (msg : Option MsgInfo) : Bool :=
  match msg with
  | some m => m.isEmpty
  | none => false

structure Msg where
  info : MsgInfo
  fields : List Field
deriving Repr, Inhabited

mutual
def Field.size : Field → Nat
  | ⟨_, _, _, sub⟩ => 1 + Field.sizes sub
def Field.sizes : List Field → Nat
  | [] => 0
  | f :: fs => f.size + Field.sizes fs
end

end PGT
