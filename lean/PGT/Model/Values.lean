import PGT.Model.Scalars
/-
Go struct values, Terraform types and values (terraform-plugin-framework v0.10.0 `types.*` structs),
diagnostics and outcomes of the emitted converters.
-/
namespace PGT

/-- Go values of the gogo-generated structs. Value-embedded structs are flattened into their parent;
a nullable embedded message is the field named after its type. -/
inductive GoVal
  | sc (s : Sc)
  | ptr (o : Option GoVal)
  | struct (fs : List (String × GoVal))
  | slice (o : Option (List GoVal))
  | map (o : Option (List (String × GoVal)))
  /-- oneof holder: wrapper type name, wrapper field name, payload -/
  | iface (o : Option (String × String × GoVal))
deriving Repr, Inhabited

/-- Terraform value kinds with a scalar payload -/
inductive PrimK | string | int64 | float64 | bool | time | duration
deriving DecidableEq, Repr, Inhabited

inductive TfTy
  | prim (k : PrimK)
  | list (e : Option TfTy)
  | map (e : Option TfTy)
  | obj (as : Option (List (String × TfTy)))
  | other (tag : String)
deriving Repr, Inhabited

/-- `attr.Value`s: the fields of the framework's structs, nil-ness of containers kept. -/
inductive TfVal
  | prim (k : PrimK) (unk null : Bool) (v : Sc)
  | list (unk null : Bool) (elems : Option (List TfVal)) (ety : Option TfTy)
  | map (unk null : Bool) (elems : Option (List (String × TfVal))) (ety : Option TfTy)
  | obj (unk null : Bool) (attrs : Option (List (String × TfVal))) (atys : Option (List (String × TfTy)))
  | nilv
  | foreign (tag : String)
deriving Repr, Inhabited

inductive Diag
  | readMissing (path : String)
  | readConv (path ty : String)
  | writeMissing (path : String)
  | writeConv (path ty : String)
  | writeGeneral (path : String)
deriving DecidableEq, Repr, Inhabited

/-- result of running emitted code: a value and the diagnostics appended so far, a Go run-time panic,
or `stuck` when the model is asked something it does not model (ill-typed harness input, unmodelled cast). -/
inductive Outcome (α : Type)
  | ok (a : α)
  | panic (why : String)
  | stuck (why : String)
deriving Repr, Inhabited

instance : Monad Outcome where
  pure := .ok
  bind x f := match x with
    | .ok a => f a
    | .panic w => .panic w
    | .stuck w => .stuck w

/-- association-list store: replace the first binding of `k` or append -/
def setKey {α} (k : String) (v : α) : List (String × α) → List (String × α)
  | [] => [(k, v)]
  | (k', v') :: rest => if k' == k then (k, v) :: rest else (k', v') :: setKey k v rest

def getKey {α} (k : String) (l : List (String × α)) : Option α := l.lookup k

/-- payload of the zero struct of a Terraform value kind -/
def PrimK.zeroSc : PrimK → Sc
  | .string => .str [] | .int64 => .w64 0 | .float64 => .f64 0 | .bool => .b false
  | .time => .time "zero" | .duration => .w64 0

/-- the Go representation of `.Value` of a Terraform value kind -/
def PrimK.rep : PrimK → GoRep
  | .string => .str | .int64 => .i64 | .float64 => .f64 | .bool => .b | .time => .time | .duration => .dur

/-- `t.ValueFromTerraform(ctx, tftypes.NewValue(t.TerraformType(ctx), nil))`: the null value of a type -/
def nullOfTy : TfTy → Option TfVal
  | .prim k => some (.prim k false true k.zeroSc)
  | .list e => some (.list false true none e)
  | .map e => some (.map false true none e)
  | .obj as => some (.obj false true none as)
  | .other _ => none

def GoVal.field? (v : GoVal) (name : String) : Option GoVal :=
  match v with
  | .struct fs => fs.lookup name
  | _ => none

def GoVal.setField (v : GoVal) (name : String) (x : GoVal) : GoVal :=
  match v with
  | .struct fs => .struct (setKey name x fs)
  | other => other

end PGT
