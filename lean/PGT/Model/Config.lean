import PGT.Model.Descriptor
import PGT.Model.Strings
import PGT.Generated.ConfigKeys
/-
`ReadConfig` (config.go): YAML first, then the command line with the YAML value as default, then the
`types` check. The YAML *parser* is not modelled: the model receives what the YAML file says as a record
(`Case.yaml`) together with the state of the `config=` parameter. The rows of `readFromCLI` come from the
regenerated table `Generated.cliTable`.
-/
namespace PGT

/-- gogo's parameter map: later entries win. -/
def paramLookup (cli : List (String × String)) (k : String) : String :=
  match (cli.reverse.find? (·.1 == k)) with
  | some (_, v) => v
  | none => ""

/-- `getStringParam` -/
def getStringParam (cli : List (String × String)) (name : String) (d : String) : String :=
  let p := String.ofList (trimSpace (paramLookup cli name).toList)
  if p == "" then d else p

/-- `getSliceParam`: `strings.Split(v, "+")` without trimming the elements. -/
def getSliceParam (cli : List (String × String)) (name : String) (d : List String) : List String :=
  let v := getStringParam cli name ""
  if v == "" then d
  else match Generated.paramDelimiter.toList with
    | [c] => (splitOnChar c v.toList).map String.ofList
    | _ => [v]

def asciiLower (s : String) : String := String.ofList (s.toList.map Strcase.toLower)

/-- `strconv.ParseBool` -/
def parseBool (s : String) : Option Bool :=
  if s == "1" || s == "t" || s == "T" || s == "TRUE" || s == "true" || s == "True" then some true
  else if s == "0" || s == "f" || s == "F" || s == "FALSE" || s == "false" || s == "False" then some false
  else none

/-- `getBoolParam` -/
def getBoolParam (cli : List (String × String)) (name : String) (d : Bool) : Bool :=
  let a := asciiLower (getStringParam cli name "")
  if a == "" then d else (parseBool a).getD d

def Config.getSlice (c : Config) (field : String) : List String :=
  if field == "Types" then c.types
  else if field == "ExcludeFields" then c.excludeFields
  else if field == "ComputedFields" then c.computedFields
  else if field == "RequiredFields" then c.requiredFields
  else if field == "SensitiveFields" then c.sensitiveFields
  else []

def Config.setSlice (c : Config) (field : String) (v : List String) : Config :=
  if field == "Types" then { c with types := v }
  else if field == "ExcludeFields" then { c with excludeFields := v }
  else if field == "ComputedFields" then { c with computedFields := v }
  else if field == "RequiredFields" then { c with requiredFields := v }
  else if field == "SensitiveFields" then { c with sensitiveFields := v }
  else c

def Config.getString (c : Config) (field : String) : String :=
  if field == "DefaultPackageName" then c.defaultPackageName
  else if field == "TargetPackageName" then c.targetPackageName
  else if field == "DurationCustomType" then c.durationCustomType
  else ""

def Config.setString (c : Config) (field : String) (v : String) : Config :=
  if field == "DefaultPackageName" then { c with defaultPackageName := v }
  else if field == "TargetPackageName" then { c with targetPackageName := v }
  else if field == "DurationCustomType" then { c with durationCustomType := v }
  else c

def Config.getBool (c : Config) (field : String) : Bool :=
  if field == "Sort" then c.sort
  else if field == "UseStateForUnknownByDefault" then c.useStateForUnknownByDefault
  else false

def Config.setBool (c : Config) (field : String) (v : Bool) : Config :=
  if field == "Sort" then { c with sort := v }
  else if field == "UseStateForUnknownByDefault" then { c with useStateForUnknownByDefault := v }
  else c

/-- one row of `readFromCLI` -/
def applyCliRow (cli : List (String × String)) (c : Config) (row : String × String × String) : Config :=
  let (field, key, kind) := row
  if kind == "slice" then c.setSlice field (getSliceParam cli key (c.getSlice field))
  else if kind == "string" then c.setString field (getStringParam cli key (c.getString field))
  else if kind == "bool" then c.setBool field (getBoolParam cli key (c.getBool field))
  else c

def readFromCLI (cli : List (String × String)) (c : Config) : Config :=
  Generated.cliTable.foldl (applyCliRow cli) c

inductive ConfigError | yamlUnreadable | yamlUnparsable | noTypes
deriving DecidableEq, Repr

/-- `ReadConfig`. -/
def readConfig (st : YamlState) (yaml : Config) (cli : List (String × String)) : Except ConfigError Config :=
  match st with
  | .missing => .error .yamlUnreadable
  | .garbage => .error .yamlUnparsable
  | _ =>
    let base : Config := if st == .ok then yaml else {}
    let c := readFromCLI cli base
    if c.types.isEmpty then .error .noTypes else .ok c

end PGT
